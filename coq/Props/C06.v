(* Props/C06.v — Rollback restores exactly the state of the chosen snapshot.
   Statements only; proofs in Proofs/RollbackP.v.  [rollback w id] mirrors apply.rs::rollback
   (state-tree branch; snapshots in id order, [id] = ordinal). *)
From AP Require Import Base.Str Gen.Tables Model.Deploy Proofs.DeployP Proofs.ConvergeP Proofs.RollbackP Proofs.HistoryP Proofs.WfDec Proofs.ReplanP Proofs.HeadP.
Open Scope N_scope.

(* rollback records and unknown ids are rejected as targets without any write *)
Theorem C06_reject_unknown : forall w id, nth_error (snaps w) id = None -> rollback w id = (RbErr, w).
Proof. exact rollback_reject_unknown. Qed.
Theorem C06_reject_rollback_record : forall w id sn,
  nth_error (snaps w) id = Some sn -> sn_kind sn = KRollback -> rollback w id = (RbErr, w).
Proof. exact rollback_reject_rollback_record. Qed.
Theorem C06_error_no_write : forall w id w', rollback w id = (RbErr, w') -> w' = w.
Proof. exact rollback_err_no_write. Qed.
Print Assumptions C06_reject_unknown.
Print Assumptions C06_reject_rollback_record.
Print Assumptions C06_error_no_write.

(* what a deploy snapshot S records is exactly what is on disk right after S was applied *)
Theorem C06_snapshot_records_disk : forall st confirmed adopt flt w roots D pl w',
  deploy_cmd st confirmed adopt flt w roots D = (pl, (OApplied, w')) ->
  wfD roots D -> wfM D (managed_for_plan w roots flt) ->
  exists sn, snaps w' = snaps w ++ [sn] /\ sn_kind sn = KDeploy /\ sn_state sn = true /\
             sn_managed sn = map (fun d => (dtarget d, dpath d, dcontent d)) D /\
             forall e, In e (sn_managed sn) -> files w' (mpath e) = Some (FBytes (snd e)).
Proof. exact snapshot_records_disk. Qed.
Print Assumptions C06_snapshot_records_disk.

(* exact effect of a successful rollback to S (= tgt) from any world whose current head is cur:
   (1) every file S recorded holds S's bytes again; (2) every file the head recorded and S did not
   is gone; (3) every manifest S wrote holds S's version again; (4) nothing else changes.
   Hypotheses (visible): S's managed paths pairwise distinct; no managed path is a manifest file; a
   path is managed under one target in S and head; S wrote each manifest once. *)
Theorem C06_restore_partial : forall w id h tgt cur w',
  nth_error (snaps w) id = Some tgt -> sn_kind tgt <> KRollback ->
  head_of (snaps w) = Some h -> nth_error (snaps w) h = Some cur -> sn_state tgt = true ->
  NoDup (map mpath (sn_managed tgt)) ->
  (forall e, In e (sn_managed tgt) -> is_manifest_path (mpath e) = false) ->
  (forall e, In e (sn_managed cur) -> is_manifest_path (mpath e) = false) ->
  (forall e e', In e (sn_managed cur) -> In e' (sn_managed tgt) -> mpath e = mpath e' -> mtp e = mtp e') ->
  NoDup (map a_path (man_changes (sn_changes tgt))) ->
  rollback w id = (RbOk, w') ->
  (forall e, In e (sn_managed tgt) -> files w' (mpath e) = Some (FBytes (snd e))) /\
  (forall e, In e (sn_managed cur) -> mem_tpc (mtp e) (sn_managed tgt) = false -> files w' (mpath e) = None) /\
  (forall c o, In c (man_changes (sn_changes tgt)) -> a_after c = Some o -> files w' (a_path c) = Some o) /\
  (forall p, (forall e, In e (sn_managed tgt) -> mpath e <> p) ->
             (forall e, In e (sn_managed cur) -> mpath e <> p) ->
             (forall c, In c (man_changes (sn_changes tgt)) -> a_path c <> p) -> files w' p = files w p).
Proof.
  intros w id h tgt cur w' H1 H2 H3 H4 H5 H6 H7 H8 H9 H10 H11.
  exact (rb_effect w id h tgt cur H1 H2 H3 H4 H5 H6 H7 H8 H9 H10 w' H11).
Qed.
Print Assumptions C06_restore_partial.

(* HISTORY-LEVEL restore, outside the known classes: let S be the snapshot of an applied, unfiltered
   deploy after which every root has a manifest (no K6c).  After ANY history of further unfiltered
   deploys without adopt whose new outputs are created rather than found (no K6a, no K6b; each with
   the wfD/wfM/covered hypotheses evaluated in the world where it runs) interleaved with user edits
   or deletions of managed files, rollback to S succeeds and the WHOLE disk — every deployed file,
   every manifest, everything else — is exactly what it was right after S.  [hist_ok] spells the
   per-step hypotheses (Proofs/HistoryP.v); the last premise says a path keeps its target between S
   and the current head. *)
Theorem C06_restore_histories : forall st confirmed adopt w0 roots DS pl wS h,
  deploy_cmd st confirmed adopt None w0 roots DS = (pl, (OApplied, wS)) ->
  wfD roots DS -> wfM DS (managed_for_plan w0 roots None) -> covered roots DS ->
  all_manifests roots (files wS) ->
  hist_ok roots wS h ->
  let w := run_hist roots wS h in
  let id := length (snaps w0) in
  (forall cur init, snaps w = init ++ [cur] ->
     forall e e', In e (sn_managed cur) -> In e' (triples DS) -> mpath e = mpath e' -> mtp e = mtp e') ->
  exists w', rollback w id = (RbOk, w') /\ forall p, files w' p = files wS p.
Proof. exact rollback_inverts_history. Qed.
Print Assumptions C06_restore_histories.

(* "... so re-planning S's configuration shows no changes": under the same hypotheses the plan of S's
   configuration in the world after the rollback is empty — every file of S holds S's bytes (also files no later
   deployment touched but the user edited), nothing S does not want is recorded.  [C06_replan_any_records] is the
   general form: it holds in ANY world whose files are those right after S, whatever snapshot records it carries. *)
Theorem C06_replan_no_changes : forall st confirmed adopt w0 roots DS pl wS h,
  deploy_cmd st confirmed adopt None w0 roots DS = (pl, (OApplied, wS)) ->
  wfD roots DS -> wfM DS (managed_for_plan w0 roots None) -> covered roots DS ->
  all_manifests roots (files wS) ->
  hist_ok roots wS h ->
  let w := run_hist roots wS h in
  let id := length (snaps w0) in
  (forall cur init, snaps w = init ++ [cur] ->
     forall e e', In e (sn_managed cur) -> In e' (triples DS) -> mpath e = mpath e' -> mtp e = mtp e') ->
  exists w', rollback w id = (RbOk, w') /\ plan (files w') DS (managed_for_plan w' roots None) = [].
Proof. exact rollback_replan_empty. Qed.
Print Assumptions C06_replan_no_changes.

Theorem C06_replan_any_records : forall w roots D x,
  wfD roots D -> wfM D (managed_for_plan w roots None) ->
  let w' := apply_plan KDeploy w roots D (plan (files w) D (managed_for_plan w roots None)) in
  all_manifests roots (files w') ->
  (forall p, files x p = files w' p) ->
  plan (files x) D (managed_for_plan x roots None) = [].
Proof. intros w roots D x HD HM w' Hall Hx. exact (replan_empty_any_records w roots D HD HM Hall x Hx). Qed.
Print Assumptions C06_replan_any_records.

(* the records after a rollback: the replayed head IS the chosen snapshot and the latest deployment record is the
   rollback's own (listing what the chosen snapshot lists) — so an immediately following rollback deletes relative to
   the first one's target, and the manifest-less fallback of the next plan sees the rolled-back-to file list *)
Theorem C06_rollback_records : forall w id w',
  rollback w id = (RbOk, w') ->
  exists tgt rec,
    nth_error (snaps w) id = Some tgt /\ sn_kind tgt <> KRollback /\
    snaps w' = snaps w ++ [rec] /\ sn_kind rec = KRollback /\ sn_to rec = Some id /\ sn_managed rec = sn_managed tgt /\
    head_of (snaps w') = Some id /\ latest_dr (snaps w') = Some rec.
Proof. exact rollback_records. Qed.
Print Assumptions C06_rollback_records.

Theorem C06_rollback_after_rollback : forall w a w1 b w2,
  rollback w a = (RbOk, w1) -> rollback w1 b = (RbOk, w2) ->
  exists ta tb, nth_error (snaps w) a = Some ta /\ nth_error (snaps w1) b = Some tb /\
    files w2 = delete_unlisted (restore_manifests (restore_managed (files w1) (sn_managed tb)) (sn_changes tb))
                               (sn_managed ta) (sn_managed tb).
Proof. exact rollback_after_rollback. Qed.
Print Assumptions C06_rollback_after_rollback.

(* non-vacuity: S0 {a, b}, S1 {a}; rollback to S0 brings b back, rollback to S1 removes it again *)
Example C06_two_rollbacks :
  let rc := Build_root (s "codex") [s "h"; s "codex"] false in
  let pa := [s "h"; s "codex"; s "a.md"] in let pb := [s "h"; s "codex"; s "b.md"] in
  let w0 := Build_world (fun _ => None) [] in
  let w1 := snd (snd (deploy_cmd SJsonYes true false None w0 [rc] [Build_dfile (s "codex") pa 1 []; Build_dfile (s "codex") pb 2 []])) in
  let w2 := snd (snd (deploy_cmd SJsonYes true false None w1 [rc] [Build_dfile (s "codex") pa 1 []])) in
  let w3 := snd (rollback w2 0) in let w4 := snd (rollback w3 1) in
  files w2 pb = None /\ fst (rollback w2 0) = RbOk /\ files w3 pb = Some (FBytes 2) /\
  fst (rollback w3 1) = RbOk /\ files w4 pb = None /\ files w4 pa = Some (FBytes 1) /\ head_of (snaps w4) = Some 1%nat.
Proof. vm_compute. repeat split; reflexivity. Qed.

(* the FULL statement of the property — every path touched by any deployment after S has the
   content it had right after S — is refuted by the faithful model: a path can be touched after S
   without being recorded by S or by the head (it then falls under clause (4) above: unchanged).
   The refuting shape (class K6a): S is target-filtered, files of another target existed (deployed
   earlier) right after S, the head records them, rollback deletes them. *)
Example C06_restore_refuted :
  let rc := Build_root (s "codex") [s "h"; s "codex"] false in
  let rz := Build_root (s "zed") [s "h"; s "zed"] false in
  let pa := [s "h"; s "codex"; s "a.md"] in let pz := [s "h"; s "zed"; s "z.md"] in
  let Dc := Build_dfile (s "codex") pa 1 [] in let Dz := Build_dfile (s "zed") pz 2 [] in
  let w0 := Build_world (fun _ => None) [] in
  (* deploy everything; then S = a zed-only deploy after editing z; then a full deploy (head) *)
  let w1 := snd (snd (deploy_cmd SJsonYes true false None w0 [rc; rz] [Dc; Dz])) in
  let Dz' := Build_dfile (s "zed") pz 3 [] in
  let wS := snd (snd (deploy_cmd SJsonYes true false (Some (s "zed")) w1 [rz] [Dz'])) in
  let w3 := snd (snd (deploy_cmd SJsonYes true false None wS [rc; rz] [Build_dfile (s "codex") pa 4 []; Dz'])) in
  let w4 := snd (rollback w3 1) in
  fst (rollback w3 1) = RbOk /\ files wS pa = Some (FBytes 1) /\ files w4 pa = None.
Proof. vm_compute. repeat split; reflexivity. Qed.

(* a second refuting shape (class K6d), found by the thorough tier: S is deployed while a root is switched off, so a
   file an earlier deployment wrote there stays on disk UNMANAGED; the head manages it again; rollback to S deletes it
   (it removes what the head lists beyond S) although it was there right after S *)
Example C06_restore_refuted_root_off :
  let rc := Build_root (s "codex") [s "h"; s "codex"] false in
  let rp := Build_root (s "codex") [s "h"; s "codex"; s "prompts"] true in
  let pa := [s "h"; s "codex"; s "AGENTS.md"] in let pb := [s "h"; s "codex"; s "prompts"; s "b.md"] in
  let w0 := Build_world (fun _ => None) [] in
  let w1 := snd (snd (deploy_cmd SJsonYes true false None w0 [rc; rp] [Build_dfile (s "codex") pa 1 []; Build_dfile (s "codex") pb 2 []])) in
  (* S: the home root is switched off; only the prompt changes *)
  let wS := snd (snd (deploy_cmd SJsonYes true false None w1 [rp] [Build_dfile (s "codex") pb 3 []])) in
  let w3 := snd (snd (deploy_cmd SJsonYes true false None wS [rc; rp] [Build_dfile (s "codex") pa 4 []; Build_dfile (s "codex") pb 3 []])) in
  let w4 := snd (rollback w3 1) in
  fst (rollback w3 1) = RbOk /\ files wS pa = Some (FBytes 1) /\ files w3 pa = Some (FBytes 4) /\ files w4 pa = None.
Proof. vm_compute. repeat split; reflexivity. Qed.

(* non-vacuity of C06_restore_partial: two full deploys, a user edit, rollback to the first *)
Example C06_nonvacuous :
  let rc := Build_root (s "codex") [s "h"; s "codex"] false in
  let pa := [s "h"; s "codex"; s "a.md"] in let pb := [s "h"; s "codex"; s "b.md"] in
  let w0 := Build_world (fun _ => None) [] in
  let w1 := snd (snd (deploy_cmd SJsonYes true false None w0 [rc] [Build_dfile (s "codex") pa 1 []])) in
  let w2 := snd (snd (deploy_cmd SJsonYes true false None w1 [rc] [Build_dfile (s "codex") pa 2 []; Build_dfile (s "codex") pb 3 []])) in
  let w3 := snd (rollback w2 0) in
  fst (rollback w2 0) = RbOk /\ files w3 pa = Some (FBytes 1) /\ files w3 pb = None /\
  files w3 (mf_path rc) = files w1 (mf_path rc) /\ plan (files w3) [Build_dfile (s "codex") pa 1 []] (managed_for_plan w3 [rc] None) = [].
Proof. vm_compute. repeat split; reflexivity. Qed.

(* non-vacuity of C06_restore_histories: a snapshot S, then a second deploy that updates a file and
   creates another, a user deletion of a managed file, a third deploy that drops a module; every
   premise holds (decided by the boolean deciders of Proofs/WfDec.v, proved sound there) and the
   conclusion is the whole-disk equality *)
Example C06_histories_nonvacuous :
  let r1 := Build_root (s "codex") [s "h"; s "codex"] false in
  let r2 := Build_root (s "codex") [s "h"; s "codex"; s "prompts"] true in
  let pa := [s "h"; s "codex"; s "AGENTS.md"] in
  let pb := [s "h"; s "codex"; s "prompts"; s "b.md"] in
  let pc := [s "h"; s "codex"; s "prompts"; s "c.md"] in
  let roots := [r1; r2] in
  let w0 := Build_world (fun _ => None) [] in
  let DS := [Build_dfile (s "codex") pa 1 []; Build_dfile (s "codex") pb 2 []] in
  let wS := snd (snd (deploy_cmd SJsonYes true false None w0 roots DS)) in
  let h := [HopDeploy SJsonYes true [Build_dfile (s "codex") pa 7 []; Build_dfile (s "codex") pb 2 []; Build_dfile (s "codex") pc 3 []];
            HopDrift pb None;
            HopDeploy SExplicit true [Build_dfile (s "codex") pa 7 []; Build_dfile (s "codex") pc 4 []]] in
  fst (snd (deploy_cmd SJsonYes true false None w0 roots DS)) = OApplied /\
  wfD roots DS /\ wfM DS (managed_for_plan w0 roots None) /\ covered roots DS /\ all_manifests roots (files wS) /\
  hist_ok roots wS h /\
  (forall cur init, snaps (run_hist roots wS h) = init ++ [cur] ->
     forall e e', In e (sn_managed cur) -> In e' (triples DS) -> mpath e = mpath e' -> mtp e = mtp e') /\
  length (snaps (run_hist roots wS h)) = 3%nat /\
  files (run_hist roots wS h) pa = Some (FBytes 7) /\ files (run_hist roots wS h) pb = None /\
  files (snd (rollback (run_hist roots wS h) 0)) pa = Some (FBytes 1) /\
  files (snd (rollback (run_hist roots wS h) 0)) pb = Some (FBytes 2) /\
  files (snd (rollback (run_hist roots wS h) 0)) pc = None /\
  plan (files (snd (rollback (run_hist roots wS h) 0))) DS (managed_for_plan (snd (rollback (run_hist roots wS h) 0)) roots None) = [].
Proof.
  cbv zeta. split; [vm_compute; reflexivity|].
  split; [apply wfD_b_sound; vm_compute; reflexivity|].
  split; [apply wfM_b_sound; vm_compute; reflexivity|].
  split; [apply covered_b_sound; vm_compute; reflexivity|].
  split; [apply all_manifests_b_sound; vm_compute; reflexivity|].
  split; [apply hist_ok_b_sound; vm_compute; reflexivity|].
  split; [apply compat_b_sound; vm_compute; reflexivity|].
  vm_compute. repeat split; reflexivity.
Qed.
