(* Props/C01.v — User-owned files are never overwritten without an explicit adopt.
   Statements only; proofs in Proofs/DeployP.v.  [deploy_cmd st confirmed adopt flt w roots D] is
   the deploy --apply core shared by the CLI (st = SInteractive for human mode, SJsonYes for
   --json), the MCP deploy_apply tool (SJsonYes) and the TUI apply path (SExplicit). *)
From AP Require Import Base.Str Gen.Tables Model.Deploy Proofs.DeployP.
Open Scope N_scope.

(* without adopt, a file that exists and is not recorded as deployed (by any target) is unchanged,
   for every entry style, filter, world, root list and desired state *)
Theorem C01_no_unmanaged_change :
  forall st confirmed flt w roots D p o pl out w',
  deploy_cmd st confirmed false flt w roots D = (pl, (out, w')) ->
  files w p = Some o ->
  (forall t, ~ In (t, p) (managed_for_plan w roots flt)) ->
  (forall r, In r roots -> p <> mf_path r) ->
  files w' p = Some o.
Proof. exact deploy_no_unmanaged_change. Qed.
Print Assumptions C01_no_unmanaged_change.

(* if such a file differs from the desired content, the whole deploy is refused with
   E_ADOPT_CONFIRM_REQUIRED and the world is unchanged (nothing written at all) *)
Theorem C01_refused_whole :
  forall st confirmed flt w roots D d o,
  (needs_confirm_flag st = false \/ confirmed = true) ->
  In d D -> files w (dpath d) = Some o -> o <> FBytes (dcontent d) ->
  ~ In (dkey d) (managed_for_plan w roots flt) ->
  snd (deploy_cmd st confirmed false flt w roots D) = (OErr code_adopt_required, w).
Proof. exact deploy_refused_whole. Qed.
Print Assumptions C01_refused_whole.

(* the adopt refusal fires exactly when some desired file collides with an unrecorded differing file *)
Theorem C01_adopt_iff : forall f D M,
  has_adopt (plan f D M) = true <->
  exists d o, In d D /\ f (dpath d) = Some o /\ o <> FBytes (dcontent d) /\ ~ In (dkey d) M.
Proof. exact has_adopt_iff. Qed.
Print Assumptions C01_adopt_iff.

(* create-only commands *)
Theorem C01_restore_create_only : forall D f p, f p <> None -> restore_cmd f D p = f p.
Proof. exact restore_create_only. Qed.
Theorem C01_restore_writes_desired : forall D f p o, restore_cmd f D p = Some o -> f p = None ->
  exists d, In d D /\ dpath d = p /\ o = FBytes (dcontent d).
Proof. exact restore_writes_missing. Qed.
Theorem C01_import_create_only : forall f dests g p,
  import_apply f dests = Some g -> f p <> None -> g p = f p.
Proof. exact import_create_only. Qed.
Theorem C01_import_refuses : forall f dests d,
  In d dests -> f (fst d) <> None -> import_apply f dests = None.
Proof. exact import_refuses. Qed.
Print Assumptions C01_restore_create_only.
Print Assumptions C01_restore_writes_desired.
Print Assumptions C01_import_create_only.
Print Assumptions C01_import_refuses.

(* non-vacuity: partly managed root (a.md recorded) with an unmanaged colliding b.md *)
Example C01_nonvacuous :
  let root := [s "home"; s "codex"] in
  let r := Build_root (s "codex") root false in
  let pa := root ++ [s "a.md"] in let pb := root ++ [s "b.md"] in
  let man := FMan (Parsed 1 (s "codex") [(s "a.md", 1)]) in
  let f : fs := upd (upd (upd (fun _ => None) (mf_path r) (Some man)) pa (Some (FBytes 1))) pb (Some (FBytes 7)) in
  let w := Build_world f [] in
  let D := [Build_dfile (s "codex") pa 2 []; Build_dfile (s "codex") pb 3 []] in
  fst (snd (deploy_cmd SJsonYes true false None w [r] D)) = OErr code_adopt_required /\
  fst (snd (deploy_cmd SJsonYes true true None w [r] D)) = OApplied /\
  map c_op (fst (deploy_cmd SJsonYes true false None w [r] D)) = [PUpdate UManaged; PUpdate UAdopt].
Proof. vm_compute. repeat split; reflexivity. Qed.
