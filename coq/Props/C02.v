(* Props/C02.v — Deletes touch only files agentpack itself recorded as managed.
   Statements only; proofs in Proofs/DeployP.v. *)
From AP Require Import Base.Str Gen.Tables Model.Deploy Proofs.DeployP Proofs.ConvergeP Proofs.RollbackP Proofs.ManifestKeepP Proofs.BootstrapNoDeleteP.
Open Scope N_scope.

(* a delete is planned only for a path in the managed set that is absent from the desired state
   (and exists on disk); for every disk, desired state and managed set *)
Theorem C02_delete_sound : forall (f : fs) (D : list dfile) (M : list tpath) (c : change),
  In c (plan f D M) -> c_op c = PDelete ->
  In (c_target c, c_path c) M /\ mem_key (c_target c, c_path c) D = false /\ f (c_path c) <> None.
Proof. exact plan_delete_sound. Qed.
Print Assumptions C02_delete_sound.

(* the managed set used for planning comes only from agentpack's own records: an accepted entry of
   the root's manifest, or — only when no root of the run has a usable manifest at all (a usable
   manifest that lists nothing is a record too) — the latest
   deploy/rollback snapshot, and of that only what lies under a current root of the same target
   (snapshots are shared by all projects using one agentpack home); and it respects the target filter *)
Theorem C02_managed_from_records : forall (w : world) (roots : list root) (flt : option str) (tp : tpath),
  In tp (managed_for_plan w roots flt) ->
  passes flt (fst tp) = true /\
  ((exists r es e, In r roots /\ read_manifest (files w) r = Some es /\ In e es /\
                   safe_rel (fst e) = true /\ tp = (rtarget r, join_rel (rpath r) (fst e))) \/
   ((forall r, In r roots -> read_manifest (files w) r = None) /\
    exists sn, latest_dr (snaps w) = Some sn /\ In sn (snaps w) /\ kind_dr (sn_kind sn) = true /\
               In tp (snap_managed sn) /\ under_roots roots tp = true)).
Proof.
  intros w roots flt tp H. apply in_managed_for_plan in H as [Hp [[r [Hr Hin]]|[Hl [sn [Hs [Hin Hu]]]]]].
  - split; [exact Hp|]. left. apply in_root_managed in Hin as [es [e (H1 & H2 & H3 & H4)]].
    exists r, es, e. auto.
  - split; [exact Hp|]. right. split; [exact (any_usable_false_none _ _ Hl)|]. exists sn. destruct (latest_dr_in _ _ Hs). auto.
Qed.
Print Assumptions C02_managed_from_records.

(* a manifest is accepted only when the chosen file (preferred name, else legacy name) parses with
   the supported schema version and tool = the root's target *)
Theorem C02_manifest_accepted : forall (f : fs) (r : root) es,
  read_manifest f r = Some es ->
  (f (mf_path r) = Some (FMan (Parsed target_manifest_schema_version (rtarget r) es))) \/
  (f (mf_path r) = None /\
   f (legacy_path r) = Some (FMan (Parsed target_manifest_schema_version (rtarget r) es))).
Proof. intros f r es H. apply chosen_manifest_spec. apply read_manifest_usable. exact H. Qed.
Print Assumptions C02_manifest_accepted.

(* entries with absolute or parent-directory paths are never followed; accepted ones stay inside
   the root even after lexical resolution of ".." *)
Theorem C02_safe_rel_not_followed : forall e,
  safe_rel e = true -> is_absolute e = false /\ ~ In dotdot (comps e).
Proof. exact safe_rel_not_followed. Qed.
Theorem C02_safe_rel_inside : forall root e,
  existsb (str_eqb dotdot) root = false -> safe_rel e = true ->
  lexnorm (join_rel root e) = join_rel root e /\ is_prefix root (lexnorm (join_rel root e)) = true.
Proof. exact safe_rel_inside. Qed.
Print Assumptions C02_safe_rel_not_followed.
Print Assumptions C02_safe_rel_inside.

(* whole command: a file that disappears during deploy was recorded (for a target passing the
   filter), is absent from the desired state and was announced as a delete *)
Theorem C02_deploy_removes_only_recorded :
  forall st confirmed adopt flt w roots D p pl out w',
  deploy_cmd st confirmed adopt flt w roots D = (pl, (out, w')) ->
  files w p <> None -> files w' p = None ->
  (forall r, In r roots -> p <> mf_path r) ->
  exists t, In (t, p) (managed_for_plan w roots flt) /\ mem_key (t, p) D = false /\
            In (Build_change t PDelete p (files w p) None) pl.
Proof. exact deploy_removes_only_recorded. Qed.
Print Assumptions C02_deploy_removes_only_recorded.

(* the theorem above leaves out the per-target manifests of the run's own roots; for those and for every other
   manifest-named file (legacy-named, of another target, of another tool, unreadable): an apply never removes one,
   and one that is not the per-target manifest of a root of this run is byte-identical afterwards *)
Theorem C02_manifests_never_deleted : forall w roots D flt p,
  wfD roots D -> wfM D (managed_for_plan w roots flt) ->
  is_manifest_path p = true -> files w p <> None ->
  files (apply_plan KDeploy w roots D (plan (files w) D (managed_for_plan w roots flt))) p <> None.
Proof. exact manifests_never_deleted. Qed.
Print Assumptions C02_manifests_never_deleted.

Theorem C02_foreign_manifests_untouched : forall w roots D flt p,
  wfD roots D -> wfM D (managed_for_plan w roots flt) ->
  is_manifest_path p = true -> (forall r, In r roots -> mf_path r <> p) ->
  files (apply_plan KDeploy w roots D (plan (files w) D (managed_for_plan w roots flt))) p = files w p.
Proof. exact foreign_manifests_untouched. Qed.
Print Assumptions C02_foreign_manifests_untouched.

(* non-vacuity: a world with a hostile manifest (.. entry, absolute entry) next to a valid entry *)
(* bootstrap (and init --bootstrap) plans with an EMPTY managed set: whatever the world, the roots
   and the operator files it wants, it never plans a delete — every change creates or updates a
   desired path with the desired bytes *)
Theorem C02_bootstrap_never_deletes : forall w roots D c,
  In c (fst (bootstrap_cmd w roots D)) ->
  c_op c <> PDelete /\ exists d, In d D /\ c_path c = dpath d /\ c_after c = Some (dcontent d).
Proof. exact bootstrap_no_delete. Qed.
Print Assumptions C02_bootstrap_never_deletes.

(* a bootstrap that does plan something: a stale operator file recorded by a manifest is left alone *)
Example C02_bootstrap_nonvacuous :
  let r := Build_root (s "codex") [s "h"; s "skills"] true in
  let pold := [s "h"; s "skills"; s "old"; s "SKILL.md"] in
  let po := [s "h"; s "skills"; s "agentpack-operator"; s "SKILL.md"] in
  let f : fs := upd (upd (fun _ => None) (mf_path r) (Some (FMan (Parsed 1 (s "codex") [(s "old/SKILL.md", 3)])))) pold (Some (FBytes 3)) in
  let w := Build_world f [] in
  map c_op (fst (bootstrap_cmd w [r] [Build_dfile (s "codex") po 2 []])) = [PCreate] /\
  files (snd (bootstrap_cmd w [r] [Build_dfile (s "codex") po 2 []])) pold = Some (FBytes 3).
Proof. vm_compute. split; reflexivity. Qed.

Example C02_nonvacuous :
  let root := [s "home"; s "codex"] in
  let r := Build_root (s "codex") root false in
  let man := FMan (Parsed 1 (s "codex") [(s "prompts/a.md", 1); (s "../../etc/passwd", 2); (s "/abs", 3)]) in
  let f : fs := upd (upd (upd (fun _ => None) (mf_path r) (Some man))
                         (root ++ [s "prompts"; s "a.md"]) (Some (FBytes 1)))
                    [s "etc"; s "passwd"] (Some (FBytes 2)) in
  let w := Build_world f [] in
  managed_for_plan w [r] None = [(s "codex", root ++ [s "prompts"; s "a.md"])] /\
  map c_op (plan f [] (managed_for_plan w [r] None)) = [PDelete].
Proof. vm_compute. split; reflexivity. Qed.

(* rollback deletes only files that agentpack's own snapshot records list: managed by the current
   head snapshot and not by the chosen one *)
Theorem C02_rollback_removes_only_recorded : forall w id w' p,
  rollback w id = (RbOk, w') -> files w p <> None -> files w' p = None ->
  exists h cur tgt e, head_of (snaps w) = Some h /\ nth_error (snaps w) h = Some cur /\
                      nth_error (snaps w) id = Some tgt /\
                      In e (sn_managed cur) /\ mpath e = p /\ mem_tpc (mtp e) (sn_managed tgt) = false.
Proof. exact rollback_removes_only_head_managed. Qed.
Print Assumptions C02_rollback_removes_only_recorded.
