(* Props/C11.v — MCP deploy_apply writes only with a valid, fresh, matching, unused token.
   Statements only; proofs in Proofs/TokenP.v. *)
From AP Require Import Base.Str Model.Token Proofs.TokenP.
Open Scope N_scope.

(* The spec state [live] (Proofs/TokenP.v [ghost]) is: tokens issued by a deploy call of this
   server instance since its last restart, minus those consumed by a successful apply or replaced
   by a re-issue of the same token string.  [qualifies st live t b adopt] says: some live issue has
   token t, was issued for exactly the arguments b, is younger than the TTL, its reviewed plan hash
   equals the plan hash recomputed now, and the plan needs no adopt unless adopt is given. *)

(* Safety, for every operation sequence over {deploy, deploy_apply, mutation, clock advance,
   restart} and every planning oracle: a deploy_apply that succeeds (applies, or finds nothing to
   do and consumes the token) was called with yes=true, dry_run=false and a qualifying token. *)
Theorem C11_safety : forall (f : binding -> plan_state) (ops : list op),
  Forall (fun e => let '(st0, live0, o, x) := e in
            succeeded x ->
            exists tok b adopt t, o = Apply tok b true false adopt /\ token_given tok = Some t /\
                                  qualifies st0 live0 t b adopt)
         (grun (init f) [] ops).
Proof. exact safety_all_sequences. Qed.
Print Assumptions C11_safety.

(* ... and conversely a qualifying call does succeed (the decision is exact) *)
Theorem C11_success_iff : forall st live tok b yes dry adopt, Inv st live ->
  (succeeded (snd (step st (Apply tok b yes dry adopt))) <->
   yes = true /\ dry = false /\ exists t, token_given tok = Some t /\ qualifies st live t b adopt).
Proof. exact apply_success_iff. Qed.
Print Assumptions C11_success_iff.

(* the store invariant holds in every reachable state *)
Theorem C11_invariant : forall f ops,
  Forall (fun e => let '(st0, live0, _, _) := e in Inv st0 live0) (grun (init f) [] ops).
Proof. intros f ops. exact (grun_inv ops (init f) [] (inv_init f)). Qed.
Print Assumptions C11_invariant.

(* every live issue stems from an Issue operation (same token, arguments, clock, plan hash) *)
Theorem C11_live_origin : forall st live o x i,
  In i (ghost live st o x) ->
  In i live \/ exists b tok', o = Issue b (i_tok i) /\ i_b i = b /\ i_t i = s_now st /\
                             x = OIssued tok' (i_h i).
Proof. exact ghost_origin. Qed.
Print Assumptions C11_live_origin.

(* every refusal carries exactly the documented code, by cause *)
Theorem C11_codes : forall st live tok b yes dry adopt c, Inv st live ->
  snd (step st (Apply tok b yes dry adopt)) = ORefused c ->
  ((yes = false \/ dry = true) /\
     (s_plan st b = PlanErr c \/ (exists h a ch, s_plan st b = PlanOk h a ch) /\ dry = false /\ c = code_confirm)) \/
  (yes = true /\ dry = false /\
    (   (token_given tok = None /\ c = code_required)
     \/ (exists t, token_given tok = Some t /\
          (   ((forall i, In i live -> i_tok i <> t) /\ c = code_mismatch)
           \/ (exists i, In i live /\ i_tok i = t /\
                (   (~ fresh st i /\ (c = code_expired \/ c = code_mismatch))
                 \/ (fresh st i /\ i_b i <> b /\ c = code_mismatch)
                 \/ (fresh st i /\ i_b i = b /\ c = code_mismatch /\
                       (forall h a ch, s_plan st b = PlanOk h a ch -> i_h i <> h))
                 \/ (fresh st i /\ i_b i = b /\ c = code_adopt /\ adopt = false /\
                       exists ch, s_plan st b = PlanOk (i_h i) true ch))))))).
Proof. exact apply_refusal_codes. Qed.
Print Assumptions C11_codes.

(* a refused or dry-run call never reports a write: outcomes are disjoint by construction *)
Theorem C11_refused_no_write : forall st tok b yes dry adopt c,
  snd (step st (Apply tok b yes dry adopt)) = ORefused c ->
  ~ succeeded (snd (step st (Apply tok b yes dry adopt))).
Proof. intros st tok b yes dry adopt c H [H1|H1]; rewrite H in H1; discriminate. Qed.

(* non-vacuity: a concrete run exercising issue, in-time apply, reuse, expiry, restart *)
Example C11_nonvacuous :
  let b := mkB (Some [114]) None None None in
  let f := fun _ : binding => PlanOk [104] false true in
  run (init f) [Issue b [116]; Tick 599999; Apply (Some [116]) b true false false;
                Apply (Some [116]) b true false false;
                Issue b [117]; Tick 600000; Apply (Some [117]) b true false false;
                Issue b [118]; Restart; Apply (Some [118]) b true false false;
                Issue b [119]; Apply (Some [119]) (mkB None None None None) true false false;
                Apply (Some [119]) b false false false; Apply None b true false false;
                Apply (Some [119]) b true true false]
  = [OIssued [116] [104]; ONone; OApplied; ORefused code_mismatch;
     OIssued [117] [104]; ONone; ORefused code_expired;
     OIssued [118] [104]; ONone; ORefused code_mismatch;
     OIssued [119] [104]; ORefused code_mismatch; ORefused code_confirm; ORefused code_required; ODryRun].
Proof. vm_compute. reflexivity. Qed.
