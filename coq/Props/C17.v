(* Props/C17.v — Instruction sections round-trip and evolve propose captures drift faithfully.
   Only statements, each closed by [exact], with [Print Assumptions] beneath, then non-vacuity
   examples.  Model: Model/Markers.v; lemmas: Proofs/MarkersP.v.

   Known classes (decidable predicates of Model/Markers.v, mirrored in harness/py/props/c17.py):
     K17a t   some line of text t is marker-like (END marker or a start marker, after trim)
     K17b t   t does not end with '\n' (it is stored, and comes back, with one)          [benign]
     K17h id  id contains '\n', has leading/trailing white space, or is empty
     K17f b   a section body on disk is empty (the user deleted every line of the section)
     K17g     the drifted file is not `aggregate_raw sep (ids × bodies)`: something outside the
              section bodies was edited as well                                        (see [canonical])
     K17c     cursor rule files (every drift)       K17d n   prompt source file not named *.prompt.md
     K17e, K17j, K17i: patch overlay in the chosen scope, proposal shadowed by a higher-precedence
              overlay, "skipped not reported when a branch is created" — runtime residue outside the
              model, decided by the end-to-end oracle only. *)
From AP Require Import Base.Str Gen.Tables Model.Markers Proofs.MarkersP.
Open Scope N_scope.

(* ---------------------------------------------------------------- the separators in the source *)

(* finite table (one entry per target that aggregates instructions, re-read from src/targets/*.rs):
   every separator in use satisfies the side condition the theorems below need *)
Theorem C17_seps_table : forallb (fun p => sep_ok (snd p)) instructions_join_seps = true.
Proof. exact seps_table_ok. Qed.
Print Assumptions C17_seps_table.

(* ---------------------------------------------------------------- round trip *)

(* Any number of modules, any sizes: parsing the aggregated file returns exactly the pairs
   (id ↦ text as stored, i.e. with a final newline), in order. *)
Theorem C17_roundtrip_partial : forall sep (ms : list (str * str)),
  sep_ok sep = true ->
  NoDup (map fst ms) ->
  Forall (fun p => K17h (fst p) = false /\ K17a (snd p) = false) ms ->
  parse_sections (aggregate sep ms) = POk (map (fun p => (fst p, ensure_nl (snd p))) ms).
Proof. exact roundtrip_partial. Qed.
Print Assumptions C17_roundtrip_partial.

(* same statement with the side conditions spelled as id_ok / text_ok *)
Theorem C17_roundtrip : forall sep (ms : list (str * str)),
  sep_ok sep = true ->
  NoDup (map fst ms) ->
  Forall (fun p => id_ok (fst p) = true /\ text_ok (snd p) = true) ms ->
  parse_sections (aggregate sep ms) = POk (map (fun p => (fst p, ensure_nl (snd p))) ms).
Proof. exact roundtrip. Qed.
Print Assumptions C17_roundtrip.

(* with newline-terminated texts the result is exactly the input *)
Theorem C17_roundtrip_exact : forall sep (ms : list (str * str)),
  sep_ok sep = true ->
  NoDup (map fst ms) ->
  Forall (fun p => id_ok (fst p) = true /\ text_ok (snd p) = true /\ K17b (snd p) = false) ms ->
  parse_sections (aggregate sep ms) = POk ms.
Proof. exact roundtrip_exact. Qed.
Print Assumptions C17_roundtrip_exact.

(* the targets use the marked form exactly when there are at least two parts *)
Theorem C17_render_marked : forall sep ms, (2 <= length ms)%nat ->
  render_instructions sep ms = aggregate sep ms.
Proof. exact render_many. Qed.
Print Assumptions C17_render_marked.

(* The unrestricted statement ("for all texts, all ids: parse (aggregate ms) = ms") is false in
   the model and in the implementation (witnesses replayed through avh by the check):
   K17b a text without final newline comes back with one; K17a an END-like line truncates the
   section, a start-like line makes the whole file unparseable; K17h an id with a trailing blank
   comes back trimmed. *)

Theorem C17_roundtrip_refuted :
  sep_ok sep0 = true /\
  (* K17b *) (NoDup (map fst w_b) /\ parse_sections (aggregate sep0 w_b) = POk [([97], [120;10]); ([98], [121;10])]
              /\ parse_sections (aggregate sep0 w_b) <> POk w_b) /\
  (* K17a, END-like line: silently truncated *)
             (NoDup (map fst w_a_end) /\ parse_sections (aggregate sep0 w_a_end) = POk [([97], [120;10]); ([98], [122;10])]) /\
  (* K17a, start-like line: refused *)
             (NoDup (map fst w_a_start) /\ parse_sections (aggregate sep0 w_a_start) = PErr ErrNested) /\
  (* K17h *) (NoDup (map fst w_h) /\ parse_sections (aggregate sep0 w_h) = POk [([97], [120;10]); ([98], [122;10])]).
Proof. exact roundtrip_witnesses. Qed.
Print Assumptions C17_roundtrip_refuted.

(* the side conditions are not only sufficient: whenever the parse result is the normalised input,
   no text had a marker-like line ([text_ok] is the weakest condition on texts) *)
Theorem C17_text_ok_necessary : forall sep (ms : list (str * str)),
  sep_ok sep = true -> Forall (fun p => id_ok (fst p) = true) ms -> NoDup (map fst ms) ->
  parse_sections (aggregate sep ms) = POk (map (fun p => (fst p, ensure_nl (snd p))) ms) ->
  Forall (fun p => text_ok (snd p) = true) ms.
Proof. exact text_ok_necessary. Qed.
Print Assumptions C17_text_ok_necessary.

(* ---------------------------------------------------------------- attribution *)

(* Replacing the text of one module (by any text without marker-like lines) changes exactly that
   key of the parse result. *)
Theorem C17_attribution : forall sep pre id t t' post,
  sep_ok sep = true ->
  NoDup (map fst (pre ++ (id, t) :: post)) ->
  Forall (fun p => id_ok (fst p) = true /\ text_ok (snd p) = true) (pre ++ (id, t) :: post) ->
  text_ok t' = true ->
  exists m m',
    parse_sections (aggregate sep (pre ++ (id, t) :: post)) = POk m /\
    parse_sections (aggregate sep (pre ++ (id, t') :: post)) = POk m' /\
    lookup id m = Some (ensure_nl t) /\ lookup id m' = Some (ensure_nl t') /\
    (forall k, k <> id -> lookup k m' = lookup k m).
Proof. exact attribution. Qed.
Print Assumptions C17_attribution.

(* ... and that replacement is an edit of the lines between the module's two markers and of
   nothing else: the file is P ++ (stored text) ++ S with P, S independent of the text. *)
Theorem C17_section_locality : forall sep pre id post, exists P S, forall t,
  aggregate sep (pre ++ (id, t) :: post) = P ++ ensure_nl t ++ S.
Proof. exact section_locality. Qed.
Print Assumptions C17_section_locality.

(* ---------------------------------------------------------------- evolve propose: capture *)

(* zs : one (id, source text, section body found on disk) per module of the aggregated output.
   If the on-disk file differs from the desired one only inside section bodies (no marker-like
   line, no emptied section), the captured sections re-render to exactly the on-disk file; and
   when nothing is captured the file was not drifted at all. *)
Theorem C17_fix_aggregated_partial : forall sep (zs : list (str * str * str)),
  sep_ok sep = true -> zs <> [] ->
  NoDup (map (fun z => fst (fst z)) zs) ->
  Forall (fun z => id_ok (fst (fst z)) = true /\ text_ok (snd (fst z)) = true /\ body_ok (snd z) = true) zs ->
  Forall (fun z => K17f (snd z) = false) zs ->
  let srcs := map (fun z => (fst (fst z), snd (fst z))) zs in
  let disk := map (fun z => (fst (fst z), snd z)) zs in
  match capture (aggregate sep srcs) (aggregate_raw sep disk) (map (fun z => fst (fst z)) zs) with
  | Some out => aggregate sep (apply_capture srcs out) = aggregate_raw sep disk
  | None => aggregate_raw sep disk = aggregate sep srcs
  end.
Proof. exact fix_aggregated. Qed.
Print Assumptions C17_fix_aggregated_partial.

(* the whole per-output decision, through the targets' renderer (≥ 2 modules): such drift is never
   skipped, and the proposal re-renders to the drifted file *)
Theorem C17_decide_aggregated : forall sep (zs : list (str * str * str)),
  sep_ok sep = true -> (2 <= length zs)%nat ->
  NoDup (map (fun z => fst (fst z)) zs) ->
  Forall (fun z => id_ok (fst (fst z)) = true /\ text_ok (snd (fst z)) = true /\ body_ok (snd z) = true) zs ->
  Forall (fun z => K17f (snd z) = false) zs ->
  let srcs := map (fun z => (fst (fst z), snd (fst z))) zs in
  let disk := map (fun z => (fst (fst z), snd z)) zs in
  let desired := render_instructions sep srcs in
  let drifted := aggregate_raw sep disk in
  match decide desired (map (fun z => fst (fst z)) zs) (Some drifted) with
  | NotDrifted => drifted = desired
  | Candidates out => render_instructions sep (apply_capture srcs out) = drifted
  | SkipMissing | SkipMultiModule => False
  end.
Proof. exact decide_aggregated. Qed.
Print Assumptions C17_decide_aggregated.

(* files of that shape are recognised by a decidable test on the file alone (its negation is K17g) *)
Theorem C17_canonical_intro : forall sep (ps : list (str * str)),
  sep_ok sep = true -> NoDup (map fst ps) ->
  Forall (fun p => id_ok (fst p) = true /\ body_ok (snd p) = true) ps ->
  canonical sep (map fst ps) (aggregate_raw sep ps) = true.
Proof. exact canonical_intro. Qed.
Print Assumptions C17_canonical_intro.

(* Refuted without the restrictions (replayed on the binary):
   K17f — emptying a section is accepted, but the empty text re-renders with a blank line;
   K17g — an edit outside the bodies next to an edit inside is accepted, the outside edit is lost. *)

Theorem C17_fix_aggregated_refuted :
  (* K17f *)
  (exists out, capture (aggregate sep0 w_src) (aggregate_raw sep0 w_disk_f) [[97]; [98]] = Some out
               /\ aggregate sep0 (apply_capture w_src out) <> aggregate_raw sep0 w_disk_f) /\
  (* K17g: same sections, another (equally harmless) text between them *)
  (exists out, capture (aggregate sep0 w_src) (aggregate_raw sep1 w_disk_g) [[97]; [98]] = Some out
               /\ canonical sep0 [[97]; [98]] (aggregate_raw sep1 w_disk_g) = false
               /\ aggregate sep0 (apply_capture w_src out) <> aggregate_raw sep1 w_disk_g).
Proof. exact fix_aggregated_witnesses. Qed.
Print Assumptions C17_fix_aggregated_refuted.

(* single instructions module (no markers): the whole file is captured and re-renders *)
Theorem C17_fix_single : forall sep id t d, d <> t ->
  decide (render_instructions sep [(id, t)]) [id] (Some d) = Candidates [(id, d)]
  /\ render_instructions sep (apply_capture [(id, t)] [(id, d)]) = d.
Proof. exact fix_single. Qed.
Print Assumptions C17_fix_single.

(* a missing output is always skipped with reason "missing", never captured *)
Theorem C17_missing_skipped : forall desired ids, decide desired ids None = SkipMissing.
Proof. exact decide_missing. Qed.
Print Assumptions C17_missing_skipped.

(* K17c — cursor rules: the captured file (generated front matter + body) becomes the module text
   and is wrapped again: no drift of a cursor rule is ever a fix-point *)
Theorem C17_fix_cursor_refuted : forall hdr d, hdr <> [] -> cursor_rule hdr d <> d.
Proof. exact cursor_never_fixpoint. Qed.
Print Assumptions C17_fix_cursor_refuted.

(* K17d — VS Code prompts: fix-point iff the source file already carries the deployed name *)
Theorem C17_fix_vscode_prompt_partial : forall n c d,
  valid_single_md [(n, c)] = true -> K17d n = false ->
  let after := upsert [(n, c)] (vscode_prompt_name n) d in
  valid_single_md after = true /\ vscode_prompt_out after = Some (vscode_prompt_name n, d).
Proof. exact vscode_prompt_fix. Qed.
Print Assumptions C17_fix_vscode_prompt_partial.

Theorem C17_fix_vscode_prompt_refuted : forall n c d, K17d n = true ->
  valid_single_md (upsert [(n, c)] (vscode_prompt_name n) d) = false.
Proof. exact vscode_prompt_broken. Qed.
Print Assumptions C17_fix_vscode_prompt_refuted.

(* outputs that keep the module's file name (codex prompts, claude commands, skill files): the
   captured file replaces the module file *)
Theorem C17_fix_same_name : forall n c d, upsert [(n, c)] n d = [(n, d)].
Proof. exact same_name_fix. Qed.
Print Assumptions C17_fix_same_name.

(* ---------------------------------------------------------------- non-vacuity *)

Example C17_nonvacuous_roundtrip :
  let ms := [(s "instructions:one", s "# one
two") ; (s "a --> b", []); (s "x y", [13;10;160;10])] in
  sep_ok sep0 = true /\ NoDup (map fst ms) /\
  Forall (fun p => id_ok (fst p) = true /\ text_ok (snd p) = true) ms /\
  parse_sections (aggregate sep0 ms)
  = POk [(s "instructions:one", s "# one
two
"); (s "a --> b", [10]); (s "x y", [13;10;160;10])].
Proof.
  cbv zeta. split; [vm_compute; reflexivity|]. split.
  - repeat constructor; vm_compute; intuition discriminate.
  - split; [repeat constructor|vm_compute; reflexivity].
Qed.

Example C17_nonvacuous_fix :
  let zs := [(s "a", s "x", s "x edited
more
"); (s "b", s "y
", s "y
")] in
  sep_ok sep0 = true /\ NoDup (map (fun z => fst (fst z)) zs) /\
  Forall (fun z => id_ok (fst (fst z)) = true /\ text_ok (snd (fst z)) = true /\ body_ok (snd z) = true) zs /\
  Forall (fun z => K17f (snd z) = false) zs /\
  capture (aggregate sep0 (map (fun z => (fst (fst z), snd (fst z))) zs))
          (aggregate_raw sep0 (map (fun z => (fst (fst z), snd z)) zs)) [s "a"; s "b"]
  = Some [(s "a", s "x edited
more
")].
Proof.
  cbv zeta. split; [vm_compute; reflexivity|]. split.
  - repeat constructor; vm_compute; intuition discriminate.
  - split; [repeat constructor|]. split; [repeat constructor|vm_compute; reflexivity].
Qed.

Example C17_nonvacuous_vscode :
  K17d (s "review.prompt.md") = false /\ valid_single_md [(s "review.prompt.md", s "x")] = true /\
  K17d (s "review.md") = true /\ vscode_prompt_name (s "review.md") = s "review.prompt.md".
Proof. vm_compute. repeat split. Qed.
