(* Props/C14.v — Overlay rebase is a faithful three-way merge that never loses an edit.
   Statements only; proofs in Proofs/RebaseP.v and Proofs/RebaseFailP.v.  All theorems hold for EVERY oracle triple
   (merge3 = git merge-file, git_apply = git apply, diff = git diff --no-index); where git's
   contract is needed it is an explicit premise about the byte strings at hand ([diff_ok], ...).

   [dir_run m a d o w ov ov' rep bl]  : ov is a directory overlay with distinct file names and
       baseline bl, and `overlay rebase` with options o against the upstream state w completed
       (no E_* abort) leaving ov' and the report rep.  [patch_run] likewise for patch overlays.
   [materialize_dir files up r]       : what the module materialises to at r (overlay over upstream).
   [patch_result patches up rt]       : the same for a patch overlay (new upstream with the patch for
       rt applied); [patch_materialize] ties it to the composition function. *)
From AP Require Import Base.Str Base.StrFacts Base.Sorting Model.Rebase Proofs.RebaseP Proofs.RebaseFailP.
From AP Require Gen.Tables.
Open Scope N_scope.

(* ------------------------------------------------------------------------------------------ *)
(* directory overlays *)

(* the materialised result after a completed (not dry) rebase, clause by clause *)
Theorem C14_cases : forall merge3 git_apply diff o w ov ov' rep bl r ours b,
  dir_run merge3 git_apply diff o w ov ov' rep bl -> dry_run o = false ->
  lookup r (ov_files ov) = Some ours -> bl_files bl r = Some b ->
  let mat := materialize_dir (ov_files ov') (w_up w) r in
  (ours = b -> mat = w_up w r) /\
  (ours <> b -> w_up w r = Some b -> mat = Some ours) /\
  (ours <> b -> w_up w r = None -> mat = Some ours /\ In r (skipped rep)) /\
  (forall u, ours <> b -> w_up w r = Some u -> u <> b -> ours = u -> mat = Some ours) /\
  (forall u, ours <> b -> w_up w r = Some u -> u <> b -> ours <> u ->
     exists m c, merge3 b ours u = Some (m, c) /\ mat = Some m /\ (c = true <-> In r (conflicts rep))).
Proof. exact dir_cases_explicit. Qed.
Print Assumptions C14_cases.

(* files the overlay does not hold materialise as upstream; files the baseline does not track are
   left alone and reported as skipped *)
Theorem C14_cases_outside : forall merge3 git_apply diff o w ov ov' rep bl r,
  dir_run merge3 git_apply diff o w ov ov' rep bl ->
  (lookup r (ov_files ov) = None -> materialize_dir (ov_files ov') (w_up w) r = w_up w r) /\
  (forall ours, lookup r (ov_files ov) = Some ours -> bl_files bl r = None ->
     lookup r (ov_files ov') = Some ours /\ In r (skipped rep) /\ ~ In r (updated rep) /\ ~ In r (deleted rep)).
Proof.
  intros m a d o w ov ov' rep bl r H. split.
  - exact (dir_not_overlaid m a d o w ov ov' rep bl r H).
  - intros ours. exact (dir_untracked m a d o w ov ov' rep bl r ours H).
Qed.
Print Assumptions C14_cases_outside.

(* an edited file is kept (ours), or replaced by what merge-file returned (listed as updated, and
   as conflict when flagged), or — only under sparsify and only when the module must materialise to
   upstream there anyway — removed; an edited file whose upstream vanished is kept and skipped *)
Theorem C14_no_silent_loss : forall merge3 git_apply diff o w ov ov' rep bl r ours b,
  dir_run merge3 git_apply diff o w ov ov' rep bl -> dry_run o = false ->
  lookup r (ov_files ov) = Some ours -> bl_files bl r = Some b -> ours <> b ->
  (lookup r (ov_files ov') = Some ours /\ ~ In r (deleted rep) /\ (w_up w r = None -> In r (skipped rep)))
  \/ (exists u m c, w_up w r = Some u /\ merge3 b ours u = Some (m, c) /\
        lookup r (ov_files ov') = Some m /\ In r (updated rep) /\ (c = true -> In r (conflicts rep)))
  \/ (sparsify o = true /\ lookup r (ov_files ov') = None /\ In r (deleted rep) /\
      ~ In r (conflicts rep) /\ exists u, w_up w r = Some u /\ expected merge3 b ours (Some u) = Some u).
Proof. exact dir_no_silent_loss. Qed.
Print Assumptions C14_no_silent_loss.

(* a conflicting merge is listed, the overlay then holds the marker text merge-file printed, and the
   command answers E_OVERLAY_REBASE_CONFLICT — and only then *)
Theorem C14_conflict_reported : forall merge3 git_apply diff o w ov ov' rep bl r ours b u m,
  dir_run merge3 git_apply diff o w ov ov' rep bl ->
  lookup r (ov_files ov) = Some ours -> bl_files bl r = Some b -> w_up w r = Some u ->
  ours <> b -> u <> b -> ours <> u -> merge3 b ours u = Some (m, true) ->
  In r (conflicts rep) /\ In r (updated rep) /\ (dry_run o = false -> lookup r (ov_files ov') = Some m) /\
  forall json yes, (json && negb yes && negb (dry_run o)) = false ->
    exists cs, snd (overlay_rebase_cmd merge3 git_apply diff json yes o w ov) = CConflict cs rep /\ In r cs.
Proof.
  intros m3 a d o w ov ov' rep bl r ours b u m Hrun Hlk Hb Hu H1 H2 H3 Hm.
  destruct (dir_conflict_reported m3 a d o w ov ov' rep bl r ours b u m Hrun Hlk Hb Hu H1 H2 H3 Hm) as (Hc & Hup & Hl).
  repeat split; auto. intros json yes Hg. destruct Hrun as (_ & _ & _ & Hr).
  rewrite (cmd_of_rebase m3 a d json yes o w ov ov' rep Hg Hr). simpl.
  destruct (conflicts rep) as [|x l] eqn:E; [destruct Hc|]. exists (x :: l). split; [reflexivity|exact Hc].
Qed.
Print Assumptions C14_conflict_reported.

Theorem C14_conflict_only_if : forall merge3 git_apply diff o w ov ov' rep bl r,
  dir_run merge3 git_apply diff o w ov ov' rep bl -> In r (conflicts rep) ->
  exists ours b u m, lookup r (ov_files ov) = Some ours /\ bl_files bl r = Some b /\ w_up w r = Some u /\
                     ours <> b /\ u <> b /\ ours <> u /\ merge3 b ours u = Some (m, true).
Proof. exact dir_conflict_only_if. Qed.
Print Assumptions C14_conflict_only_if.

(* the full idempotence statement ("for every conflict-free rebase whose upstream state is committed,
   an immediate second rebase with the same options leaves the overlay as it is") is REFUTED by the
   faithful model: under --sparsify a file the old baseline did not track, identical to the file
   upstream has meanwhile added under that name, is skipped by the first pass and deleted by the
   second.  Reproduced on the binary (known finding K14b); the materialisation is not affected
   (C14_sparsify_removed_equals_upstream). *)
Definition k14b_merge : content -> content -> content -> option (content * bool) := fun _ _ _ => None.
Definition k14b_apply : content -> rel -> content -> option content := fun _ _ _ => None.
Definition k14b_diff : rel -> content -> content -> option content := fun _ _ _ => None.
Definition k14b_up : fmap := fun r => if str_eqb r [110] then Some [78] else None.
Definition k14b_world : world := mkW k14b_up k14b_up (Some 1).
Definition k14b_bl : baseline := mkBL (fun _ => None) (Some 0) (fun _ => None).
Definition k14b_ov : overlay := mkOv true KDir [([110], [78])] [] [] (Some k14b_bl).

Theorem C14_idempotent_refuted :
  exists merge3 git_apply diff o w ov ov1 rep1 bl,
    dir_run merge3 git_apply diff o w ov ov1 rep1 bl /\ dry_run o = false /\ conflicts rep1 = [] /\
    (forall r, w_head w r = w_up w r) /\ w_rev w <> None /\
    exists ov2 rep2, rebase_overlay merge3 git_apply diff o w ov1 = (ov2, inr rep2) /\
                     deleted rep2 <> [] /\ ov_files ov2 <> ov_files ov1.
Proof.
  exists k14b_merge, k14b_apply, k14b_diff, (mkOpts false true), k14b_world, k14b_ov.
  eexists. eexists. exists k14b_bl.
  split; [split; [reflexivity|split; [apply nodupb_sound; reflexivity|split; [reflexivity|vm_compute; reflexivity]]]|].
  split; [reflexivity|]. split; [reflexivity|]. split; [reflexivity|]. split; [discriminate|].
  eexists. eexists. split; [vm_compute; reflexivity|]. split; discriminate.
Qed.

Example C14_idempotent_refuted_in_class : K14b (mkOpts false true) k14b_world k14b_ov k14b_bl.
Proof. split; [reflexivity|]. exists [110], [78]. repeat split; reflexivity. Qed.

(* outside that class: the second rebase returns the very same overlay (files, metadata, baseline),
   reports no update, deletion or conflict, and never reaches the merge oracle (merge3' arbitrary) *)
Theorem C14_idempotent_partial : forall merge3 git_apply diff merge3' o w ov ov1 rep1 bl,
  dir_run merge3 git_apply diff o w ov ov1 rep1 bl -> dry_run o = false -> conflicts rep1 = [] ->
  (forall r, w_head w r = w_up w r) -> w_rev w <> None ->
  ~ K14b o w ov bl ->
  exists rep2, rebase_overlay merge3' git_apply diff o w ov1 = (ov1, inr rep2) /\
               updated rep2 = [] /\ deleted rep2 = [] /\ conflicts rep2 = [].
Proof. intros m a d m'. exact (dir_idempotent m a d m'). Qed.
Print Assumptions C14_idempotent_partial.

(* sparsify changes no materialised byte ... *)
Theorem C14_sparsify : forall merge3 git_apply diff w ov ovs reps ovn repn bl r,
  dir_run merge3 git_apply diff (mkOpts false true) w ov ovs reps bl ->
  dir_run merge3 git_apply diff (mkOpts false false) w ov ovn repn bl ->
  materialize_dir (ov_files ovs) (w_up w) r = materialize_dir (ov_files ovn) (w_up w) r.
Proof. exact dir_sparsify. Qed.
Print Assumptions C14_sparsify.

(* ... and a file is removed from the overlay only if it was tracked and upstream itself is what the
   module has to materialise to there; an edited one only under sparsify *)
Theorem C14_sparsify_removed_equals_upstream : forall merge3 git_apply diff o w ov ov' rep bl r ours,
  dir_run merge3 git_apply diff o w ov ov' rep bl -> dry_run o = false ->
  lookup r (ov_files ov) = Some ours -> lookup r (ov_files ov') = None ->
  exists b, bl_files bl r = Some b /\ expected merge3 b ours (w_up w r) = w_up w r /\ In r (deleted rep) /\
            (ours <> b -> sparsify o = true).
Proof. exact dir_deleted_equals_upstream. Qed.
Print Assumptions C14_sparsify_removed_equals_upstream.

(* a dry run returns the overlay untouched (files, patches, artefacts, baseline) together with exactly
   the outcome — report or error code — of the real run *)
Theorem C14_dry : forall merge3 git_apply diff s w ov,
  ov_kind ov = KDir ->
  rebase_overlay merge3 git_apply diff (mkOpts true s) w ov =
  (ov, snd (rebase_overlay merge3 git_apply diff (mkOpts false s) w ov)).
Proof. exact dir_dry. Qed.
Print Assumptions C14_dry.

Theorem C14_dry_untouched : forall merge3 git_apply diff s w ov,
  fst (rebase_overlay merge3 git_apply diff (mkOpts true s) w ov) = ov.
Proof. exact dry_state_unchanged. Qed.
Print Assumptions C14_dry_untouched.

(* --json without --yes (and without --dry-run) is refused and changes nothing *)
Theorem C14_refused_without_yes : forall merge3 git_apply diff o w ov,
  dry_run o = false ->
  overlay_rebase_cmd merge3 git_apply diff true false o w ov = (ov, CErr code_confirm_required).
Proof. exact cmd_refused. Qed.

(* table theorem (finite: the 8 codes the model can answer with): each is an "E_*" literal of the
   current source and a registered code of docs/reference/error-codes.md (Gen/Tables.v is regenerated
   from /repo on every run) *)
Definition model_codes : list str :=
  [code_not_found; code_baseline_missing; code_baseline_unsupported; code_config_invalid; code_unexpected;
   code_rebase_conflict; code_confirm_required; code_patch_apply_failed].

Theorem C14_codes_in_source :
  forallb (fun c => mem_str c Gen.Tables.source_error_codes && mem_str c Gen.Tables.registry_error_codes) model_codes = true.
Proof. vm_compute. reflexivity. Qed.
Print Assumptions C14_codes_in_source.

(* ------------------------------------------------------------------------------------------ *)
(* patch overlays *)

(* every patch file of a completed rebase: skipped and untouched / conflict with the edited text in an
   artefact / rewritten to diff(upstream', merge output) or removed when that diff is empty *)
Theorem C14_patch_outcome : forall merge3 git_apply diff o w ov ov' rep bl rp p,
  patch_run merge3 git_apply diff o w ov ov' rep bl -> dry_run o = false -> is_patch ov rp p ->
  (lookup rp (ov_patches ov') = Some p /\
   ((strip_suffix dot_patch rp = None /\ In rp (skipped rep)) \/
    (exists rt, rp = rt ++ dot_patch /\ bl_files bl rt = None /\ In rt (skipped rep))))
  \/ exists rt b ours, rp = rt ++ dot_patch /\ bl_files bl rt = Some b /\ bl_base bl rt = Some b /\
       git_apply p rt b = Some ours /\
       ( (w_up w rt = None /\ In rt (conflicts rep) /\ lookup rp (ov_patches ov') = Some p /\
          lookup rt (ov_conflicts ov') = Some (markers_deleted ours))
         \/ exists u m, w_up w rt = Some u /\
            ( (merge3 b ours u = Some (m, true) /\ In rt (conflicts rep) /\
               lookup rt (ov_conflicts ov') = Some m /\
               lookup rp (ov_patches ov') = match diff rt u m with Some p' => Some p' | None => Some p end)
              \/ (merge3 b ours u = Some (m, false) /\
               ((diff rt u m = None /\ lookup rp (ov_patches ov') = None /\ In rt (deleted rep)) \/
                (exists p', diff rt u m = Some p' /\ lookup rp (ov_patches ov') = Some p' /\ In rt (updated rep)))))).
Proof. exact patch_outcome. Qed.
Print Assumptions C14_patch_outcome.

(* under git's diff/apply contract on the triple at hand, the rebased patch applied to the new upstream
   is the merge-file output; the patch disappears only when that output is upstream itself *)
Theorem C14_patch_cases : forall merge3 git_apply diff o w ov ov' rep bl rt p b u ours m c,
  patch_run merge3 git_apply diff o w ov ov' rep bl -> dry_run o = false -> is_patch ov (rt ++ dot_patch) p ->
  bl_files bl rt = Some b -> w_up w rt = Some u ->
  git_apply p rt b = Some ours -> merge3 b ours u = Some (m, c) -> diff_ok git_apply diff rt u m ->
  (c = false \/ diff rt u m <> None -> patch_result git_apply (ov_patches ov') (w_up w) rt = Some m) /\
  (c = true -> In rt (conflicts rep) /\ lookup rt (ov_conflicts ov') = Some m) /\
  (c = false -> lookup (rt ++ dot_patch) (ov_patches ov') = None -> m = u).
Proof. exact patch_cases. Qed.
Print Assumptions C14_patch_cases.

(* with git's answers for the two trivial merges: = new upstream where the patch changed nothing,
   = ours where upstream did not move *)
Theorem C14_patch_cases_trivial : forall merge3 git_apply diff o w ov ov' rep bl rt p b u ours,
  patch_run merge3 git_apply diff o w ov ov' rep bl -> dry_run o = false -> is_patch ov (rt ++ dot_patch) p ->
  bl_files bl rt = Some b -> w_up w rt = Some u -> git_apply p rt b = Some ours ->
  (ours = b -> merge3 b b u = Some (u, false) -> diff_ok git_apply diff rt u u ->
     patch_result git_apply (ov_patches ov') (w_up w) rt = Some u) /\
  (u = b -> merge3 b ours b = Some (ours, false) -> diff_ok git_apply diff rt b ours ->
     patch_result git_apply (ov_patches ov') (w_up w) rt = Some ours).
Proof. exact patch_cases_trivial. Qed.
Print Assumptions C14_patch_cases_trivial.

(* [patch_result] is what the composition function computes for the overlay *)
Theorem C14_patch_materialize : forall git_apply ov up out rt,
  ov_exists ov = true -> ov_kind ov = KPatch -> NoDup (keys (ov_patches ov)) ->
  materialize git_apply ov up = inr out ->
  has_patch_ext (rt ++ dot_patch) = true \/ lookup (rt ++ dot_patch) (ov_patches ov) = None ->
  out rt = patch_result git_apply (ov_patches ov) up rt.
Proof. exact patch_materialize. Qed.
Print Assumptions C14_patch_materialize.

(* second rebase of a patch overlay: same overlay back, nothing deleted, no conflict (each patch is
   re-diffed to the same bytes and listed as updated) — given git's contract on the triples the first
   pass produced, and no dangling patch meeting a newly added upstream file *)
Theorem C14_patch_idempotent : forall merge3 git_apply diff o w ov ov1 rep1 bl,
  (forall rt u m, touched merge3 git_apply w ov bl rt u m ->
      diff_ok git_apply diff rt u m /\ merge3 u m u = Some (m, false) /\ utf8_valid m = true) ->
  patch_run merge3 git_apply diff o w ov ov1 rep1 bl -> dry_run o = false -> conflicts rep1 = [] ->
  (forall r, w_head w r = w_up w r) -> w_rev w <> None ->
  no_dangling_adoption w ov bl ->
  exists rep2, rebase_overlay merge3 git_apply diff o w ov1 = (ov1, inr rep2) /\ deleted rep2 = [] /\ conflicts rep2 = [].
Proof. exact patch_idempotent. Qed.
Print Assumptions C14_patch_idempotent.

(* dry run of a patch overlay: same outcome as the real run, given that git apply maps UTF-8 to UTF-8 *)
Theorem C14_patch_dry : forall merge3 git_apply diff s w ov,
  apply_utf8_law git_apply -> ov_kind ov = KPatch ->
  rebase_overlay merge3 git_apply diff (mkOpts true s) w ov =
  (ov, snd (rebase_overlay merge3 git_apply diff (mkOpts false s) w ov)).
Proof. exact patch_dry. Qed.
Print Assumptions C14_patch_dry.

(* ------------------------------------------------------------------------------------------ *)
(* non-vacuity: a concrete directory overlay exercising every clause, with a toy merge oracle
   (concatenation; conflict iff ours starts with '!') *)
Definition ex_merge (b o u : content) : option (content * bool) :=
  Some (o ++ u, match o with 33 :: _ => true | _ => false end).
Definition ex_none3 : content -> rel -> content -> option content := fun _ _ _ => None.
Definition ex_blf : fmap := fm_of [([97], [65; 48]); ([98], [66; 48]); ([99], [67; 48]); ([100], [68; 48]); ([101], [69; 48]); ([103], [71; 48])].
Definition ex_up : fmap := fm_of [([97], [65; 48]); ([98], [66; 50]); ([99], [67; 50]); ([100], [68; 50]); ([103], [71; 50]); ([104], [72])].
Definition ex_bl : baseline := mkBL ex_blf (Some 0) ex_blf.
Definition ex_ov : overlay :=
  mkOv true KDir [([97], [65; 49]); ([98], [66; 48]); ([99], [67; 49]); ([100], [33; 68]); ([101], [69; 49]); ([102], [70]); ([103], [71; 48])]
       [] [] (Some ex_bl).
Definition ex_w : world := mkW ex_up ex_up (Some 1).

Example C14_nonvacuous_dir :
  exists ov' rep,
    dir_run ex_merge ex_none3 ex_none3 (mkOpts false true) ex_w ex_ov ov' rep ex_bl /\
    ov_files ov' = [([97], [65; 49]); ([99], [67; 49; 67; 50]); ([100], [33; 68; 68; 50]); ([101], [69; 49]); ([102], [70])] /\
    updated rep = [[99]; [100]] /\ deleted rep = [[98]; [103]] /\ skipped rep = [[101]; [102]] /\ conflicts rep = [[100]] /\
    snd (overlay_rebase_cmd ex_merge ex_none3 ex_none3 true true (mkOpts false true) ex_w ex_ov) = CConflict [[100]] rep /\
    ~ K14b (mkOpts false true) ex_w ex_ov ex_bl.
Proof.
  eexists. eexists.
  split; [split; [reflexivity|split; [apply nodupb_sound; reflexivity|split; [reflexivity|vm_compute; reflexivity]]]|].
  repeat split; try reflexivity.
  intros [_ (r & c & Hl & Hb & Hu)]. apply lookup_In in Hl. simpl in Hl.
  repeat (destruct Hl as [Hl|Hl]; [inversion Hl; subst; vm_compute in Hb; vm_compute in Hu; discriminate|]).
  destruct Hl.
Qed.

(* conflict-free instance of the idempotence hypotheses (no sparsify), and its second pass *)
Example C14_nonvacuous_idempotent :
  let ov := mkOv true KDir [([97], [65; 49]); ([98], [66; 48]); ([99], [67; 49]); ([102], [70])] [] [] (Some ex_bl) in
  exists ov1 rep1,
    dir_run ex_merge ex_none3 ex_none3 (mkOpts false false) ex_w ov ov1 rep1 ex_bl /\ conflicts rep1 = [] /\
    updated rep1 = [[98]; [99]] /\ ~ K14b (mkOpts false false) ex_w ov ex_bl /\
    rebase_overlay k14b_merge ex_none3 ex_none3 (mkOpts false false) ex_w ov1 = (ov1, inr (mkRep 4 [] [] [[102]] [])).
Proof.
  intros ov. eexists. eexists.
  split; [split; [reflexivity|split; [apply nodupb_sound; reflexivity|split; [reflexivity|vm_compute; reflexivity]]]|].
  split; [reflexivity|]. split; [reflexivity|]. split; [intros [H _]; discriminate|].
  vm_compute. reflexivity.
Qed.

(* a patch overlay with table oracles satisfying the contract premises: clean rebase, then idempotent *)
Definition px_base : content := [49; 10].            (* "1\n" *)
Definition px_ours : content := [49; 10; 111; 10].   (* "1\no\n" *)
Definition px_up : content := [48; 10; 49; 10].      (* "0\n1\n" *)
Definition px_m : content := [48; 10; 49; 10; 111; 10].
Definition px_p0 : content := Eval vm_compute in bytes_of_string "--- a/f
+++ b/f
@@ old
".
Definition px_p1 : content := Eval vm_compute in bytes_of_string "--- a/f
+++ b/f
@@ new
".
Definition px_merge (b o u : content) : option (content * bool) :=
  if str_eqb b px_base && str_eqb o px_ours && str_eqb u px_up then Some (px_m, false)
  else if str_eqb b u then Some (o, false) else None.
Definition px_apply (p : content) (r : rel) (x : content) : option content :=
  if str_eqb p px_p0 && str_eqb x px_base then Some px_ours
  else if str_eqb p px_p1 && str_eqb x px_up then Some px_m else None.
Definition px_diff (r : rel) (a b : content) : option content :=
  if str_eqb a b then None else if str_eqb a px_up && str_eqb b px_m then Some px_p1 else Some [255].
Definition px_f : rel := [102].
Definition px_bl : baseline := mkBL (fm_of [(px_f, px_base)]) (Some 0) (fm_of [(px_f, px_base)]).
Definition px_w : world := mkW (fm_of [(px_f, px_up)]) (fm_of [(px_f, px_up)]) (Some 1).
Definition px_ov : overlay := mkOv true KPatch [] [(px_f ++ dot_patch, px_p0)] [] (Some px_bl).

Example C14_nonvacuous_patch :
  exists ov1 rep1,
    patch_run px_merge px_apply px_diff (mkOpts false false) px_w px_ov ov1 rep1 px_bl /\
    is_patch px_ov (px_f ++ dot_patch) px_p0 /\
    ov_patches ov1 = [(px_f ++ dot_patch, px_p1)] /\ updated rep1 = [px_f] /\ conflicts rep1 = [] /\
    diff_ok px_apply px_diff px_f px_up px_m /\
    patch_result px_apply (ov_patches ov1) (w_up px_w) px_f = Some px_m /\
    materialize px_apply ov1 (w_up px_w) <> inl code_config_invalid /\
    (forall rt u m, touched px_merge px_apply px_w px_ov px_bl rt u m ->
        diff_ok px_apply px_diff rt u m /\ px_merge u m u = Some (m, false) /\ utf8_valid m = true) /\
    no_dangling_adoption px_w px_ov px_bl /\
    rebase_overlay px_merge px_apply px_diff (mkOpts false false) px_w ov1 = (ov1, inr (mkRep 1 [px_f] [] [] [])).
Proof.
  eexists. eexists.
  split; [split; [reflexivity|split; [apply nodupb_sound; reflexivity|split; [reflexivity|vm_compute; reflexivity]]]|].
  split; [split; reflexivity|].
  split; [reflexivity|]. split; [reflexivity|]. split; [reflexivity|].
  split; [vm_compute; repeat split; reflexivity|].
  split; [reflexivity|]. split; [vm_compute; discriminate|].
  split; [|split; [|vm_compute; reflexivity]].
  - intros rt u m (p & b & ours & [_ Hlk] & Hb & Hap & Hu & Hm).
    apply lookup_In in Hlk. destruct Hlk as [Hlk|[]]. injection Hlk as E Hp.
    assert (E' : px_f ++ dot_patch = rt ++ dot_patch) by exact E.
    apply app_inv_tail in E'. subst rt p. clear E.
    vm_compute in Hb. inversion Hb; subst b. vm_compute in Hap. inversion Hap; subst ours.
    vm_compute in Hu. inversion Hu; subst u. vm_compute in Hm. inversion Hm; subst m.
    vm_compute. repeat split; reflexivity.
  - intros rt p [_ Hlk] Hb. apply lookup_In in Hlk. destruct Hlk as [Hlk|[]]. injection Hlk as E Hp.
    assert (E' : px_f ++ dot_patch = rt ++ dot_patch) by exact E.
    apply app_inv_tail in E'. subst rt. vm_compute in Hb. discriminate.
Qed.

(* premise of C14_patch_dry is satisfiable by a non-trivial oracle *)
Example C14_nonvacuous_apply_law : apply_utf8_law px_apply.
Proof.
  intros p r b c H _ _. unfold px_apply in H.
  destruct (str_eqb p px_p0 && str_eqb b px_base); [inversion H; reflexivity|].
  destruct (str_eqb p px_p1 && str_eqb b px_up); [inversion H; reflexivity|discriminate].
Qed.

(* ------------------------------------------------------------------------------------------ *)
(* "never loses an edit" across an ABORTED rebase (an E_* other than the conflict report: merge-file
   failure, missing base, unsupported baseline).  The baseline is refreshed only by a run that completes:
   after an abort it is the one the run started from, whatever the overlay kind ... *)
Theorem C14_failed_keeps_baseline : forall merge3 git_apply diff o w ov ov' c,
  rebase_overlay merge3 git_apply diff o w ov = (ov', inl c) -> ov_baseline ov' = ov_baseline ov.
Proof. exact failed_keeps_baseline. Qed.
Print Assumptions C14_failed_keeps_baseline.

(* ... and for a directory overlay the abort happened at ONE file of the sorted listing (its triple makes
   the per-file step fail with that code); every file not handled before it is byte for byte what it was.
   So the next run decides those files from the same (base, ours, upstream) triples: their upstream edits
   are still merged, not taken for "already seen". *)
Theorem C14_failed_dir_resumable : forall merge3 git_apply diff o w ov ov' c bl,
  ov_kind ov = KDir -> ov_baseline ov = Some bl ->
  rebase_overlay merge3 git_apply diff o w ov = (ov', inl c) ->
  ov' = ov \/
  exists done r ours rest,
    isort entry_leb (ov_files ov) = done ++ (r, ours) :: rest /\
    rebase_dir_file merge3 o (bl_files bl r) (bl_base bl r) ours (w_up w r) = FErr c /\
    ov_baseline ov' = Some bl /\ ov_patches ov' = ov_patches ov /\ ov_conflicts ov' = ov_conflicts ov /\
    (forall q, ~ In q (keys done) -> lookup q (ov_files ov') = lookup q (ov_files ov)).
Proof. exact failed_dir_resumable. Qed.
Print Assumptions C14_failed_dir_resumable.

(* non-vacuity: a merge oracle that fails on the file "c" (as git merge-file does on binary content):
   "a" and "b" were handled (b updated to the new upstream), the run aborts at "c", "d".."g" are untouched,
   the baseline is the old one *)
Definition ex_merge_fail (b o u : content) : option (content * bool) :=
  match o with 67 :: _ => None | _ => ex_merge b o u end.

Example C14_nonvacuous_failed :
  let '(ov', out) := rebase_overlay ex_merge_fail ex_none3 ex_none3 (mkOpts false false) ex_w ex_ov in
  out = inl code_unexpected /\ ov_baseline ov' = Some ex_bl /\
  lookup [98] (ov_files ov') = Some [66; 50] /\                                  (* handled before the abort *)
  lookup [99] (ov_files ov') = Some [67; 49] /\ lookup [100] (ov_files ov') = Some [33; 68] /\
  lookup [103] (ov_files ov') = Some [71; 48].                                   (* not reached: untouched *)
Proof. vm_compute. repeat split; reflexivity. Qed.
