(* Props/C12.v — placeholder while the model is being validated (replaced below). *)
From AP Require Import Base.Str Model.Render.
Theorem C12_placeholder : run [] [] = Ok []. Proof. reflexivity. Qed.
