(* Props/C12.v — Rendering is deterministic, follows the documented mapping, refuses conflicts.
   Statements only; proofs in Proofs/RenderP.v (+ RenderOrderP.v, RenderSpecP.v).

   Model: Model/Render.v.  [render c e profile filter] is Engine::desired_state: select_modules
   (stable sort by id), selected_targets, the six adapters producing, in the order of the Rust code,
   a list of steps ([Emit] = one insert_desired_file call, [Fail] = a materialisation error) and the
   roots, [run] = the inserts into the (target, path) map, dedup_roots.  Keys compare paths by
   COMPONENTS (Rust's Path equality), contents are bytes. *)
From AP Require Import Base.Str Base.PathR Base.Sorting Gen.Tables Model.Render Model.RenderSpec
     Proofs.RenderP Proofs.RenderSafeP Proofs.RenderOrderP Proofs.RenderSpecP.
From Coq Require Import Sorting.Sorted.
From Coq Require Import Sorting.Permutation.
Open Scope N_scope.

(* Order independence: any permutation of the manifest's module list (distinct ids -- which
   validate_manifest enforces) renders to the IDENTICAL result: same desired map, same roots, or the
   same error.  (Sorted permutations with distinct keys are equal.) *)
Theorem C12_perm : forall c ms' e prof filt,
  Permutation (c_modules c) ms' -> NoDup (map m_id (c_modules c)) ->
  render (with_modules c ms') e prof filt = render c e prof filt /\
  plan_desired (with_modules c ms') e prof filt = plan_desired c e prof filt.
Proof. intros. split; [apply render_perm|apply plan_desired_perm]; assumption. Qed.
Print Assumptions C12_perm.

(* ... and the whole pipeline including Manifest::load: for a manifest that validate_manifest accepts,
   every permutation is accepted too and plans identically *)
Theorem C12_perm_load : forall c ms' e prof filt,
  Permutation (c_modules c) ms' -> validate_manifest c = None ->
  load_render (with_modules c ms') e prof filt = load_render c e prof filt.
Proof. exact load_render_perm. Qed.
Print Assumptions C12_perm_load.

(* Conflict iff: when every reached module tree is valid (no [Fail] step), rendering fails with
   E_DESIRED_STATE_CONFLICT exactly when two inserts address the same (target, path) with different
   bytes.  The right-hand side is symmetric in the two inserts and does not mention their order. *)
Theorem C12_conflict_iff : forall c e prof filt ms ts,
  select_modules c prof = Some ms -> selected_targets c filt = Ok ts ->
  no_fail (all_steps e ms ts) ->
  (render c e prof filt = Err EConflict <->
   exists a b, In (Emit a) (all_steps e ms ts) /\ In (Emit b) (all_steps e ms ts) /\
               e_key a = e_key b /\ e_bytes a <> e_bytes b).
Proof. exact conflict_iff. Qed.
Print Assumptions C12_conflict_iff.

(* Provenance: every insert carries a non-empty list of ids of modules the profile selected, so the
   two inserts of [C12_conflict_iff] are outputs of (one or two) SELECTED modules *)
Theorem C12_provenance : forall c e prof filt ms ts em,
  select_modules c prof = Some ms -> selected_targets c filt = Ok ts ->
  In (Emit em) (all_steps e ms ts) ->
  e_ids em <> [] /\ forall i, In i (e_ids em) -> exists m, In m ms /\ m_id m = i.
Proof.
  intros c e prof filt ms ts em _ _ H. unfold all_steps in H. apply in_flat_map in H as [t [_ H]].
  exact (adapter_ids e ms t em H).
Qed.
Print Assumptions C12_provenance.

(* Without any validity hypothesis: a successful render never hides a conflict (and reached no
   invalid module), i.e. two differing outputs for one path can never both be "accepted". *)
Theorem C12_ok_no_conflict : forall c e prof filt ms ts D R,
  select_modules c prof = Some ms -> selected_targets c filt = Ok ts ->
  render c e prof filt = Ok (D, R) ->
  no_fail (all_steps e ms ts) /\
  ~ (exists a b, In (Emit a) (all_steps e ms ts) /\ In (Emit b) (all_steps e ms ts) /\
                 e_key a = e_key b /\ e_bytes a <> e_bytes b).
Proof.
  intros c e prof filt ms ts D R H1 H2 H3. destruct (ok_no_conflict _ _ _ _ _ _ _ _ H1 H2 H3) as [A [B _]].
  split; assumption.
Qed.
Print Assumptions C12_ok_no_conflict.

(* Merge: the desired map has one entry per key; if two inserts (at different positions of the
   insert sequence) address one key, their bytes are equal and the single entry carries those bytes
   and module_ids = the strictly sorted (hence duplicate-free) union of the ids of ALL inserts for
   that key. *)
Theorem C12_merge : forall c e prof filt ms ts D R,
  select_modules c prof = Some ms -> selected_targets c filt = Ok ts ->
  render c e prof filt = Ok (D, R) ->
  NoDup (map d_key D) /\
  forall a b l1 l2 l3, emits_of (all_steps e ms ts) = l1 ++ a :: l2 ++ b :: l3 -> e_key a = e_key b ->
    e_bytes a = e_bytes b /\
    exists x, In x D /\ d_key x = e_key a /\ d_bytes x = e_bytes a /\ ssorted (d_ids x) /\
              forall i, In i (d_ids x) <->
                        exists em, In (Emit em) (all_steps e ms ts) /\ e_key em = e_key a /\ In i (e_ids em).
Proof. exact merge_thm. Qed.
Print Assumptions C12_merge.

(* Directory iteration order: module trees are consumed as SETS.  If c' differs from c only in the
   order of each module's file list ([same_cfg]: Forall2 [same_tree] = all other fields equal,
   Permutation of the file lists, relative paths of a tree pairwise distinct), both render to the same
   error, or to desired maps that agree at every key on bytes and module_ids ([deq]) with identical
   roots. *)
Theorem C12_tree_order : forall c c' e prof filt,
  same_cfg c c' -> req res_eq (render c e prof filt) (render c' e prof filt).
Proof. exact render_same. Qed.
Print Assumptions C12_tree_order.

(* Documented mapping.  [spec_output] (Model/RenderSpec.v) is the relation written from
   docs/reference/targets.md + SPEC: selected-by-profile x permitted-by-module-targets x target kept by
   --target x "option (default, required scope) -> directory -> kind of output" per target, with the
   (default, scope) pairs parsed from the DOCS on every run.  For every configuration with distinct
   module ids and target names (YAML map keys; validate_manifest checks the ids), file-system-shaped
   trees ([cfg_ok]: non-empty relative paths; pairwise distinct within a tree), whenever rendering
   succeeds the desired map holds bytes b at key k IF AND ONLY IF the documented mapping assigns b to k.
   All six adapters (codex, claude_code, cursor, vscode, jetbrains, zed) are covered. *)
Theorem C12_refines_spec : forall c e prof filt D R,
  NoDup (map m_id (c_modules c)) -> NoDup (map t_name (c_targets c)) ->
  (forall m, In m (c_modules c) -> NoDup (map f_rel (m_files m))) -> cfg_ok c ->
  render c e prof filt = Ok (D, R) ->
  forall k b, (exists x, lookup D k = Some x /\ d_bytes x = b) <-> spec_output c e prof filt k b.
Proof. exact refines_spec. Qed.
Print Assumptions C12_refines_spec.

(* the selection logic on its own: exactly the documented set, in strictly increasing id order *)
Theorem C12_selection : forall c prof ms,
  NoDup (map m_id (c_modules c)) -> select_modules c prof = Some ms ->
  (forall m, In m ms <-> selected c prof m) /\ StronglySorted (fun a b => str_compare (m_id a) (m_id b) = Lt) ms.
Proof. exact select_modules_spec. Qed.
Print Assumptions C12_selection.

(* table theorem, re-proved on every run from the regenerated Gen/Tables.v: the option names, defaults
   and required scopes documented in targets.md are those of the get_bool calls in src/targets/*.rs
   (6 targets, 14 options) *)
Theorem C12_doc_table : doc_render_option_table = render_option_table /\ length render_option_table = 14%nat.
Proof. split; [exact doc_table_matches_source|reflexivity]. Qed.
Print Assumptions C12_doc_table.

(* ---------- non-vacuity ---------- *)

Definition x_env : env := mkEnv (s "/h") (s "/p") None.
Definition x_prompt (id : str) (b : list N) : module :=
  mkModule id TPrompt true [s "a"] [] [mkFile [s "hello.md"] b true] true (s "0000000000").
Definition x_instr (id : str) (b : list N) : module :=
  mkModule id TInstructions true [s "a"] [] [mkFile [s "AGENTS.md"] b true] true (s "0000000000").
Definition x_cfg (ms : list module) : cfg :=
  mkCfg 1 [mkProfile (s "default") [s "a"] [] []] [mkTcfg (s "codex") SUser []; mkTcfg (s "vscode") SProject []] ms.

(* two prompts with the same file name: different bytes -> conflict, in both module orders;
   equal bytes -> one entry per target path with both ids, sorted *)
Example C12_conflict_both_orders :
  render (x_cfg [x_prompt (s "prompt:a") [1]; x_prompt (s "prompt:b") [2]]) x_env (s "default") (s "all") = Err EConflict /\
  render (x_cfg [x_prompt (s "prompt:b") [2]; x_prompt (s "prompt:a") [1]]) x_env (s "default") (s "all") = Err EConflict.
Proof. vm_compute. split; reflexivity. Qed.

Example C12_merge_example :
  match render (x_cfg [x_prompt (s "prompt:b") [7]; x_prompt (s "prompt:a") [7]]) x_env (s "default") (s "all") with
  | Ok (D, _) => map (fun x => (fst (d_key x), d_bytes x, d_ids x)) D =
                 [ (s "codex", [7], [s "prompt:a"; s "prompt:b"]); (s "vscode", [7], [s "prompt:a"; s "prompt:b"]) ]
  | Err _ => False
  end.
Proof. vm_compute. reflexivity. Qed.

(* aggregated instructions: two modules -> marked sections in id order, whatever the manifest order *)
Example C12_perm_example :
  let ms := [x_instr (s "instructions:b") [66; 10]; x_instr (s "instructions:a") [65]] in
  render (x_cfg (rev ms)) x_env (s "default") (s "codex") = render (x_cfg ms) x_env (s "default") (s "codex") /\
  match render (x_cfg ms) x_env (s "default") (s "codex") with
  | Ok ([x], _) => d_ids x = [s "instructions:a"; s "instructions:b"] /\
                   d_bytes x = utf8_encode (s "<!-- agentpack:module=instructions:a -->") ++ [10; 65; 10] ++
                               utf8_encode (s "<!-- /agentpack -->") ++ [10; 10; 45; 45; 45; 10; 10] ++
                               utf8_encode (s "<!-- agentpack:module=instructions:b -->") ++ [10; 66; 10] ++
                               utf8_encode (s "<!-- /agentpack -->")
  | _ => False
  end.
Proof. vm_compute. repeat split; reflexivity. Qed.

Definition x_skill (files : list file) : module :=
  mkModule (s "skill:k") TSkill true [s "a"] [] files true (s "0000000000").
Definition x_files : list file :=
  [mkFile [s "SKILL.md"] [1] true; mkFile [s "ref"; s "b.md"] [2] true; mkFile [s "a.txt"] [3] true].

Example C12_tree_order_example :
  same_cfg (x_cfg [x_skill x_files]) (x_cfg [x_skill (rev x_files)]) /\
  match render (x_cfg [x_skill x_files]) x_env (s "default") (s "all"),
        render (x_cfg [x_skill (rev x_files)]) x_env (s "default") (s "all") with
  | Ok (D, _), Ok (D', _) => length D = 3%nat /\ map d_key D = rev (map d_key D')   (* inserted in opposite orders *)
  | _, _ => False
  end.
Proof.
  split.
  - repeat split; try reflexivity. constructor; [|constructor]. repeat split; try reflexivity.
    + simpl. apply Permutation_rev.
    + simpl. repeat constructor; simpl; intuition discriminate.
  - vm_compute. split; reflexivity.
Qed.

(* the spec relation is inhabited where it should be (obtained THROUGH the theorem, so its hypotheses
   are satisfiable) and empty where it should be (write_prompts: false) *)
Example C12_spec_nonvacuous :
  let c := x_cfg [x_prompt (s "prompt:b") [7]; x_prompt (s "prompt:a") [7]] in
  spec_output c x_env (s "default") (s "all") (s "vscode", components (s "/p/.github/prompts/hello.prompt.md")) [7].
Proof.
  intro c.
  assert (Hr : exists D R, render c x_env (s "default") (s "all") = Ok (D, R) /\
                           exists x, lookup D (s "vscode", components (s "/p/.github/prompts/hello.prompt.md")) = Some x /\ d_bytes x = [7]).
  { vm_compute. eexists _, _. split; [reflexivity|]. vm_compute. eexists. split; reflexivity. }
  destruct Hr as [D [R [Hr Hx]]].
  refine (proj1 (C12_refines_spec c x_env (s "default") (s "all") D R _ _ _ _ Hr _ _) Hx).
  - vm_compute. repeat constructor; simpl; intuition discriminate.
  - vm_compute. repeat constructor; simpl; intuition discriminate.
  - intros m [ <- |[ <- |[]]]; vm_compute; repeat constructor; simpl; intuition discriminate.
  - apply cfg_okb_ok. vm_compute. reflexivity.
Qed.
