(* Props/C16.v — status reports exactly the real drift, no more and no less.
   Statements only; proofs in Proofs/StatusP.v.  [report f universe roots D] mirrors
   handlers/status.rs::status_drift_report; [universe] is the list of paths the extras scan ranges
   over (every existing file is in it). *)
From AP Require Import Base.Str Gen.Tables Model.Deploy Model.Status Proofs.DeployP Proofs.StatusP Proofs.StatusCmdP.
Open Scope N_scope.

(* soundness and completeness: an item is reported iff the classification of the property holds:
   per root with a usable manifest — managed ∧ desired ∧ bytes differ (modified), managed ∧ desired ∧
   absent (missing), managed ∧ not desired ∧ present (extra), or present in an extras-scanned root,
   not a manifest file, not managed (extra); per root WITHOUT a usable manifest, and globally when no
   manifest is usable anywhere: desired-versus-disk comparison (fallback) *)
Theorem C16_sound_complete : forall f universe roots D it,
  In it (report f universe roots D) <-> spec_item f universe roots D it.
Proof. exact report_sound_complete. Qed.
Print Assumptions C16_sound_complete.

(* the hashes shown are the true ones *)
Theorem C16_hashes_true : forall f universe roots D it,
  In it (report f universe roots D) ->
  i_actual it = f (i_path it) /\
  (forall c, i_expected it = Some c ->
     exists d, In d D /\ dpath d = i_path it /\ dtarget d = i_target it /\ dcontent d = c).
Proof. exact report_hashes_true. Qed.
Print Assumptions C16_hashes_true.

(* summaries equal the counts of the listed items; per-root summaries likewise *)
Theorem C16_summary : forall l,
  s_modified (drift_summary l) = N.of_nat (length (filter (fun it => dkind_eqb (i_kind it) DModified) l)) /\
  s_missing (drift_summary l) = N.of_nat (length (filter (fun it => dkind_eqb (i_kind it) DMissing) l)) /\
  s_extra (drift_summary l) = N.of_nat (length (filter (fun it => dkind_eqb (i_kind it) DExtra) l)) /\
  s_modified (drift_summary l) + s_missing (drift_summary l) + s_extra (drift_summary l) = N.of_nat (length l).
Proof. intros l. repeat split. apply summary_total. Qed.
Theorem C16_summary_by_root : forall t rt l k,
  count_kind k (filter (same_root t rt) l) =
  N.of_nat (length (filter (fun it => same_root t rt it && dkind_eqb (i_kind it) k) l)).
Proof. exact summary_by_root_counts. Qed.
Print Assumptions C16_summary.
Print Assumptions C16_summary_by_root.

(* the only-filter returns exactly the matching subset (and everything when empty) *)
Theorem C16_only : forall only l it,
  only <> [] -> (In it (filter_only only l) <-> In it l /\ In (i_kind it) only).
Proof. exact filter_only_spec. Qed.
Theorem C16_only_empty : forall l, filter_only [] l = l.
Proof. exact filter_only_nil. Qed.
Print Assumptions C16_only.
Print Assumptions C16_only_empty.

(* the command as a whole ([status_cmd]: report, then --only, then the summaries): what is listed is the --only subset
   of the report; the overall summary AND every per-(target, root) summary count exactly the LISTED items (one entry per
   group that has a listed item, none else); summary_total — present only with --only — counts the unfiltered report *)
Theorem C16_status_cmd : forall only f U roots D,
  let o := status_cmd only f U roots D in
  let all := report f U roots D in
  so_drift o = filter_only only all /\
  so_summary o = drift_summary (so_drift o) /\
  (forall g s, In (g, s) (so_by_root o) ->
     s = drift_summary (filter (same_root (fst g) (snd g)) (so_drift o)) /\
     exists it, In it (so_drift o) /\ same_root (fst g) (snd g) it = true) /\
  (forall it, In it (so_drift o) -> exists s, In ((i_target it, i_root it), s) (so_by_root o)) /\
  NoDup (map fst (so_by_root o)) /\
  so_total o = match only with [] => None | _ => Some (drift_summary all) end.
Proof. exact status_cmd_spec. Qed.
Print Assumptions C16_status_cmd.

(* non-vacuity: nested roots (codex home ⊃ prompts), one modified, one missing, one managed-but-not-
   desired extra, one scanned extra, a manifest file that is not reported *)
Example C16_nonvacuous :
  let r1 := Build_root (s "codex") [s "h"; s "c"] false in
  let r2 := Build_root (s "codex") [s "h"; s "c"; s "prompts"] true in
  let p (x : str) := [s "h"; s "c"; s "prompts"; x] in
  let man2 := FMan (Parsed 1 (s "codex") [(s "a.md", 1); (s "b.md", 2); (s "old.md", 5)]) in
  let f : fs := upd (upd (upd (upd (fun _ => None) (mf_path r2) (Some man2)) (p (s "a.md")) (Some (FBytes 9)))
                          (p (s "old.md")) (Some (FBytes 5))) (p (s "mine.md")) (Some (FBytes 7)) in
  let D := [Build_dfile (s "codex") (p (s "a.md")) 1 []; Build_dfile (s "codex") (p (s "b.md")) 2 []] in
  let U := [p (s "a.md"); p (s "old.md"); p (s "mine.md"); mf_path r2] in
  map (fun it => (i_path it, i_kind it)) (report f U [r1; r2] D) =
  [(p (s "a.md"), DModified); (p (s "b.md"), DMissing); (p (s "old.md"), DExtra); (p (s "mine.md"), DExtra)].
Proof. vm_compute. reflexivity. Qed.
