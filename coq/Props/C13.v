(* Props/C13.v — Overlay layers compose by precedence; metadata never ships; keys never collide.
   Statements only; proofs in Proofs/OverlayP.v, Proofs/IdsP.v and Proofs/MachineP.v.

   Model: Model/Overlay.v (compose_module_tree, copy_tree, list_files, the patch loop and its header
   validation) and Model/Ids.v (module_fs_key, overlay directory resolution).  `git apply` is the
   oracle [ap : patch_text -> target_text -> option new_text]; SHA-256 is the oracle [sha] with the
   premise [sha_ok] (64 lowercase hex digits).  [get r t] is the content of path r in tree t;
   [view l r] what layer l provides at r; [Err c] carries no tree: a refusal produces no output. *)
From AP Require Import Base.Str Model.Ids Model.Overlay Model.Machine Proofs.IdsP Proofs.OverlayP Proofs.MachineP.
Open Scope N_scope.

(* ------------------------------------------------------------------ precedence *)

(* three directory layers in the code's order [global; machine; project]: every non-metadata path
   comes from the highest-precedence layer that provides it *)
Theorem C13_precedence : forall ap up g m p out,
  layer_kind g = KDir -> layer_kind m = KDir -> layer_kind p = KDir ->
  compose ap up [g; m; p] = Ok out ->
  forall r, is_meta r = false ->
    get r out = first_some [view p r; view m r; view g r; get r up].
Proof. exact compose_dir3. Qed.
Print Assumptions C13_precedence.

(* one directory layer on top of ANY lower result (so also above a patch layer) *)
Theorem C13_precedence_dir_layer : forall ap l lower out,
  layer_kind l = KDir -> apply_layer ap l lower = Ok out ->
  forall r, get r out = if is_meta r then get r lower
                        else match view l r with Some c => Some c | None => get r lower end.
Proof. exact apply_layer_dir. Qed.
Print Assumptions C13_precedence_dir_layer.

(* a patch layer on top of any lower result: it is the loop over its sorted patch files; the file
   named by a patch file becomes git's answer on the lower layers' text; all other paths keep the
   lower content.  Stated for every oracle.  The per-file oracle is an adequate picture of
   `git apply` only for single-section patch texts (known class K13c below), hence _partial. *)
Theorem C13_precedence_patch_partial : forall ap l lower out,
  l_exists l = true -> layer_kind l = KPatch -> apply_layer ap l lower = Ok out ->
  (forall e pt, In e (patch_entries (l_files l)) -> snd e = Text pt -> single_section pt = true) ->
  has_overrides l = false /\
  (forall r, (forall e, In e (patch_entries (l_files l)) -> patch_target e <> Some r) ->
             get r out = get r lower) /\
  (forall ps1 e ps2 r, patch_entries (l_files l) = ps1 ++ e :: ps2 -> patch_target e = Some r ->
     (forall e', In e' (ps1 ++ ps2) -> patch_target e' <> Some r) ->
     exists rel pt tx t', patch_rel e = Some rel /\ r = target_of rel /\ snd e = Text pt /\
       get r lower = Some (Text tx) /\ header_check pt rel = HOk /\
       ap pt tx = Some t' /\ get r out = Some (Text t')).
Proof.
  intros ap l lower out He Hk H _.
  destruct (apply_layer_patch ap l lower out He Hk H) as [Ho Hp].
  split; [exact Ho|]. split.
  - intros r Hn. eapply apply_patches_untouched; eauto.
  - intros ps1 e ps2 r E Ht Hn. rewrite E in Hp. eapply apply_patches_target; eauto.
Qed.
Print Assumptions C13_precedence_patch_partial.

(* full statement behind the hypothesis above — "the header validation admits single-section
   patches only" — is refuted by the model (K13c; replayed on the binary: the second section
   renames another file of the module) *)
Theorem C13_patch_single_section_refuted :
  exists p r, header_check p r = HOk /\ single_section p = false.
Proof. exists wit_multi_patch, (s "f.txt"). exact multi_section_accepted. Qed.
Print Assumptions C13_patch_single_section_refuted.

(* ------------------------------------------------------------------ refusals *)

(* layer level: invalid metadata, mixed dir+patch, kind mismatch -> E_CONFIG_INVALID; file/dir
   type clash while copying -> plain I/O error; otherwise a patch layer is its patch loop *)
Theorem C13_refusals_layer : forall ap l out, l_exists l = true ->
  (l_meta l = MInvalid -> apply_layer ap l out = Err EConfigInvalid) /\
  (l_meta l <> MInvalid ->
     (has_overrides l = true -> has_patches l = true -> apply_layer ap l out = Err EConfigInvalid) /\
     (layer_kind l = KDir -> has_patches l = true -> apply_layer ap l out = Err EConfigInvalid) /\
     (layer_kind l = KPatch -> has_overrides l = true -> apply_layer ap l out = Err EConfigInvalid) /\
     (layer_kind l = KDir -> has_patches l = false -> copy_tree (l_files l) out = None ->
        apply_layer ap l out = Err EUnexpected) /\
     (layer_kind l = KPatch -> has_overrides l = false ->
        apply_layer ap l out = apply_patches ap (patch_entries (l_files l)) out)).
Proof. exact layer_refusals. Qed.
Print Assumptions C13_refusals_layer.

(* mixed overlays in terms of the files on disk: any non-metadata file next to any patch file is
   refused, wherever the overlay directory lives (list_files filters on the relative path) *)
Theorem C13_refusals_mixed : forall ap l out r c,
  l_exists l = true -> l_meta l <> MInvalid ->
  In (r, c) (l_files l) -> is_meta r = false -> patch_entries (l_files l) <> [] ->
  apply_layer ap l out = Err EConfigInvalid.
Proof.
  intros ap l out r c He Hm Hin Hr Hp.
  destruct (layer_refusals ap l out He) as [_ H]. destruct (H Hm) as [H1 _]. apply H1.
  - unfold has_overrides.
    pose proof (list_files_nonempty (l_files l) r c Hin Hr) as N.
    destruct (list_files (l_files l)); [contradiction|reflexivity].
  - unfold has_patches. destruct (patch_entries (l_files l)); [contradiction|reflexivity].
Qed.
Print Assumptions C13_refusals_mixed.

(* one patch file: bad relpath / missing target / non-UTF-8 target / non-UTF-8 patch / header
   not accepted -> E_CONFIG_INVALID; oracle failure -> E_OVERLAY_PATCH_APPLY_FAILED *)
Theorem C13_refusals_patch : forall ap e out rel,
  patch_rel e = Some rel ->
  (validate_posix_relpath rel = false -> patch_step ap e out = Err EConfigInvalid) /\
  (validate_posix_relpath rel = true ->
     (get (target_of rel) out = None -> patch_step ap e out = Err EConfigInvalid) /\
     (forall b, get (target_of rel) out = Some (Raw b) -> patch_step ap e out = Err EConfigInvalid) /\
     (forall tx, get (target_of rel) out = Some (Text tx) ->
        (forall b, snd e = Raw b -> patch_step ap e out = Err EConfigInvalid) /\
        (forall pt, snd e = Text pt ->
           (header_check pt rel <> HOk -> patch_step ap e out = Err EConfigInvalid) /\
           (header_check pt rel = HOk -> ap pt tx = None ->
              patch_step ap e out = Err EPatchApplyFailed)))).
Proof. exact patch_step_refusals. Qed.
Print Assumptions C13_refusals_patch.

(* what the header validation accepts, exactly; and its refusals: header count <> 1, /dev/null,
   header path <> file-name-derived relpath, binary patch *)
Theorem C13_refusals_header : forall p r,
  (header_check p r = HOk <->
     contains lit_binary p = false /\
     exists o n, header_lines (lines p) = ([o], [n]) /\
                 str_eqb (parse_header_path o) lit_devnull = false /\
                 str_eqb (parse_header_path n) lit_devnull = false /\
                 strip_ab_prefix (parse_header_path o) = r /\ strip_ab_prefix (parse_header_path n) = r) /\
  (forall os ns, header_lines (lines p) = (os, ns) -> (length os <> 1%nat \/ length ns <> 1%nat) ->
     header_check p r <> HOk) /\
  (forall o n, contains lit_binary p = false -> header_lines (lines p) = ([o], [n]) ->
     (parse_header_path o = lit_devnull \/ parse_header_path n = lit_devnull) -> header_check p r <> HOk) /\
  (forall o n, contains lit_binary p = false -> header_lines (lines p) = ([o], [n]) ->
     (strip_ab_prefix (parse_header_path o) <> r \/ strip_ab_prefix (parse_header_path n) <> r) ->
     header_check p r <> HOk).
Proof.
  intros p r. split; [apply header_ok_iff|]. split; [|split].
  - intros os ns Hh Hl E. destruct (header_count_refused p r os ns Hh Hl) as [X|X]; congruence.
  - intros o n Hb Hh Hd E. rewrite (header_devnull_refused p r o n Hb Hh Hd) in E. discriminate.
  - exact (header_mismatch_refused p r).
Qed.
Print Assumptions C13_refusals_header.

(* the first refusing patch file / layer decides the result of the whole composition: its code,
   and (by the type of [Err]) no tree *)
Theorem C13_refusals_propagate : forall ap,
  (forall ps1 e ps2 lower mid c, apply_patches ap ps1 lower = Ok mid -> patch_step ap e mid = Err c ->
     apply_patches ap (ps1 ++ e :: ps2) lower = Err c) /\
  (forall up o ls1 l ls2 mid c, copy_tree up [] = Some o -> apply_layers ap ls1 o = Ok mid ->
     apply_layer ap l mid = Err c -> compose ap up (ls1 ++ l :: ls2) = Err c).
Proof. intros ap. split; [exact (apply_patches_first_error ap)|exact (compose_refused ap)]. Qed.
Print Assumptions C13_refusals_propagate.

(* ... and conversely every refusal has one of these causes (the decision is exact; in
   particular E_OVERLAY_PATCH_APPLY_FAILED arises from an oracle failure and from nothing else) *)
Theorem C13_refusals_exact : forall ap up ls c, compose ap up ls = Err c ->
  (c = EUnexpected /\ copy_tree up [] = None) \/
  exists o ls1 l ls2 mid, copy_tree up [] = Some o /\ ls = ls1 ++ l :: ls2 /\
    apply_layers ap ls1 o = Ok mid /\ l_exists l = true /\
    ((c = EConfigInvalid /\
        (l_meta l = MInvalid \/ has_overrides l = true /\ has_patches l = true \/
         layer_kind l = KDir /\ has_patches l = true \/ layer_kind l = KPatch /\ has_overrides l = true)) \/
     (c = EUnexpected /\ layer_kind l = KDir /\ copy_tree (l_files l) mid = None) \/
     (layer_kind l = KPatch /\ has_overrides l = false /\
        exists ps1 e ps2 mid' rel, patch_entries (l_files l) = ps1 ++ e :: ps2 /\
          apply_patches ap ps1 mid = Ok mid' /\ patch_rel e = Some rel /\
          ((c = EConfigInvalid /\
              (validate_posix_relpath rel = false \/
               validate_posix_relpath rel = true /\
                 (get (target_of rel) mid' = None \/
                  (exists b, get (target_of rel) mid' = Some (Raw b)) \/
                  (exists tx, get (target_of rel) mid' = Some (Text tx) /\
                     ((exists b, snd e = Raw b) \/
                      (exists pt, snd e = Text pt /\ header_check pt rel <> HOk)))))) \/
           (c = EPatchApplyFailed /\ validate_posix_relpath rel = true /\
              exists pt tx, snd e = Text pt /\ get (target_of rel) mid' = Some (Text tx) /\
                            header_check pt rel = HOk /\ ap pt tx = None)))).
Proof.
  intros ap up ls c H. destruct (compose_err ap up ls c H) as [X|[o [ls1 [l [ls2 [mid [C [E [H1 S]]]]]]]]]; [left; exact X|].
  right. exists o, ls1, l, ls2, mid. split; [exact C|]. split; [exact E|]. split; [exact H1|].
  destruct (apply_layer_err ap l mid c S) as [He [X|[X|[Hk [Ho Hp]]]]]; split; auto.
  right. right. split; [exact Hk|]. split; [exact Ho|].
  destruct (apply_patches_err ap _ _ _ Hp) as [ps1 [e [ps2 [mid' [Ep [Hp1 Sp]]]]]].
  destruct (patch_step_err ap e mid' c Sp) as [rel [Hr X]].
  exists ps1, e, ps2, mid', rel. auto.
Qed.
Print Assumptions C13_refusals_exact.

(* ------------------------------------------------------------------ metadata never ships *)

Theorem C13_no_metadata : forall ap up ls out, compose ap up ls = Ok out ->
  forall r, is_meta r = true -> get r out = None.
Proof. intros ap up ls out H. exact (compose_clean ap up ls out H). Qed.
Print Assumptions C13_no_metadata.

(* ------------------------------------------------------------------ keys *)

Theorem C13_key_safe : forall sha, sha_ok sha -> forall id,
  let k := fs_key sha id in
  k <> [] /\ Forall fs_safe_char k /\
  N.of_nat (length k) <= prefix_max + 12 /\ utf8_len k = N.of_nat (length k) /\
  k <> [46] /\ k <> [46; 46] /\ ~ In 47 k /\ ~ In 92 k /\ ~ In 0 k /\ legacy_safe k = true.
Proof. exact key_safe. Qed.
Print Assumptions C13_key_safe.

Theorem C13_key_inj : forall sha, sha_ok sha -> forall a b,
  fs_key sha a = fs_key sha b <->
  key_prefix (Some prefix_max) a = key_prefix (Some prefix_max) b /\ sha10 sha a = sha10 sha b.
Proof. intros sha Hs a b. exact (key_inj sha Hs (Some prefix_max) a b). Qed.
Print Assumptions C13_key_inj.

(* "two different module ids never resolve to the same overlay directory": full statement
     forall sha machine project ex sc a b, sha_ok sha -> a <> b -> dir a <> dir b
   is refuted twice (DESIGN F7). *)

(* K13b — for EVERY hex-valued hash: an id equal to another id's fs key reaches, through the
   raw-id legacy fallback, that other id's canonical directory *)
Theorem C13_no_collision_refuted_legacy : forall sha machine project sc, sha_ok sha ->
  exists ex a b, a <> b /\ K13b sha a b /\
    overlay_dir_for sha machine project ex sc a = overlay_dir_for sha machine project ex sc b.
Proof. intros sha machine project sc Hs. exact (dirs_legacy_collision sha machine project sc Hs). Qed.
Print Assumptions C13_no_collision_refuted_legacy.

(* K13a — two concrete ids; for every hash function that has SHA-256's actual values on them
   (the two digests in Proofs/IdsP.v) the keys, hence the directories, coincide *)
Theorem C13_no_collision_refuted_sha10 :
  wit_a <> wit_b /\
  forall sha, sha wit_a = wit_sha_a -> sha wit_b = wit_sha_b ->
    K13a sha wit_a wit_b /\ fs_key sha wit_a = fs_key sha wit_b /\
    forall ex, ex (fs_key sha wit_a) = true \/ (forall n, ex n = false) ->
      overlay_dir_name sha ex wit_a = overlay_dir_name sha ex wit_b.
Proof. exact sha10_collision. Qed.
Print Assumptions C13_no_collision_refuted_sha10.

(* outside the two classes the statement holds, for every state of the repository *)
Theorem C13_no_collision_partial : forall sha machine project ex sc a b,
  sha_ok sha -> a <> b -> ~ K13a sha a b -> ~ K13b sha a b ->
  overlay_dir_for sha machine project ex sc a <> overlay_dir_for sha machine project ex sc b.
Proof. exact dirs_no_collision_partial. Qed.
Print Assumptions C13_no_collision_partial.

Theorem C13_scopes_disjoint : forall sha machine project ex1 ex2 sc1 sc2 a b, sc1 <> sc2 ->
  overlay_dir_for sha machine project ex1 sc1 a <> overlay_dir_for sha machine project ex2 sc2 b.
Proof. exact dirs_scopes_disjoint. Qed.
Print Assumptions C13_scopes_disjoint.

(* ------------------------------------------------------------------ non-vacuity *)

Definition ex_ap : str -> str -> option str :=
  fun p t => if str_eqb t (s "l1") then Some (s "L1") else None.
Definition ex_up : files :=
  [([s "f.txt"], Text (s "l1")); ([s "g.txt"], Text (s "g-up")); ([s "h.txt"], Text (s "h-up"));
   ([s "k.txt"], Text (s "k-up")); ([dot_git; s "config"], Text (s "meta"))].
Definition ex_g := mkLayer true MAbsent
  [([s "g.txt"], Text (s "g-glob")); ([s "h.txt"], Text (s "h-glob")); ([s "k.txt"], Text (s "k-glob"));
   ([dot_agentpack; s "baseline.json"], Text (s "{}"))].
Definition ex_m := mkLayer true (MKind KDir)
  [([s "h.txt"], Text (s "h-mach")); ([s "k.txt"], Text (s "k-mach")); ([s "new.txt"], Text (s "n-mach"))].
Definition ex_p := mkLayer true (MKind KDir) [([s "k.txt"], Text (s "k-proj"))].
Definition ex_patch_text : str := s "--- a/f.txt
+++ b/f.txt
@@ -1 +1 @@
-l1
+L1
".
Definition ex_pl (body : str) := mkLayer true (MKind KPatch)
  [([dot_agentpack; c_patches; s "f.txt.patch"], Text body)].

(* hypotheses of C13_precedence are met by a run where every layer wins somewhere *)
Example C13_nonvacuous_precedence :
  exists out, compose ex_ap ex_up [ex_g; ex_m; ex_p] = Ok out /\
    layer_kind ex_g = KDir /\ layer_kind ex_m = KDir /\ layer_kind ex_p = KDir /\
    map (fun r => get [r] out) [s "f.txt"; s "g.txt"; s "h.txt"; s "k.txt"; s "new.txt"] =
      [Some (Text (s "l1")); Some (Text (s "g-glob")); Some (Text (s "h-mach"));
       Some (Text (s "k-proj")); Some (Text (s "n-mach"))] /\
    get [dot_git; s "config"] out = None /\ get [dot_agentpack; s "baseline.json"] out = None.
Proof. eexists. repeat split; vm_compute; reflexivity. Qed.

(* a patch layer above a dir layer; the hypotheses of C13_precedence_patch_partial hold *)
Example C13_nonvacuous_patch :
  exists out, compose ex_ap ex_up [ex_g; ex_pl ex_patch_text; ex_p] = Ok out /\
    get [s "f.txt"] out = Some (Text (s "L1")) /\ get [s "g.txt"] out = Some (Text (s "g-glob")) /\
    single_section ex_patch_text = true /\ layer_kind (ex_pl ex_patch_text) = KPatch.
Proof. eexists. repeat split; vm_compute; reflexivity. Qed.

(* each refusal is reachable *)
Example C13_nonvacuous_refusals :
  let bad_hdr := s "--- a/other.txt
+++ b/other.txt
@@ -1 +1 @@
-l1
+L1
" in
  (* oracle failure: the global layer replaced the text the patch was made for *)
  compose ex_ap ex_up [mkLayer true MAbsent [([s "f.txt"], Text (s "changed"))]; ex_pl ex_patch_text]
    = Err EPatchApplyFailed /\
  compose ex_ap ex_up [ex_pl bad_hdr] = Err EConfigInvalid /\
  compose ex_ap ex_up [ex_pl (s "")] = Err EConfigInvalid /\
  compose ex_ap ex_up [mkLayer true (MKind KPatch)
                         [([dot_agentpack; c_patches; s "nope.txt.patch"], Text ex_patch_text)]] = Err EConfigInvalid /\
  compose ex_ap ex_up [mkLayer true (MKind KPatch)
                         (([s "g.txt"], Text (s "x")) :: l_files (ex_pl ex_patch_text))] = Err EConfigInvalid /\
  compose ex_ap ex_up [mkLayer true (MKind KDir) (l_files (ex_pl ex_patch_text))] = Err EConfigInvalid /\
  compose ex_ap ex_up [mkLayer true MInvalid []] = Err EConfigInvalid /\
  compose ex_ap ex_up [mkLayer true MAbsent [([s "g.txt"; s "x"], Text (s "x"))]] = Err EUnexpected.
Proof. cbv zeta. repeat split; vm_compute; reflexivity. Qed.

(* a hash oracle with SHA-256's real values on two ids: the premises of C13_key_safe and
   C13_no_collision_partial are satisfiable, and the key has the documented shape *)
Definition ex_sha (x : str) : str :=
  if str_eqb x (s "instructions:base")
  then s "d39861fff13c248a7b85fb7008acc6ea10f797279e706123cd894ee187b7cbd4"
  else if str_eqb x (s "a/b")
  then s "c14cddc033f64b9dea80ea675cf280a015e672516090a5626781153dc68fea11"
  else s "0000000000000000000000000000000000000000000000000000000000000000".

Example C13_nonvacuous_keys :
  sha_ok ex_sha /\
  fs_key ex_sha (s "instructions:base") = s "instructions_base--d39861fff1" /\
  s "instructions:base" <> s "a/b" /\
  ~ K13a ex_sha (s "instructions:base") (s "a/b") /\ ~ K13b ex_sha (s "instructions:base") (s "a/b").
Proof.
  split.
  - intros x. unfold ex_sha. destruct (str_eqb x _); [vm_compute; auto|].
    destruct (str_eqb x _); vm_compute; auto.
  - split; [vm_compute; reflexivity|]. split; [vm_compute; discriminate|]. split.
    + unfold K13a. vm_compute. discriminate.
    + unfold K13b. intros [H|[H|[H|H]]]; vm_compute in H; discriminate.
Qed.

(* ------------------------------------------------------------------ the other derived names *)

(* "every derived directory name is a single filesystem-safe component": besides the module key
   the overlay directories are built from the machine id (machines/<id>) and the project id
   (projects/<id>).  The machine id — from --machine, AGENTPACK_MACHINE_ID, HOSTNAME, COMPUTERNAME,
   `hostname` or the literal "unknown", whatever those hold — is a non-empty string over
   [a-z0-9_-]; its length is that of its source (no bound: C13's bound is on the module key). *)
Theorem C13_machine_id_component : forall (override : option str) (cands : list str),
  let m := engine_machine_id override cands in
  m <> [] /\ forallb is_mid_char m = true /\ safe_component m = true.
Proof. intros o c. destruct (engine_machine_id_chars o c). repeat split; try assumption. apply engine_machine_id_safe. Qed.
Print Assumptions C13_machine_id_component.

(* normalisation is a projection, and a machine id agentpack reports can be passed back with
   --machine unchanged, whatever the environment then says *)
Theorem C13_machine_id_normal_form : forall x,
  normalize_machine_id (normalize_machine_id x) = normalize_machine_id x.
Proof. exact normalize_idem. Qed.
Print Assumptions C13_machine_id_normal_form.

Theorem C13_machine_id_stable : forall override cands cands',
  engine_machine_id (Some (engine_machine_id override cands)) cands' = engine_machine_id override cands.
Proof. exact engine_machine_id_stable. Qed.
Print Assumptions C13_machine_id_stable.

Theorem C13_project_id_component : forall sha, sha_ok sha -> forall basis,
  length (project_id sha basis) = 16%nat /\ forallb is_hex_lower (project_id sha basis) = true
  /\ safe_component (project_id sha basis) = true.
Proof. exact project_id_safe. Qed.
Print Assumptions C13_project_id_component.

(* all components of a resolved overlay directory, relative to the config repo *)
Theorem C13_overlay_dir_components_safe : forall sha override cands basis ex sc id, sha_ok sha ->
  forallb legacy_safe (overlay_dir_for sha (engine_machine_id override cands) (project_id sha basis) ex sc id) = true.
Proof. exact overlay_dir_for_safe. Qed.
Print Assumptions C13_overlay_dir_components_safe.

Example C13_machine_id_nonvacuous :
  normalize_machine_id (s "  My Host.local  ") = s "my-host-local" /\
  normalize_machine_id (s "--a--b__C..") = s "a--b__c" /\
  normalize_machine_id [8490; 304; 47; 46; 46] = s "ki" /\
  normalize_machine_id (s " ../.. ") = [] /\
  engine_machine_id (Some (s "../..")) [s ""; s "Build Box #7"] = s "build-box-7" /\
  engine_machine_id None [s "///"] = s "unknown".
Proof. repeat split; vm_compute; reflexivity. Qed.
