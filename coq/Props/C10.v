(* Props/C10.v — The --json envelope contract holds on every path, success or failure.
   Statements only; proofs in Proofs/EnvelopeP.v.  PARTIAL: the theorems are about the single
   exit path (dispatch::run -> print_anyhow_error) and the MCP wrappers as modelled in
   Model/Envelope.v.  That every handler prints exactly one document on stdout, the data payloads
   (including the *_posix companions) and the inline guidance of codes outside the default table
   are observed on the real binary by the correspondence check. *)
From AP Require Import Base.Str Model.Envelope Proofs.EnvelopeP.
From AP Require Gen.Tables.
Open Scope N_scope.

(* for every command meta and every way run_with can end: ok <=> exit 0 <=> errors = [];
   data = {} (and exactly one error) on failure; command_id / command_path are the invoked
   command's (id = path joined by a space); schema_version is the constant of output.rs *)
Theorem C10_coherent : forall (m : meta) (r : result),
  let '(x, e) := of_result m r in
  (ok e = true <-> x = 0) /\
  (ok e = true <-> errors e = []) /\
  (ok e = false -> data e = JObj [] /\ length (errors e) = 1%nat) /\
  command_id e = Some (m_id m) /\
  command_path e = Some (m_path m) /\
  m_id m = join [32] (m_path m) /\
  schema_version e = Gen.Tables.json_schema_version.
Proof. exact of_result_coherent. Qed.
Print Assumptions C10_coherent.

(* the reported code is the code of the first UserError in the context chain, else E_UNEXPECTED *)
Theorem C10_error_code : forall m c,
  let e := snd (of_result m (RErr c)) in
  exists msg det, errors e =
    [mkErr (match find_user_error c with Some u => u_code u | None => e_unexpected end) msg det].
Proof. exact of_result_error_code. Qed.
Print Assumptions C10_error_code.

(* every "E_..." literal of the Rust source (regenerated table) is in the registry of
   docs/reference/error-codes.md (regenerated table), E_UNEXPECTED included; the codes with
   documented guidance (registry, SPEC.md values, default table) are registry codes, and the
   default table agrees with SPEC.md wherever both give values.  Finite tables, by vm_compute. *)
Theorem C10_codes_registered :
  (forall c, In c Gen.Tables.source_error_codes -> In c registry) /\
  In e_unexpected registry /\
  (forall c, In c Gen.Tables.registry_guidance_codes -> In c registry) /\
  (forall c, In c (map fst Gen.Tables.default_guidance) -> In c Gen.Tables.registry_guidance_codes) /\
  (forall c, In c (map fst Gen.Tables.spec_guidance) -> In c Gen.Tables.registry_guidance_codes) /\
  forallb guidance_agrees Gen.Tables.default_guidance = true.
Proof. exact codes_registered_all. Qed.
Print Assumptions C10_codes_registered.

(* default guidance: for every code of the default table (regenerated from user_error.rs) and
   details that are absent or a JSON object — the only forms the constructors in the source use —
   the emitted details are an object with reason_code and next_actions; fields set by the
   constructor are kept; with no details the table's values are emitted *)
Theorem C10_guidance : forall code rc acts details,
  assoc code Gen.Tables.default_guidance = Some (rc, acts) -> is_obj_or_none details ->
  exists m', add_default code details = Some (JObj m') /\
    has_key k_reason m' = true /\ has_key k_actions m' = true /\
    (forall m k x, details = Some (JObj m) -> obj_get k m = Some x -> obj_get k m' = Some x) /\
    (details = None -> obj_get k_reason m' = Some (JStr rc) /\ obj_get k_actions m' = Some (JArr (map JStr acts))).
Proof. exact add_default_guidance. Qed.
Print Assumptions C10_guidance.

(* guidance given inline by a constructor survives the exit path for every code *)
Theorem C10_guidance_inline : forall code m rcv nav,
  obj_get k_reason m = Some rcv -> obj_get k_actions m = Some nav ->
  exists m', add_default code (Some (JObj m)) = Some (JObj m') /\
             obj_get k_reason m' = Some rcv /\ obj_get k_actions m' = Some nav.
Proof. exact add_default_keeps_inline. Qed.
Print Assumptions C10_guidance_inline.

(* *_posix = companion with every backslash replaced by a slash *)
Theorem C10_posix : forall x,
  posix x = map (fun c => if c =? 92 then 47 else c) x /\ ~ In 92 (posix x) /\ posix (posix x) = posix x.
Proof. exact posix_spec. Qed.
Print Assumptions C10_posix.

(* MCP: isError = !ok, structuredContent = the envelope = the text content; same coherence *)
Theorem C10_mcp : forall m r,
  let e := mcp_envelope m r in
  let t := mcp_tool_result m r in
  t_is_error t = Some (negb (ok e)) /\ t_structured t = Some e /\ t_text t = e /\
  (ok e = true <-> errors e = []) /\
  (ok e = false -> data e = JObj [] /\ length (errors e) = 1%nat) /\
  command_id e = Some (m_id m) /\ command_path e = Some (m_path m).
Proof. exact mcp_wrapper. Qed.
Print Assumptions C10_mcp.

(* ---------- non-vacuity ---------- *)

Example C10_nonvacuous_wrapped_user_error :
  let m := mkMeta (s "deploy") [s "deploy"; s "--apply"] in
  let u := mkU (s "E_CONFIG_INVALID") (s "invalid config") (Some (JObj [(s "path", JStr (s "/x"))])) in
  let '(x, e) := of_result m (RErr (LOther (s "load manifest"), [LUser u])) in
  x = 1 /\ ok e = false /\ command_id e = Some (s "deploy --apply") /\
  match errors e with
  | [mkErr code _ (Some (JObj d))] =>
    code = s "E_CONFIG_INVALID" /\ obj_get (s "path") d = Some (JStr (s "/x")) /\
    obj_get k_reason d = Some (JStr (s "config_invalid")) /\ has_key k_actions d = true
  | _ => False
  end.
Proof. vm_compute. repeat split; reflexivity. Qed.

Example C10_nonvacuous_unexpected :
  let m := mkMeta (s "plan") [s "plan"] in
  snd (of_result m (RErr (LOther (s "boom"), []))) =
  envelope_err m (s "E_UNEXPECTED") (s "boom") None.
Proof. vm_compute. reflexivity. Qed.

Example C10_nonvacuous_posix : posix (s "C:\Users\a/b") = s "C:/Users/a/b".
Proof. vm_compute. reflexivity. Qed.

Example C10_nonvacuous_mcp_user :
  let m := mkMeta (s "deploy") [s "deploy"; s "--apply"] in
  let t := mcp_tool_result m (MUser (mkU (s "E_CONFIRM_TOKEN_REQUIRED") (s "x") None)) in
  t_is_error t = Some true /\ option_map ok (t_structured t) = Some false.
Proof. vm_compute. split; reflexivity. Qed.
