(* Props/C07.v — Apply and rollback stay consistent under crashes and I/O errors.
   Statements only; proofs in Proofs/CrashP.v.  [steps_of_apply f roots D pl] is the sequence of
   mutating filesystem operations of deploy --apply in the code's order (one element per fault
   point, including the three points inside one atomic write); [run_prefix k] performs the first k
   of them: the world after a process abort, or an injected I/O error, at fault point k.
   A crash is modelled at operation granularity (no torn single write, no lost rename). *)
From AP Require Import Base.Str Gen.Tables Model.Deploy Model.Crash Proofs.DeployP Proofs.ConvergeP Proofs.CrashP
  Proofs.RerunP Proofs.RerunCrashP Proofs.WfDec.
Open Scope N_scope.

(* the complete sequence computes exactly the files of apply_plan (ties the step model to the
   deploy model of C01-C06) *)
Theorem C07_refines_apply : forall w roots D pl q,
  cfiles (run (steps_of_apply (files w) roots D pl) (init_state (files w))) q =
  files (apply_plan KDeploy w roots D pl) q.
Proof. exact run_all_is_apply_plan. Qed.
Print Assumptions C07_refines_apply.

(* at every crash point every target-side file (deployed files and manifests) holds either its
   complete previous or its complete new content.  Hypotheses (visible): the plan addresses no
   path twice, roots have distinct manifests, no planned path is a root's manifest. *)
Theorem C07_old_or_new : forall w roots D pl,
  NoDup (map c_path pl) -> NoDup (map mf_path roots) ->
  (forall c r, In c pl -> In r roots -> c_path c <> mf_path r) ->
  forall k p,
  cfiles (run_prefix k (steps_of_apply (files w) roots D pl) (init_state (files w))) p = files w p \/
  cfiles (run_prefix k (steps_of_apply (files w) roots D pl) (init_state (files w))) p =
    files (apply_plan KDeploy w roots D pl) p.
Proof. intros w roots D pl H1 H2 H3 k p. exact (crash_old_or_new w roots D pl H1 H2 H3 k p). Qed.
Print Assumptions C07_old_or_new.

(* at every crash point a file whose previous content was replaced or removed has exactly that
   content in the snapshot's backup store *)
Theorem C07_backup_before_replace : forall w roots D pl,
  NoDup (map c_path pl) -> NoDup (map mf_path roots) ->
  (forall c r, In c pl -> In r roots -> c_path c <> mf_path r) ->
  (forall c, In c pl -> c_op c = PCreate -> files w (c_path c) = None) ->
  forall k p o, files w p = Some o ->
  cfiles (run_prefix k (steps_of_apply (files w) roots D pl) (init_state (files w))) p <> Some o ->
  cbackup (run_prefix k (steps_of_apply (files w) roots D pl) (init_state (files w))) p = Some o.
Proof. intros w roots D pl H1 H2 H3 H4 k p o. exact (crash_backup_before_replace w roots D pl H1 H2 H3 H4 k p o). Qed.
Print Assumptions C07_backup_before_replace.

(* the snapshot record becomes visible only with the very last operation: everything needed to
   roll back (all writes, all backups, the state copy of every desired file) is then on disk *)
Theorem C07_record_last : forall f roots D pl k,
  crecord (run_prefix k (steps_of_apply f roots D pl) (init_state f)) = true ->
  (length (steps_of_apply f roots D pl) <= k)%nat /\
  run_prefix k (steps_of_apply f roots D pl) (init_state f) = run (steps_of_apply f roots D pl) (init_state f).
Proof. exact crash_record_last. Qed.
Theorem C07_state_complete : forall D st d, In d D ->
  In (dtarget d, dpath d, FBytes (dcontent d)) (cstatef (run (state_steps D) st)).
Proof. exact state_steps_store. Qed.
Print Assumptions C07_record_last.
Print Assumptions C07_state_complete.

(* re-running after a crash: the crash state is just another world, so by C05 a successful re-run
   leaves every desired file with its rendered bytes (stated for an arbitrary world) *)
Theorem C07_rerun_converges_partial : forall st confirmed adopt flt w roots D pl w',
  deploy_cmd st confirmed adopt flt w roots D = (pl, (OApplied, w')) ->
  wfD roots D -> wfM D (managed_for_plan w roots flt) ->
  forall d, In d D -> files w' (dpath d) = Some (FBytes (dcontent d)).
Proof.
  intros st confirmed adopt flt w roots D pl w' H HD HM. exact (proj1 (deploy_converged _ _ _ _ _ _ _ _ _ H HD HM)).
Qed.
Print Assumptions C07_rerun_converges_partial.

(* THE RE-RUN, at full strength: from the state left by an interruption at ANY fault point k of the
   operation sequence (snapshot record not yet visible), re-running the same confirmed deploy
   succeeds — it applies, or finds nothing left to do — and ends in the final state of the
   uninterrupted run: every file that is not a manifest is identical, and every root's manifest
   lists exactly the same files (a manifest that lists nothing and an absent one both list nothing;
   generated_at / snapshot_id are not part of the model).  For every world, every desired state,
   every target filter, every k.  The three defects K7c, K7d, K7e repaired in /repo were each a
   counterexample to this statement. *)
Theorem C07_rerun_converges : forall w roots D flt k st adopt,
  wfD roots D -> wfM D (managed_for_plan w roots flt) ->
  let pl := plan (files w) D (managed_for_plan w roots flt) in
  (has_adopt pl = false \/ adopt = true) ->
  let w1 := apply_plan KDeploy w roots D pl in
  let wc := {| files := cfiles (run_prefix k (steps_of_apply (files w) roots D pl) (init_state (files w)));
               snaps := snaps w |} in
  let res := deploy_cmd st true adopt flt wc roots D in
  (fst (snd res) = OApplied \/ fst (snd res) = ONoChanges) /\
  (forall p, is_manifest_path p = false -> files (snd (snd res)) p = files w1 p) /\
  (forall r, In r roots ->
     forall tp, In tp (root_managed (files (snd (snd res))) r) <-> In tp (root_managed (files w1) r)).
Proof.
  intros w roots D flt k st adopt HD HM pl Hg w1 wc res.
  exact (rerun_after_crash w roots D flt HD HM k st adopt Hg).
Qed.
Print Assumptions C07_rerun_converges.

(* its hypotheses hold on a concrete plan with an update, a create and a delete (38 fault points);
   the re-run applies from every crash point but the last ones, where nothing is left to do *)
Example C07_rerun_nonvacuous :
  let r := Build_root (s "codex") [s "h"; s "p"] true in
  let pa := [s "h"; s "p"; s "a.md"] in let pb := [s "h"; s "p"; s "b.md"] in let pc := [s "h"; s "p"; s "c.md"] in
  let man := FMan (Parsed 1 (s "codex") [(s "a.md", 1); (s "c.md", 3)]) in
  let f : fs := upd (upd (upd (fun _ => None) (mf_path r) (Some man)) pa (Some (FBytes 1))) pc (Some (FBytes 3)) in
  let w := Build_world f [] in
  let D := [Build_dfile (s "codex") pa 9 []; Build_dfile (s "codex") pb 2 []] in
  let pl := plan f D (managed_for_plan w [r] None) in
  let out k := fst (snd (deploy_cmd SJsonYes true false None
                 {| files := cfiles (run_prefix k (steps_of_apply f [r] D pl) (init_state f)); snaps := [] |} [r] D)) in
  wfD_b [r] D = true /\ wfM_b D (managed_for_plan w [r] None) = true /\ has_adopt pl = false /\
  length (filter (fun k => match out k with OApplied => true | _ => false end) (seq 0 39)) = 22%nat /\
  length (filter (fun k => match out k with ONoChanges => true | _ => false end) (seq 0 39)) = 17%nat.
Proof. vm_compute. repeat split; reflexivity. Qed.

(* ... and "the same final state" cannot be strengthened to byte-identical manifest FILES: the
   faithful model refutes it (known finding K7f).  A root without outputs in which the interrupted
   deploy deleted the last recorded file gets an empty manifest from the uninterrupted run; the
   re-run finds nothing to do and writes none.  Both states list nothing for that root. *)
Example C07_rerun_files_refuted :
  let r := Build_root (s "codex") [s "h"; s "c"] false in
  let pp := [s "h"; s "c"; s "prompts"; s "p.md"] in
  let f : fs := upd (fun _ => None) pp (Some (FBytes 1)) in
  let S1 := {| sn_kind := KDeploy; sn_managed := [(s "codex", pp, 1)]; sn_changes := []; sn_to := None; sn_state := true |} in
  let w := Build_world f [S1] in
  let D : list dfile := [] in
  let pl := plan f D (managed_for_plan w [r] None) in
  let w1 := apply_plan KDeploy w [r] D pl in
  let wc := {| files := cfiles (run_prefix 6 (steps_of_apply f [r] D pl) (init_state f)); snaps := [S1] |} in
  let res := deploy_cmd SJsonYes true false None wc [r] D in
  map c_op pl = [PDelete] /\ fst (snd res) = ONoChanges /\
  files w1 (mf_path r) = Some (new_manifest r []) /\ files (snd (snd res)) (mf_path r) = None /\
  root_managed (files w1) r = [] /\ root_managed (files (snd (snd res))) r = [].
Proof. vm_compute. repeat split; reflexivity. Qed.

(* regression witness of the repaired defect K7c (/repo commit "a stale or unreadable target manifest
   is rewritten by the next deploy"): after a crash between the last file write and the manifest
   write the re-run used to find an empty plan and an existing (stale) manifest and took the
   no-change shortcut; with the repaired rule it applies once more and the manifest ends up exactly
   as after the uninterrupted run *)
Example C07_rerun_k7c_regression :
  let r := Build_root (s "codex") [s "h"; s "p"] true in
  let pa := [s "h"; s "p"; s "a.md"] in let pb := [s "h"; s "p"; s "b.md"] in
  let man := FMan (Parsed 1 (s "codex") [(s "a.md", 1)]) in
  let f : fs := upd (upd (fun _ => None) (mf_path r) (Some man)) pa (Some (FBytes 1)) in
  let w := Build_world f [] in
  let D := [Build_dfile (s "codex") pa 1 []; Build_dfile (s "codex") pb 2 []] in
  let pl := plan f D (managed_for_plan w [r] None) in
  let steps := steps_of_apply f [r] D pl in
  (* crash after b.md was renamed into place (7 operations), before the manifest is rewritten *)
  let wc := Build_world (cfiles (run_prefix 7 steps (init_state f))) [] in
  let rerun := deploy_cmd SJsonYes true false None wc [r] D in
  files wc pb = Some (FBytes 2) /\ files wc (mf_path r) = Some man /\
  fst rerun = [] /\ fst (snd rerun) = OApplied /\
  files (snd (snd rerun)) (mf_path r) = files (apply_plan KDeploy w [r] D pl) (mf_path r).
Proof. vm_compute. repeat split; reflexivity. Qed.

(* the same for a root that only has a legacy-named manifest and whose last file the interrupted
   deploy removed (defect K7d): the crash leaves the legacy manifest listing the removed file; the
   re-run finds an empty plan, and with the repaired rule still applies once and writes the empty
   preferred-name manifest the uninterrupted run would have written *)
Example C07_rerun_k7d_regression :
  let r := Build_root (s "codex") [s "h"; s "p"] true in
  let pa := [s "h"; s "p"; s "a.md"] in
  let man := FMan (Parsed 1 (s "codex") [(s "a.md", 1)]) in
  let f : fs := upd (upd (fun _ => None) (legacy_path r) (Some man)) pa (Some (FBytes 1)) in
  let w := Build_world f [] in
  let D : list dfile := [] in
  let pl := plan f D (managed_for_plan w [r] None) in
  let steps := steps_of_apply f [r] D pl in
  (* crash after a.md was removed (3 dirs + backup dir, backup, remove = 6 operations) *)
  let wc := Build_world (cfiles (run_prefix 6 steps (init_state f))) [] in
  let rerun := deploy_cmd SJsonYes true false None wc [r] D in
  map c_op pl = [PDelete] /\ files wc pa = None /\ files wc (mf_path r) = None /\
  fst rerun = [] /\ fst (snd rerun) = OApplied /\
  files (snd (snd rerun)) (mf_path r) = files (apply_plan KDeploy w [r] D pl) (mf_path r) /\
  files (snd (snd rerun)) (mf_path r) = Some (new_manifest r []).
Proof. vm_compute. repeat split; reflexivity. Qed.

(* defect K7e: the deploy empties the only root (its manifest is rewritten with no entries) while an
   earlier snapshot still lists a file of a nested root that is switched off now.  After a crash
   between that manifest write and the snapshot record the re-run used to find no manifest ENTRY,
   fall back to the earlier snapshot and delete the nested file, which the uninterrupted run leaves
   alone; with the repaired rule (a usable manifest that lists nothing is the record) the re-run
   is a no-op on the crash state and the nested file stays *)
Example C07_rerun_k7e_regression :
  let r := Build_root (s "codex") [s "h"; s "c"] false in
  let pa := [s "h"; s "c"; s "AGENTS.md"] in let ps := [s "h"; s "c"; s "skills"; s "x.md"] in
  let man := FMan (Parsed 1 (s "codex") [(s "AGENTS.md", 1)]) in
  let f : fs := upd (upd (upd (fun _ => None) (mf_path r) (Some man)) pa (Some (FBytes 1))) ps (Some (FBytes 2)) in
  let S1 := {| sn_kind := KDeploy; sn_managed := [(s "codex", pa, 1); (s "codex", ps, 2)]; sn_changes := [];
               sn_to := None; sn_state := true |} in
  let w := Build_world f [S1] in
  let D : list dfile := [] in
  let pl := plan f D (managed_for_plan w [r] None) in
  let steps := steps_of_apply f [r] D pl in
  let wc := Build_world (cfiles (run_prefix (length steps - 2) steps (init_state f))) [S1] in
  let rerun := deploy_cmd SJsonYes true false None wc [r] D in
  map c_op pl = [PDelete] /\ files wc pa = None /\ files wc (mf_path r) = Some (new_manifest r []) /\
  fst rerun = [] /\ fst (snd rerun) = ONoChanges /\
  files (snd (snd rerun)) ps = Some (FBytes 2) /\
  files (apply_plan KDeploy w [r] D pl) ps = Some (FBytes 2).
Proof. vm_compute. repeat split; reflexivity. Qed.

Example C07_nonvacuous :
  let r := Build_root (s "codex") [s "h"; s "p"] true in
  let pa := [s "h"; s "p"; s "a.md"] in let pb := [s "h"; s "p"; s "b.md"] in let pc := [s "h"; s "p"; s "c.md"] in
  let man := FMan (Parsed 1 (s "codex") [(s "a.md", 1); (s "c.md", 3)]) in
  let f : fs := upd (upd (upd (fun _ => None) (mf_path r) (Some man)) pa (Some (FBytes 1))) pc (Some (FBytes 3)) in
  let w := Build_world f [] in
  let D := [Build_dfile (s "codex") pa 9 []; Build_dfile (s "codex") pb 2 []] in
  let pl := plan f D (managed_for_plan w [r] None) in
  NoDup (map c_path pl) /\ map c_op pl = [PUpdate UManaged; PCreate; PDelete] /\
  length (steps_of_apply f [r] D pl) = 38%nat /\
  cbackup (run_prefix 6 (steps_of_apply f [r] D pl) (init_state f)) pa = Some (FBytes 1).
Proof.
  cbv zeta. split; [|vm_compute; repeat split; reflexivity].
  vm_compute. repeat constructor; simpl; intuition discriminate.
Qed.

(* ---------------- rollback ---------------- *)
(* the operation sequence of rollback (restores of the snapshot's files, then of its manifests,
   then the deletes, then the rollback record) computes exactly the rollback model *)
Theorem C07_rollback_refines : forall w id w' tgt cur h,
  nth_error (snaps w) id = Some tgt -> head_of (snaps w) = Some h -> nth_error (snaps w) h = Some cur ->
  rollback w id = (RbOk, w') ->
  forall q, cfiles (run (steps_of_rollback (files w) tgt cur) (init_state (files w))) q = files w' q.
Proof. exact run_all_is_rollback. Qed.
Print Assumptions C07_rollback_refines.

(* at every crash point of a rollback every file holds its previous or its final content *)
Theorem C07_rollback_old_or_new : forall f tgt cur k p,
  NoDup (map (fun e : str * path * N => snd (fst e)) (sn_managed tgt)) ->
  NoDup (map (fun e : str * path * N => snd (fst e)) (sn_managed cur)) ->
  (forall e, In e (sn_managed tgt) -> is_manifest_path (snd (fst e)) = false) ->
  (forall e, In e (sn_managed cur) -> is_manifest_path (snd (fst e)) = false) ->
  (forall e e', In e (sn_managed cur) -> In e' (sn_managed tgt) -> snd (fst e) = snd (fst e') -> fst (fst e) = fst (fst e')) ->
  NoDup (map a_path (filter (fun c => is_manifest_path (a_path c) && is_cu (a_op c)) (sn_changes tgt))) ->
  cfiles (run_prefix k (steps_of_rollback f tgt cur) (init_state f)) p = f p \/
  cfiles (run_prefix k (steps_of_rollback f tgt cur) (init_state f)) p =
    cfiles (run (steps_of_rollback f tgt cur) (init_state f)) p.
Proof. exact rollback_old_or_new. Qed.
Print Assumptions C07_rollback_old_or_new.

(* re-running rollback after an interruption at ANY fault point (record not yet visible): the same
   rollback succeeds again and produces, at every path, the content of the uninterrupted rollback *)
Theorem C07_rollback_rerun : forall w id tgt cur h w' k,
  nth_error (snaps w) id = Some tgt -> head_of (snaps w) = Some h -> nth_error (snaps w) h = Some cur ->
  rollback w id = (RbOk, w') ->
  NoDup (map (fun e : str * path * N => snd (fst e)) (sn_managed tgt)) ->
  NoDup (map (fun e : str * path * N => snd (fst e)) (sn_managed cur)) ->
  (forall e, In e (sn_managed tgt) -> is_manifest_path (snd (fst e)) = false) ->
  (forall e, In e (sn_managed cur) -> is_manifest_path (snd (fst e)) = false) ->
  (forall e e', In e (sn_managed cur) -> In e' (sn_managed tgt) -> snd (fst e) = snd (fst e') -> fst (fst e) = fst (fst e')) ->
  NoDup (map a_path (filter (fun c => is_manifest_path (a_path c) && is_cu (a_op c)) (sn_changes tgt))) ->
  let wc := {| files := cfiles (run_prefix k (steps_of_rollback (files w) tgt cur) (init_state (files w)));
               snaps := snaps w |} in
  exists w2, rollback wc id = (RbOk, w2) /\ forall p, files w2 p = files w' p.
Proof. exact rollback_rerun. Qed.
Print Assumptions C07_rollback_rerun.

(* the rollback record is written only after all restores and deletes *)
Theorem C07_rollback_record_last : forall f tgt cur k,
  crecord (run_prefix k (steps_of_rollback f tgt cur) (init_state f)) = true ->
  (length (steps_of_rollback f tgt cur) <= k)%nat.
Proof. exact rollback_record_last. Qed.
Print Assumptions C07_rollback_record_last.
