(* Props/C07.v — placeholder header; theorems added below once Proofs/CrashP.v is in place *)
From AP Require Import Base.Str Gen.Tables Model.Deploy Model.Crash.
Open Scope N_scope.
