(* Props/C09.v — Read-only and dry-run invocations leave everything untouched.
   Statements only; proofs in Proofs/DispatchP.v.  PARTIAL: the theorems are about the handler
   programs of Model/Dispatch.v (which steps write, under which flags, and where the report is
   computed).  That the real process leaves the config repo, the target roots, snapshots and logs
   byte-identical, and that the dry-run change list equals the real run's, is observed on the real
   binary by the correspondence check.  The deploy-specific dry-run theorem over the deploy model
   (plan contents) lives with that model (Model/Deploy.v), not here. *)
From AP Require Import Base.Str Model.Dispatch Proofs.DispatchP.
From AP Require Gen.Tables.
Open Scope N_scope.

(* the read-only list of the property is the catalogue (command_path in source) minus
   MUTATING_COMMAND_IDS; the two extra entries are exactly those that do not support --json *)
Theorem C09_readonly_list :
  (forall c, In c readonly_derived <-> In c readonly_expected) /\
  (forall c, In c (filter (fun c => mem_str c Gen.Tables.json_unsupported_ids) catalogue) <->
             In c [s "completions"; s "mcp serve"]).
Proof. exact (conj (set_eqb_iff _ _ readonly_list) (set_eqb_iff _ _ readonly_nojson)). Qed.
Print Assumptions C09_readonly_list.

(* any invocation whose command id is not a mutating id has no effects: every base command,
   every vector of the 24 flags / world facts, --yes or not, --json or not *)
Theorem C09_readonly_effects : forall base f,
  ~ In (cmd_id base f) Gen.Tables.mutating_ids -> effects base f = [].
Proof. exact readonly_no_effect. Qed.
Print Assumptions C09_readonly_effects.

(* every command that documents dry-run support: under --dry-run it writes nothing, is never
   refused, and computes the same reports (plan / candidates / missing list / rebase report) as
   the confirmed real run from the same world *)
Theorem C09_dry_run : forall base f, In base dry_capable -> f_dry f = true ->
  effects base f = [] /\
  r_out (exec base f) <> ORefused (cmd_id base f) /\
  reports base f = reports base (with_yes (with_dry false f)).
Proof. exact dry_run_identity. Qed.
Print Assumptions C09_dry_run.

(* per command (names of DESIGN §C09) *)
Theorem C09_dry_deploy : forall f, f_dry f = true ->
  effects (s "deploy") f = [] /\ reports (s "deploy") f = reports (s "deploy") (with_yes (with_dry false f)).
Proof. exact (dry_one _ in_dry_deploy). Qed.
Theorem C09_dry_import : forall f, f_dry f = true ->
  effects (s "import") f = [] /\ reports (s "import") f = reports (s "import") (with_yes (with_dry false f)).
Proof. exact (dry_one _ in_dry_import). Qed.
Theorem C09_dry_bootstrap : forall f, f_dry f = true ->
  effects (s "bootstrap") f = [] /\ reports (s "bootstrap") f = reports (s "bootstrap") (with_yes (with_dry false f)).
Proof. exact (dry_one _ in_dry_bootstrap). Qed.
Theorem C09_dry_rebase : forall f, f_dry f = true ->
  effects (s "overlay rebase") f = [] /\
  reports (s "overlay rebase") f = reports (s "overlay rebase") (with_yes (with_dry false f)).
Proof. exact (dry_one _ in_dry_rebase). Qed.
Theorem C09_dry_propose : forall f, f_dry f = true ->
  effects (s "evolve propose") f = [] /\
  reports (s "evolve propose") f = reports (s "evolve propose") (with_yes (with_dry false f)).
Proof. exact (dry_one _ in_dry_propose). Qed.
Theorem C09_dry_restore : forall f, f_dry f = true ->
  effects (s "evolve restore") f = [] /\
  reports (s "evolve restore") f = reports (s "evolve restore") (with_yes (with_dry false f)).
Proof. exact (dry_one _ in_dry_restore). Qed.
Print Assumptions C09_dry_deploy.
Print Assumptions C09_dry_import.
Print Assumptions C09_dry_bootstrap.
Print Assumptions C09_dry_rebase.
Print Assumptions C09_dry_propose.
Print Assumptions C09_dry_restore.

(* MCP tools with dry_run = true run the same handlers: nothing written, same reports *)
Theorem C09_dry_mcp : forall tool cid, In (tool, cid) Gen.Tables.mcp_mutating_tools ->
  forall b, mcp_base tool = Some b -> In b dry_capable ->
  forall yes w, effects b (mcp_facts yes true w) = [] /\
                reports b (mcp_facts yes true w) = reports b (with_yes (with_dry false (mcp_facts yes true w))).
Proof. exact dry_mcp. Qed.
Print Assumptions C09_dry_mcp.

(* ---------- non-vacuity ---------- *)

(* the real run of the same invocations does write: the dry-run theorems are not about inert programs *)
Example C09_nonvacuous :
  let real := with_yes (with_dry false f_all) in
  effects (s "deploy") real = [WTargets; WState] /\ reports (s "deploy") real = [RPlan] /\
  effects (s "bootstrap") real = [WTargets; WState] /\
  effects (s "evolve restore") real = [WTargets] /\ reports (s "evolve restore") real = [RMissing] /\
  effects (s "evolve propose") real = [WGit; WConfigRepo] /\
  effects (s "overlay rebase") real = [WConfigRepo] /\
  effects (s "import") real = [WConfigRepo] /\
  effects (s "deploy") (with_dry true f_all) = [] /\ reports (s "deploy") (with_dry true f_all) = [RPlan].
Proof. vm_compute. repeat split; reflexivity. Qed.

(* read-only ids: "deploy" without --apply, or with --apply --dry-run, is not a mutating id *)
Example C09_nonvacuous_readonly :
  cmd_id (s "deploy") (with_dry true f_all) = s "deploy" /\
  ~ In (s "deploy") Gen.Tables.mutating_ids /\
  cmd_id (s "deploy") f_all = s "deploy --apply" /\ In (s "deploy --apply") Gen.Tables.mutating_ids.
Proof.
  split; [vm_compute; reflexivity|]. split; [apply mem_str_notIn; vm_compute; reflexivity|].
  split; [vm_compute; reflexivity|]. apply mem_str_In; vm_compute; reflexivity.
Qed.

(* ---- content-level dry-run theorems over the deploy-core model (Model/Deploy.v) ---- *)
From AP Require Import Model.Deploy Proofs.DeployP Proofs.DryP.

(* deploy --apply --dry-run (and deploy without --apply): the world is unchanged and the change
   list reported is exactly the change list of the real run from the same state *)
Theorem C09_deploy_dry_content : forall json yes apply adopt flt w roots D,
  let dry := deploy_cli json yes apply true adopt flt w roots D in
  let real := deploy_cli json yes apply false adopt flt w roots D in
  snd dry = w /\ snd (fst dry) = None /\ fst (fst dry) = fst (fst real).
Proof. exact deploy_dry_content. Qed.
Print Assumptions C09_deploy_dry_content.

Theorem C09_deploy_without_apply : forall json yes dry adopt flt w roots D,
  deploy_cli json yes false dry adopt flt w roots D = (plan (files w) D (managed_for_plan w roots flt), None, w).
Proof. exact deploy_without_apply. Qed.
Print Assumptions C09_deploy_without_apply.

(* evolve restore --dry-run: nothing written, same item list as the real run; the real run writes
   exactly those items and nothing that exists *)
Theorem C09_restore_dry_content : forall f D,
  snd (restore_cli true f D) = f /\ fst (restore_cli true f D) = fst (restore_cli false f D) /\
  (forall d, In d (fst (restore_cli false f D)) -> f (dpath d) = None) /\
  (forall p, f p <> None -> snd (restore_cli false f D) p = f p).
Proof. exact restore_dry_content. Qed.
Print Assumptions C09_restore_dry_content.
