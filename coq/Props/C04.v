(* Props/C04.v — Apply performs exactly the previewed plan and never leaks across targets.
   Statements only; proofs in Proofs/DeployP.v.  plan / preview / deploy (dry) / deploy --apply all
   go through [deploy_cmd]'s first component (one function: read_only_context_in). *)
From AP Require Import Base.Str Gen.Tables Model.Deploy Proofs.DeployP Proofs.RerunP Proofs.DeployEchoP.
Open Scope N_scope.

(* whatever changes on disk is a path of the announced plan or a per-root manifest of a root of
   this run (snapshots live in the separate [snaps] component) *)
Theorem C04_apply_exact :
  forall st confirmed adopt flt w roots D pl out w' p,
  deploy_cmd st confirmed adopt flt w roots D = (pl, (out, w')) ->
  files w' p <> files w p ->
  out = OApplied /\ ((exists c, In c pl /\ c_path c = p) \/ (exists r, In r roots /\ p = mf_path r)).
Proof.
  intros st confirmed adopt flt w roots D pl out w' p H Hne. unfold deploy_cmd in H.
  inversion H as [[Hpl Hd]]. clear H.
  apply deploy_apply_in_cases in Hd as [[_ ->]|(-> & -> & _)]; [contradiction|].
  split; [reflexivity|]. rewrite Hpl in *. eapply apply_plan_exact. exact Hne.
Qed.
Print Assumptions C04_apply_exact.

(* every announced change carries the true before-content; creates/updates carry the desired bytes *)
Theorem C04_before_true : forall f D M c, In c (plan f D M) -> c_before c = f (c_path c).
Proof. exact plan_before. Qed.
Print Assumptions C04_before_true.

(* an announced change is a function of ITS OWN path's content (with the desired state and the managed set): two
   disks that agree on that path announce the same change for it — nothing about sibling paths, parent directories or
   the order of planning enters (no "known-absent directory" shortcut can be sound unless it is a component prefix) *)
Theorem C04_change_depends_on_own_path : forall f g D M c,
  In c (plan f D M) -> g (c_path c) = f (c_path c) -> In c (plan g D M).
Proof.
  intros f g D M c Hc E. apply in_plan in Hc as [[d [Hd Hc]]|[tp [Htp Hc]]]; apply in_plan.
  - left. exists d. split; [exact Hd|].
    pose proof (in_plan_desired _ _ _ _ Hc) as (_ & Hp & _). rewrite Hp in E.
    rewrite (plan_desired_ext f g M d E). exact Hc.
  - right. exists tp. split; [exact Htp|].
    pose proof (in_plan_managed _ _ _ _ Hc) as (_ & Hp & _). rewrite Hp in E.
    rewrite (plan_managed_ext f g D tp E). exact Hc.
Qed.
Print Assumptions C04_change_depends_on_own_path.

(* and every announced change is realised with its announced after-content (when the plan does not
   address one path twice — possible only if two targets' roots coincide) *)
Theorem C04_realised :
  forall st confirmed adopt flt w roots D pl w' c,
  deploy_cmd st confirmed adopt flt w roots D = (pl, (OApplied, w')) ->
  NoDup (map c_path pl) -> In c pl -> (forall r, In r roots -> mf_path r <> c_path c) ->
  files w' (c_path c) = after_obj c.
Proof.
  intros st confirmed adopt flt w roots D pl w' c H Hnd Hc Hr. unfold deploy_cmd in H.
  inversion H as [[Hpl Hd]]. clear H.
  apply deploy_apply_in_cases in Hd as [[Hx _]|(_ & -> & _)]; [contradiction|].
  rewrite Hpl in *. apply apply_plan_realised; auto.
  intros Hop. subst pl. eapply plan_after_ok; eauto.
Qed.
Print Assumptions C04_realised.

(* target isolation: with a filter, every planned change belongs to the selected target, and the
   only manifests written are those of the selected target's roots *)
Theorem C04_target_isolation :
  forall st confirmed adopt flt w roots D pl out w' p,
  (forall d, In d D -> passes flt (dtarget d) = true) ->
  (forall r, In r roots -> passes flt (rtarget r) = true) ->
  deploy_cmd st confirmed adopt flt w roots D = (pl, (out, w')) ->
  files w' p <> files w p ->
  (exists c, In c pl /\ c_path c = p /\ passes flt (c_target c) = true) \/
  (exists r, In r roots /\ p = mf_path r /\ passes flt (rtarget r) = true).
Proof.
  intros st confirmed adopt flt w roots D pl out w' p HD HR H Hne.
  destruct (C04_apply_exact _ _ _ _ _ _ _ _ _ _ _ H Hne) as [_ [[c [Hc Hp]]|[r [Hr Hp]]]].
  - left. exists c. repeat split; auto. unfold deploy_cmd in H. inversion H as [[Hpl Hd]]. subst pl.
    apply plan_origin in Hc as [[d (Hd' & Ht & _)]|[HM _]].
    + rewrite Ht. apply HD. exact Hd'.
    + apply managed_for_plan_pass in HM. exact HM.
  - right. exists r. auto.
Qed.
Print Assumptions C04_target_isolation.

(* the plan echoed by deploy (with or without --apply, confirmed or not, any style, any --adopt) is
   the plan that plan / preview compute on the same state *)
Theorem C04_echo_is_preview : forall st confirmed adopt flt w roots D,
  fst (deploy_cmd st confirmed adopt flt w roots D) = plan (files w) D (managed_for_plan w roots flt).
Proof. exact echo_is_preview. Qed.
Print Assumptions C04_echo_is_preview.

(* agentpack's own snapshot directory: a deploy that does not apply leaves the whole world as it
   is; one that applies appends exactly ONE record (kind deploy, recording the desired state it
   deployed) and keeps every earlier record unchanged and in place *)
Theorem C04_snapshots_append_one : forall st confirmed adopt flt w roots D pl out w',
  deploy_cmd st confirmed adopt flt w roots D = (pl, (out, w')) ->
  (out <> OApplied /\ w' = w) \/
  (out = OApplied /\ exists rec, snaps w' = snaps w ++ [rec] /\ sn_kind rec = KDeploy /\
                                 sn_managed rec = map (fun d => (dtarget d, dpath d, dcontent d)) D /\
                                 sn_to rec = None).
Proof. exact deploy_snapshots. Qed.
Print Assumptions C04_snapshots_append_one.

Example C04_nonvacuous :
  let rc := Build_root (s "codex") [s "h"; s "codex"] false in
  let rz := Build_root (s "zed") [s "h"; s "zed"] false in
  let pa := [s "h"; s "codex"; s "a.md"] in let pz := [s "h"; s "zed"; s "z.md"] in
  let f : fs := upd (fun _ => None) pz (Some (FBytes 9)) in
  let w := Build_world f [] in
  let D := [Build_dfile (s "codex") pa 2 []] in
  let r := deploy_cmd SJsonYes true false (Some (s "codex")) w [rc] D in
  fst (snd r) = OApplied /\ map c_path (fst r) = [pa] /\
  files (snd (snd r)) pa = Some (FBytes 2) /\ files (snd (snd r)) pz = Some (FBytes 9) /\
  files (snd (snd r)) (mf_path rz) = None.
Proof. vm_compute. repeat split; reflexivity. Qed.

(* both branches of C04_snapshots_append_one occur: the confirmed run appends one record, the
   unconfirmed one is refused and leaves the (empty) record list alone *)
Example C04_snapshots_nonvacuous :
  let rc := Build_root (s "codex") [s "h"; s "codex"] false in
  let pa := [s "h"; s "codex"; s "a.md"] in
  let w := Build_world (fun _ => None) [] in
  let D := [Build_dfile (s "codex") pa 2 []] in
  length (snaps (snd (snd (deploy_cmd SJsonYes true false None w [rc] D)))) = 1%nat /\
  fst (snd (deploy_cmd SJsonYes false false None w [rc] D)) = OErr code_confirm_required /\
  length (snaps (snd (snd (deploy_cmd SJsonYes false false None w [rc] D)))) = 0%nat.
Proof. vm_compute. repeat split; reflexivity. Qed.
