(* Props/C15.v — A file agentpack wrote stays tracked as managed until agentpack removes it.
   Statements only; proofs in Proofs/LedgerP.v.  Each theorem is about ONE deploy from an
   arbitrary world (so it applies at every deploy step of every history, with any filter/profile:
   [roots]/[D] are the render result for the selected targets); hypotheses wfD/wfM as in C05. *)
From AP Require Import Base.Str Gen.Tables Model.Deploy Model.Crash Proofs.DeployP Proofs.ConvergeP Proofs.LedgerP Proofs.RollbackP Proofs.HistoryP
  Proofs.CrashP Proofs.RerunP Proofs.RerunCrashP Proofs.ConsequencesP Proofs.BootstrapP.
From AP Require Import Model.Status Proofs.NotExtraP.
From AP Require Model.Render Proofs.RootsIndepP.
Open Scope N_scope.

(* every desired file — written by this deploy or found byte-identical — is listed by the manifest
   of its best root afterwards *)
Theorem C15_written_is_listed : forall w roots D flt d i r,
  wfD roots D -> wfM D (managed_for_plan w roots flt) ->
  In d D -> best_root_idx roots (dtarget d) (dpath d) = Some i -> nth_error roots i = Some r ->
  let w' := apply_plan KDeploy w roots D (plan (files w) D (managed_for_plan w roots flt)) in
  In (dkey d) (root_managed (files w') r).
Proof. intros w roots D flt d i r HD HM. exact (written_is_listed w roots D flt HD HM d i r). Qed.
Print Assumptions C15_written_is_listed.

(* continuity across a deploy: a file recorded by a root of this run that still exists afterwards
   is still recorded (so its next source change is a managed update, its removal a delete, and
   status does not call it extra) *)
Theorem C15_continuity_partial : forall w roots D flt r tp,
  wfD roots D -> wfM D (managed_for_plan w roots flt) ->
  In r roots -> passes flt (rtarget r) = true -> In tp (root_managed (files w) r) ->
  let w' := apply_plan KDeploy w roots D (plan (files w) D (managed_for_plan w roots flt)) in
  files w' (snd tp) <> None ->
  exists d i r', In d D /\ dkey d = tp /\ best_root_idx roots (dtarget d) (dpath d) = Some i /\
                 nth_error roots i = Some r' /\ In tp (root_managed (files w') r').
Proof. intros w roots D flt r tp HD HM. exact (tracking_continues w roots D flt HD HM r tp). Qed.
Print Assumptions C15_continuity_partial.

(* converse, full strength: a manifest (re)written by a deploy lists only desired files, and each of
   them holds exactly its desired bytes (agentpack wrote it or found it byte-identical) *)
Theorem C15_listed_is_desired : forall w roots D flt i r tp,
  wfD roots D -> wfM D (managed_for_plan w roots flt) ->
  let w' := apply_plan KDeploy w roots D (plan (files w) D (managed_for_plan w roots flt)) in
  nth_error roots i = Some r -> files w' (mf_path r) <> files w (mf_path r) ->
  In tp (root_managed (files w') r) ->
  exists d, In d D /\ dkey d = tp /\ files w' (dpath d) = Some (FBytes (dcontent d)).
Proof. intros w roots D flt i r tp HD HM. exact (listed_is_desired w roots D flt HD HM i r tp). Qed.
Print Assumptions C15_listed_is_desired.

(* continuity over HISTORIES of plain deploys (no filter, no adopt, new outputs created) and user
   drift on managed files, from any applied deploy after which every root has a manifest: the
   managed set is at every point exactly the key set of the last applied desired state, which is
   well-formed, and every root keeps its manifest — so each file agentpack wrote and has not deleted
   stays recorded, and nothing else is *)
Theorem C15_history_continuity : forall st confirmed adopt w0 roots DS pl wS h,
  deploy_cmd st confirmed adopt None w0 roots DS = (pl, (OApplied, wS)) ->
  wfD roots DS -> wfM DS (managed_for_plan w0 roots None) -> covered roots DS ->
  all_manifests roots (files wS) -> hist_ok roots wS h ->
  exists Dh, wfD roots Dh /\
             (forall tp, In tp (managed_for_plan (run_hist roots wS h) roots None) <-> mem_key tp Dh = true) /\
             all_manifests roots (files (run_hist roots wS h)).
Proof. exact history_managed_exact. Qed.
Print Assumptions C15_history_continuity.

(* the full invariant (over deploy AND bootstrap) is refuted by the faithful model: bootstrap shares
   the codex skills root with deploy and rewrites the manifest from its own desired state only *)
(* ... and across rollback: after any plain history, rollback to S brings back, for every root,
   exactly the listing S's deploy had written and every file of S's desired state — what rollback
   re-creates is tracked again, what it deletes is no longer listed (corollary of the C06 history
   theorem: the whole disk equals the disk right after S) *)
Theorem C15_rollback_continuity : forall st confirmed adopt w0 roots DS pl wS h,
  deploy_cmd st confirmed adopt None w0 roots DS = (pl, (OApplied, wS)) ->
  wfD roots DS -> wfM DS (managed_for_plan w0 roots None) -> covered roots DS ->
  all_manifests roots (files wS) ->
  hist_ok roots wS h ->
  (forall cur init, snaps (run_hist roots wS h) = init ++ [cur] ->
     forall e e', In e (sn_managed cur) -> In e' (triples DS) -> mpath e = mpath e' -> mtp e = mtp e') ->
  exists w', rollback (run_hist roots wS h) (length (snaps w0)) = (RbOk, w') /\
    (forall r, root_managed (files w') r = root_managed (files wS) r) /\
    (forall d, In d DS -> files w' (dpath d) = Some (FBytes (dcontent d))).
Proof.
  intros st confirmed adopt w0 roots DS pl wS h Hdep HD HM Hcov Hall Hok Hcompat.
  destruct (rollback_inverts_history st confirmed adopt w0 roots DS pl wS h Hdep HD HM Hcov Hall Hok Hcompat) as [w' [Hrb Hf]].
  exists w'. split; [exact Hrb|]. split.
  - intros r. unfold root_managed. rewrite (read_manifest_ext (files w') (files wS) r (fun q _ => Hf q)). reflexivity.
  - intros d Hd. rewrite Hf. exact (proj1 (deploy_converged _ _ _ _ _ _ _ _ _ Hdep HD HM) d Hd).
Qed.
Print Assumptions C15_rollback_continuity.

(* records follow the writes, also under interruption: at ANY fault point of deploy --apply, if some
   root's manifest no longer holds its previous content then every desired file already holds its
   rendered bytes and every recorded, no-longer-desired file is already gone — a manifest never
   lists a file agentpack has not written (or found identical) yet *)
Theorem C15_records_follow_writes : forall w roots D flt k r,
  wfD roots D -> wfM D (managed_for_plan w roots flt) -> In r roots ->
  let pl := plan (files w) D (managed_for_plan w roots flt) in
  let st := run_prefix k (steps_of_apply (files w) roots D pl) (init_state (files w)) in
  cfiles st (mf_path r) <> files w (mf_path r) ->
  (forall d, In d D -> cfiles st (dpath d) = Some (FBytes (dcontent d))) /\
  (forall t p, In (t, p) (managed_for_plan w roots flt) -> mem_key (t, p) D = false -> cfiles st p = None).
Proof. intros w roots D flt k r HD HM Hr pl st. exact (records_follow_writes w roots D flt HD HM k r Hr). Qed.
Print Assumptions C15_records_follow_writes.

(* "Consequently a later change of its source is planned as a managed update rather than demanded as an adopt,
   its removal from the configuration is planned as a delete": for EVERY disk, desired state and managed set —
   in particular M = managed_for_plan w roots flt — a recorded (target, path) ... *)
Theorem C15_recorded_consequences : forall f D M tp,
  In tp M ->
  (forall d o, In d D -> dkey d = tp -> f (dpath d) = Some o -> o <> FBytes (dcontent d) ->
     In (Build_change (dtarget d) (PUpdate UManaged) (dpath d) (Some o) (Some (dcontent d))) (plan f D M)) /\
  (forall o, mem_key tp D = false -> f (snd tp) = Some o ->
     In (Build_change (fst tp) PDelete (snd tp) (Some o) None) (plan f D M)).
Proof. exact recorded_consequences. Qed.
Print Assumptions C15_recorded_consequences.

Theorem C15_recorded_never_adopt : forall f D M c,
  In c (plan f D M) -> In (c_target c, c_path c) M -> c_op c <> PUpdate UAdopt.
Proof. exact recorded_never_adopt. Qed.
Print Assumptions C15_recorded_never_adopt.

(* ... and a record is only consulted when its root is among the roots of the run (C02_managed_from_records).  The
   roots are a function of the environment and the selected target sections alone (render side, Model/Render.v):
   removing, disabling or de-selecting modules never takes a root — and with it its manifest — out of sight. *)
Theorem C15_roots_do_not_depend_on_modules : forall c c' e prof prof' filt D R D' R',
  Render.selected_targets c filt = Render.selected_targets c' filt ->
  Render.render c e prof filt = Render.Ok (D, R) -> Render.render c' e prof' filt = Render.Ok (D', R') -> R = R'.
Proof. exact RootsIndepP.render_roots_same_targets. Qed.
Print Assumptions C15_roots_do_not_depend_on_modules.

Theorem C15_roots_of_targets : forall c e prof filt D R,
  Render.render c e prof filt = Render.Ok (D, R) ->
  exists ts, Render.selected_targets c filt = Render.Ok ts /\ R = Render.dedup_roots (Render.all_roots e [] ts).
Proof. exact RootsIndepP.render_roots_of_targets. Qed.
Print Assumptions C15_roots_of_targets.

(* the other entry points of the shared apply path: an applied bootstrap (also `init --bootstrap`: the same apply with
   the same snapshot kind) lists every operator file of its desired state in the manifest of its best root *)
Theorem C15_bootstrap_written_is_listed : forall w roots D pl w' d i r,
  wfD roots D ->
  bootstrap_cmd w roots D = (pl, w') -> pl <> [] ->
  In d D -> best_root_idx roots (dtarget d) (dpath d) = Some i -> nth_error roots i = Some r ->
  In (dkey d) (root_managed (files w') r).
Proof. exact bootstrap_written_is_listed. Qed.
Print Assumptions C15_bootstrap_written_is_listed.

(* the last consequence: "status does not list it as extra".  For every disk, universe of paths,
   roots and desired state: a status item for a still-desired file that is recorded by the root it
   is reported under (each root of that directory and target records it) is never of kind extra —
   it can only be modified or missing *)
Theorem C15_recorded_not_extra : forall f U roots D it tp d,
  In it (report f U roots D) ->
  i_target it = fst tp -> i_path it = snd tp -> find_desired D tp = Some d ->
  (forall r, In r roots -> i_root it = Some (rpath r) -> rtarget r = fst tp -> In tp (root_managed f r)) ->
  i_kind it <> DExtra.
Proof. exact recorded_desired_not_extra. Qed.
Print Assumptions C15_recorded_not_extra.

(* its hypotheses are met by a real report item: a recorded, desired file the user edited is
   reported once, as modified *)
Example C15_not_extra_nonvacuous :
  let r := Build_root (s "codex") [s "h"; s "codex"] false in
  let pa := [s "h"; s "codex"; s "a.md"] in
  let f : fs := upd (upd (fun _ => None) (mf_path r) (Some (FMan (Parsed 1 (s "codex") [(s "a.md", 1)])))) pa (Some (FBytes 5)) in
  let D := [Build_dfile (s "codex") pa 1 []] in
  map (fun it => (i_kind it, i_target it, i_path it, i_root it)) (report f [pa] [r] D)
    = [(DModified, s "codex", pa, Some (rpath r))] /\
  root_managed f r = [(s "codex", pa)] /\ find_desired D (s "codex", pa) = Some (Build_dfile (s "codex") pa 1 []).
Proof. vm_compute. repeat split; reflexivity. Qed.

Example C15_continuity_refuted :
  let r := Build_root (s "codex") [s "h"; s "skills"] true in
  let ps := [s "h"; s "skills"; s "mine"; s "SKILL.md"] in
  let po := [s "h"; s "skills"; s "agentpack-operator"; s "SKILL.md"] in
  let w0 := Build_world (fun _ => None) [] in
  let w1 := snd (snd (deploy_cmd SJsonYes true false None w0 [r] [Build_dfile (s "codex") ps 1 []])) in
  let w2 := snd (bootstrap_cmd w1 [r] [Build_dfile (s "codex") po 2 []]) in
  In (s "codex", ps) (root_managed (files w1) r) /\ files w2 ps = Some (FBytes 1) /\
  ~ In (s "codex", ps) (root_managed (files w2) r).
Proof.
  cbv zeta. split; [vm_compute; auto|]. split; [vm_compute; reflexivity|].
  vm_compute. intros [H|[]]. discriminate.
Qed.

Example C15_nonvacuous :
  let r1 := Build_root (s "codex") [s "h"; s "codex"] false in
  let r2 := Build_root (s "codex") [s "h"; s "codex"; s "prompts"] true in
  let pb := [s "h"; s "codex"; s "prompts"; s "b.md"] in
  let w0 := Build_world (fun _ => None) [] in
  let w1 := snd (snd (deploy_cmd SJsonYes true false None w0 [r1; r2] [Build_dfile (s "codex") pb 1 []])) in
  let w2 := snd (snd (deploy_cmd SJsonYes true false None w1 [r1; r2] [Build_dfile (s "codex") pb 2 []])) in
  root_managed (files w1) r2 = [(s "codex", pb)] /\ root_managed (files w2) r2 = [(s "codex", pb)] /\
  map c_op (fst (deploy_cmd SJsonYes true false None w1 [r1; r2] [Build_dfile (s "codex") pb 2 []])) = [PUpdate UManaged] /\
  map c_op (fst (deploy_cmd SJsonYes true false None w1 [r1; r2] [])) = [PDelete].
Proof. vm_compute. repeat split; reflexivity. Qed.
