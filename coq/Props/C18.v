(* Props/C18.v — The lockfile is reproducible and its hashes are enforced.
   Statements only (proofs in Proofs/LockP.v, counterexamples in Proofs/LockWitness.v).

   SHA-256 is never evaluated: [sha] (file bytes -> hex) and [sha_text] (manifest text -> hex) are
   universally quantified functions, and what a theorem needs of them is a visible premise:
   [sha_ok] (the output is 64 lowercase hex digits) and injectivity ON THE INPUTS AT HAND. *)
From AP Require Import Base.Str Base.Sorting Model.Lock Proofs.LockP Proofs.LockWitness.
From Coq Require Import Sorting.Sorted Sorting.Permutation Lia ZifyBool.
Open Scope N_scope.

(* ---- the manifest encoding fed to the module hasher is injective (a prefix code) ----
   entry_ok e = no newline in e_path e /\ e_sha e is 64 lowercase hex digits; sizes are numbers,
   rendered in decimal by the model.  Holds for ALL entry lists, in particular the sorted
   duplicate-free ones hash_tree produces. *)
Theorem C18_encode_inj : forall l1 l2 : list entry,
  Forall entry_ok l1 -> Forall entry_ok l2 -> encode_tree l1 = encode_tree l2 -> l1 = l2.
Proof. exact encode_tree_inj. Qed.
Print Assumptions C18_encode_inj.

(* ... and without the no-newline condition it is not (known class K18a): two different sorted,
   duplicate-free entry lists with well-formed hashes and the same encoding *)
Theorem C18_encode_refuted :
  exists l1 l2, sorted_nodup l1 /\ sorted_nodup l2 /\ sha_fields_ok l1 /\ sha_fields_ok l2 /\
                l1 <> l2 /\ encode_tree l1 = encode_tree l2.
Proof. exact encode_refuted. Qed.
Print Assumptions C18_encode_refuted.

(* K18a at the level of trees and for every hash function with hex output: the two-file tree
   {SKILL.md, z.txt} and the one-file tree whose file is named
   "SKILL.md\n<sha(SKILL.md)>\n6\nz.txt" have different content, different entry lists and the
   same module hash — with no SHA-256 collision involved *)
Theorem C18_hash_iff_refuted : forall (sha : list N -> str) (sha_text : str -> str),
  sha_ok sha ->
  NoDup (shown_paths [] wit_files1) /\ NoDup (shown_paths [] (wit_files2 sha)) /\
  ~ same_content (tree_content [] wit_files1) (tree_content [] (wit_files2 sha)) /\
  hash_tree_entries sha [] wit_files1 <> hash_tree_entries sha [] (wit_files2 sha) /\
  module_hash sha sha_text [] (NDir wit_files1) = module_hash sha sha_text [] (NDir (wit_files2 sha)).
Proof. exact module_hash_collision. Qed.
Print Assumptions C18_hash_iff_refuted.

(* ---- a module's hash changes iff some (relative path, bytes) pair outside `.git` changes ----
   [tree_content root files] = the (rendered relative path, bytes) pairs of the files without a
   `.git` component.  Premises: the hex format, SHA-256 injective on the two manifests and on the
   file contents of the two trees, no rendered path contains a newline (not K18a), and the
   rendered paths of one tree are pairwise distinct (not K18b/c, see C18_render_inj). *)
Theorem C18_hash_iff_rendered : forall (sha : list N -> str) (sha_text : str -> str)
    (root1 : list str) (files1 : list file) (root2 : list str) (files2 : list file),
  sha_ok sha ->
  (forall a b, a = encode_tree (hash_tree_entries sha root1 files1) ->
               b = encode_tree (hash_tree_entries sha root2 files2) ->
               sha_text a = sha_text b -> a = b) ->
  sha_inj_on sha (tree_content root1 files1) (tree_content root2 files2) ->
  paths_nl_free root1 files1 -> paths_nl_free root2 files2 ->
  NoDup (shown_paths root1 files1) -> NoDup (shown_paths root2 files2) ->
  (module_hash sha sha_text root1 (NDir files1) = module_hash sha sha_text root2 (NDir files2) <->
   same_content (tree_content root1 files1) (tree_content root2 files2)).
Proof. exact module_hash_iff. Qed.
Print Assumptions C18_hash_iff_rendered.

(* the same for "plain" trees: hashed files have pairwise distinct relative paths whose components
   are non-empty and contain no '/', '\', newline, ill-formed UTF-8 or U+FFFD *)
Theorem C18_hash_iff_plain : forall (sha : list N -> str) (sha_text : str -> str)
    (root1 : list str) (files1 : list file) (root2 : list str) (files2 : list file),
  sha_ok sha ->
  (forall a b, a = encode_tree (hash_tree_entries sha root1 files1) ->
               b = encode_tree (hash_tree_entries sha root2 files2) ->
               sha_text a = sha_text b -> a = b) ->
  sha_inj_on sha (tree_content root1 files1) (tree_content root2 files2) ->
  tree_plain root1 files1 -> tree_plain root2 files2 ->
  (module_hash sha sha_text root1 (NDir files1) = module_hash sha sha_text root2 (NDir files2) <->
   same_content (tree_content root1 files1) (tree_content root2 files2)).
Proof. exact module_hash_iff_plain. Qed.
Print Assumptions C18_hash_iff_plain.

(* the same with the known classes as hypotheses.  K18a / K18b / K18c root files = some hashed
   file has a path component containing a newline / a backslash / ill-formed UTF-8 or U+FFFD;
   wf_walk = what any directory walk guarantees (non-empty names without '/', no path twice) *)
Theorem C18_hash_iff_partial : forall (sha : list N -> str) (sha_text : str -> str)
    (root1 : list str) (files1 : list file) (root2 : list str) (files2 : list file),
  sha_ok sha ->
  (forall a b, a = encode_tree (hash_tree_entries sha root1 files1) ->
               b = encode_tree (hash_tree_entries sha root2 files2) ->
               sha_text a = sha_text b -> a = b) ->
  sha_inj_on sha (tree_content root1 files1) (tree_content root2 files2) ->
  wf_walk root1 files1 -> wf_walk root2 files2 ->
  ~ K18a root1 files1 -> ~ K18b root1 files1 -> ~ K18c root1 files1 ->
  ~ K18a root2 files2 -> ~ K18b root2 files2 -> ~ K18c root2 files2 ->
  (module_hash sha sha_text root1 (NDir files1) = module_hash sha sha_text root2 (NDir files2) <->
   same_content (tree_content root1 files1) (tree_content root2 files2)).
Proof. exact module_hash_iff_known. Qed.
Print Assumptions C18_hash_iff_partial.

(* ---- path rendering (to_string_lossy + '\' -> '/') is injective on plain relative paths ---- *)
Theorem C18_render_inj : forall p q : list str,
  rel_plain p -> rel_plain q -> render_rel p = render_rel q -> p = q.
Proof. exact render_rel_inj. Qed.
Print Assumptions C18_render_inj.

(* ... and not in general: `a\b` renders like a/b (K18b); two ill-formed names render alike (K18c) *)
Theorem C18_render_refuted :
  (exists p q, p <> q /\ render_rel p = render_rel q /\ Forall (fun c => ~ In 47 c /\ c <> []) (p ++ q)) /\
  (exists a b, a <> b /\ render_rel [a] = render_rel [b] /\ ~ In 47 a /\ ~ In 92 a /\ ~ In 47 b /\ ~ In 92 b).
Proof. exact render_refuted. Qed.
Print Assumptions C18_render_refuted.

(* ---- order independence: the entry list (hence the hash and the lockfile's file_manifest) does
   not depend on the order in which the directory walk yields the files ---- *)
Theorem C18_order : forall (sha : list N -> str) (root : list str) (files files' : list file),
  NoDup (shown_paths root files) -> Permutation files files' ->
  hash_tree_entries sha root files' = hash_tree_entries sha root files.
Proof. exact entries_order. Qed.
Print Assumptions C18_order.

Theorem C18_order_plain : forall (sha : list N -> str) (root : list str) (files files' : list file),
  tree_plain root files -> Permutation files files' ->
  hash_tree_entries sha root files' = hash_tree_entries sha root files.
Proof. exact entries_order_plain. Qed.
Print Assumptions C18_order_plain.

Theorem C18_order_partial : forall (sha : list N -> str) (root : list str) (files files' : list file),
  wf_walk root files -> ~ K18a root files -> ~ K18b root files -> ~ K18c root files ->
  Permutation files files' ->
  hash_tree_entries sha root files' = hash_tree_entries sha root files.
Proof. exact entries_order_known. Qed.
Print Assumptions C18_order_partial.

(* without distinct rendered paths (K18b) the stable sort keeps the walk order *)
Theorem C18_order_refuted :
  exists (sha : list N -> str) files files',
    Permutation files files' /\ NoDup (map fst files) /\
    hash_tree_entries sha [] files <> hash_tree_entries sha [] files'.
Proof. exact order_refuted. Qed.
Print Assumptions C18_order_refuted.

(* the entry list is sorted by path and duplicate-free *)
Theorem C18_entries_sorted : forall (sha : list N -> str) (root : list str) (files : list file),
  NoDup (shown_paths root files) -> sorted_nodup (hash_tree_entries sha root files).
Proof. exact entries_sorted_nodup. Qed.
Print Assumptions C18_entries_sorted.

(* ---- version-control metadata ---- *)
(* exactly the files with no `.git` component on their root-prefixed path are hashed *)
Theorem C18_vcs_excluded : forall (sha : list N -> str) (root : list str) (files : list file) (e : entry),
  In e (hash_tree_entries sha root files) <->
  exists f, In f files /\ has_git (root ++ fst f) = false /\ e = entry_of sha f.
Proof. exact entries_in. Qed.
Print Assumptions C18_vcs_excluded.

(* trees that differ only below `.git` directories (any depth) have the same entries *)
Theorem C18_vcs_only : forall (sha : list N -> str) (root : list str) (files files' : list file),
  filter (fun f => negb (has_git (fst f))) files = filter (fun f => negb (has_git (fst f))) files' ->
  has_git root = false ->
  hash_tree_entries sha root files = hash_tree_entries sha root files'.
Proof. exact entries_vcs_only. Qed.
Print Assumptions C18_vcs_only.

(* the filter looks at the absolute path: a module root below a directory named `.git` hashes to
   the empty manifest whatever it contains (why C18_vcs_only needs [has_git root = false]) *)
Theorem C18_vcs_root : forall (sha : list N -> str) (root : list str) (files : list file),
  has_git root = true -> hash_tree_entries sha root files = [].
Proof. exact entries_git_root. Qed.
Print Assumptions C18_vcs_root.

(* ---- lock generation ---- *)
(* invariant under module order (ids are unique: validate_manifest) *)
Theorem C18_modules_sorted : forall (sha : list N -> str) (sha_text : str -> str)
    (fs_local : str -> option (list str * node)) (ls_remote : str -> str -> option str)
    (checkout : str -> str -> str -> option (list str * node)) (ms ms' : list module),
  NoDup (map m_id ms) -> Permutation ms ms' ->
  generate_lockfile sha sha_text fs_local ls_remote checkout ms =
  generate_lockfile sha sha_text fs_local ls_remote checkout ms'.
Proof. exact generate_order. Qed.
Print Assumptions C18_modules_sorted.

(* the output is sorted by id and lists exactly the enabled modules *)
Theorem C18_modules_output : forall (sha : list N -> str) (sha_text : str -> str)
    (fs_local : str -> option (list str * node)) (ls_remote : str -> str -> option str)
    (checkout : str -> str -> str -> option (list str * node)) (ms : list module) (l : list locked),
  generate_lockfile sha sha_text fs_local ls_remote checkout ms = Some l ->
  StronglySorted (fun a b => str_leb (l_id a) (l_id b) = true) l /\
  Permutation (map l_id l) (map m_id (enabled ms)).
Proof. exact generate_sorted. Qed.
Print Assumptions C18_modules_output.

(* a local source is recorded as the manifest spells it with '\' -> '/': no backslash, unchanged
   when there is none, never made absolute (the repo root is not an input of the recorded path) *)
Theorem C18_posix_rel : forall (sha : list N -> str) (sha_text : str -> str)
    (fs_local : str -> option (list str * node)) (ls_remote : str -> str -> option str)
    (checkout : str -> str -> str -> option (list str * node)) (m : module) (lm : locked) (p : str),
  m_source m = SLocal p -> lock_module sha sha_text fs_local ls_remote checkout m = Some lm ->
  l_source lm = RLocal (replace_char 92 47 p) /\ l_version lm = local_str /\
  no_backslash (replace_char 92 47 p) /\
  (no_backslash p -> l_source lm = RLocal p) /\
  (hd_error p <> Some 47 -> hd_error p <> Some 92 -> hd_error (replace_char 92 47 p) <> Some 47).
Proof. exact lock_local_path. Qed.
Print Assumptions C18_posix_rel.

(* ---- enforcement ---- *)
(* fetch succeeds iff the cache content of every locked git module hashes to the locked value *)
Theorem C18_fetch_ok_iff : forall (sha : list N -> str) (sha_text : str -> str)
    (checkout : str -> str -> str -> option (list str * node)) (lock : list locked),
  (exists k, fetch sha sha_text checkout lock = FetchOk k) <-> Forall (verified sha sha_text checkout) lock.
Proof. exact fetch_ok_iff. Qed.
Print Assumptions C18_fetch_ok_iff.

(* one module whose cached content hashes differently makes the whole command fail *)
Theorem C18_fetch_refuses : forall (sha : list N -> str) (sha_text : str -> str)
    (checkout : str -> str -> str -> option (list str * node)) (lock : list locked) (m : locked)
    (url commit subdir : str) (root : list str) (nd : node),
  In m lock -> l_source m = RGit url commit subdir ->
  checkout url commit subdir = Some (root, nd) -> module_hash sha sha_text root nd <> l_sha m ->
  (exists id e g, fetch sha sha_text checkout lock = FetchMismatch id e g /\ e <> g) \/
  (exists id, fetch sha sha_text checkout lock = FetchCheckoutError id).
Proof. exact fetch_refuses. Qed.
Print Assumptions C18_fetch_refuses.

(* update with an existing lockfile and without --lock runs the very same verification *)
Theorem C18_update_refuses : forall (sha : list N -> str) (sha_text : str -> str)
    (fs_local : str -> option (list str * node)) (ls_remote : str -> str -> option str)
    (checkout : str -> str -> str -> option (list str * node))
    (l : list locked) (ms : list module) (fetch_ no_lock : bool) (w : option (list locked)) (r : fetch_result),
  update sha sha_text fs_local ls_remote checkout (Some (Some l)) ms false fetch_ no_lock false = UDone w (Some r) ->
  w = None /\ r = fetch sha sha_text checkout l.
Proof. exact update_verifies. Qed.
Print Assumptions C18_update_refuses.

(* update --lock (or update without a lockfile) re-locks from the cache first and then verifies
   against the lock it has just written: it re-baselines, it cannot refuse *)
Theorem C18_update_relock : forall (sha : list N -> str) (sha_text : str -> str)
    (fs_local : str -> option (list str * node)) (ls_remote : str -> str -> option str)
    (checkout : str -> str -> str -> option (list str * node))
    (ms : list module) (existing : option (option (list locked))) (fetch_ : bool) (l : list locked),
  generate_lockfile sha sha_text fs_local ls_remote checkout ms = Some l ->
  update sha sha_text fs_local ls_remote checkout existing ms true fetch_ false false =
  UDone (Some l) (Some (fetch sha sha_text checkout l)).
Proof. exact update_relock. Qed.
Print Assumptions C18_update_relock.

(* ---- rendering a git module uses the locked url/commit/subdir, whatever the remote says ---- *)
Theorem C18_locked_commit : forall (ls1 ls2 : str -> str -> option str) (lock : list locked) (m : module)
    (lm : locked) (url ref subdir : str) (sh : bool) (lurl lcommit lsubdir : str),
  m_source m = SGit url ref subdir sh ->
  find_locked (m_id m) lock = Some lm -> l_source lm = RGit lurl lcommit lsubdir ->
  resolve_upstream ls1 (Some lock) m = UpGit lurl lcommit lsubdir /\
  resolve_upstream ls1 (Some lock) m = resolve_upstream ls2 (Some lock) m.
Proof. exact upstream_locked_both. Qed.
Print Assumptions C18_locked_commit.

(* ------------------------------------------------------------------ non-vacuity *)

Definition ex_sha (c : list N) : str :=          (* a toy "hash": 63 zeros and the length mod 10 *)
  repeat 48 63 ++ [48 + N.of_nat (length c) mod 10].
Definition ex_files : list file :=
  [([s "b"; s "x y.md"], [1; 2; 3]); ([s ".git"; s "HEAD"], [9]); ([s "a.txt"], []);
   ([s "sub"; s ".git"; s "config"], [7; 7])].

(* hypotheses of C18_hash_iff_plain / C18_order_plain are satisfiable; `.git` files are dropped;
   the output is sorted; the order of the walk is irrelevant *)
Example C18_nonvacuous_tree :
  sha_ok ex_sha /\ tree_plain [s "repo"] ex_files /\
  map e_path (hash_tree_entries ex_sha [s "repo"] ex_files) = [s "a.txt"; s "b/x y.md"] /\
  hash_tree_entries ex_sha [s "repo"] (rev ex_files) = hash_tree_entries ex_sha [s "repo"] ex_files /\
  encode_tree (hash_tree_entries ex_sha [s "repo"] ex_files) =
    s "a.txt" ++ 10 :: ex_sha [] ++ 10 :: s "0" ++ 10 :: s "b/x y.md" ++ 10 :: ex_sha [1; 2; 3] ++ 10 :: s "3" ++ [10].
Proof.
  split; [|split; [|split; [|split]]].
  - intros c. unfold ex_sha, is_sha256_hex. rewrite app_length, repeat_length, forallb_app.
    simpl length. apply andb_true_iff. split; [reflexivity|]. apply andb_true_iff. split; [reflexivity|].
    cbn [forallb]. rewrite andb_true_r.
    assert (H : N.of_nat (length c) mod 10 < 10) by (apply N.mod_lt; discriminate).
    revert H. generalize (N.of_nat (length c) mod 10). intros n H.
    unfold is_hex_lower, is_ascii_digit. lia.
  - apply tree_plain_b_ok. vm_compute. reflexivity.
  - vm_compute. reflexivity.
  - vm_compute. reflexivity.
  - vm_compute. reflexivity.
Qed.

(* the hypotheses of the _partial theorems hold of an ordinary tree *)
Example C18_nonvacuous_known :
  wf_walk [s "repo"] ex_files /\ ~ K18a [s "repo"] ex_files /\ ~ K18b [s "repo"] ex_files /\ ~ K18c [s "repo"] ex_files.
Proof.
  split; [apply wf_walk_b_ok; vm_compute; reflexivity|].
  apply known_free_b_ok. vm_compute. reflexivity.
Qed.

(* entry_ok is satisfiable by a realistic entry list *)
Example C18_nonvacuous_entries :
  Forall entry_ok (hash_tree_entries ex_sha [s "repo"] ex_files) /\
  length (hash_tree_entries ex_sha [s "repo"] ex_files) = 2%nat.
Proof.
  split; [|vm_compute; reflexivity].
  vm_compute hash_tree_entries.
  repeat first [apply Forall_nil | apply Forall_cons]; (split; [vm_compute; intuition discriminate|vm_compute; reflexivity]).
Qed.

(* lock generation, fetch and update on a small world: two local modules and a git module; a
   tampered cache makes fetch and plain update fail, update --lock re-baselines *)
Definition ex_fs (p : str) : option (list str * node) :=
  if str_eqb p (s "modules/a") then Some ([s "repo"; s "modules"; s "a"], NDir ex_files)
  else if str_eqb p (s "modules\p.md") then Some ([s "repo"; s "modules\p.md"], NFile (s "modules\p.md") [1])
  else None.
Definition ex_ls (url ref : str) : option str := if str_eqb ref (s "main") then Some (s "c0ffee") else None.
Definition ex_checkout (tampered : bool) (url commit subdir : str) : option (list str * node) :=
  if str_eqb commit (s "c0ffee")
  then Some ([s "cache"; s "git"; s "k"; s "c0ffee"],
             NDir (([s "SKILL.md"], if tampered then [6; 6; 6] else [5]) :: [([s ".git"; s "index"], [0])]))
  else None.
Definition ex_modules : list module :=
  [Build_module (s "skill:g") (s "skill") true (SGit (s "file:///r.git") (s "main") [] true);
   Build_module (s "prompt:p") (s "prompt") true (SLocal (s "modules\p.md"));
   Build_module (s "off") (s "prompt") false SInvalid;
   Build_module (s "instructions:a") (s "instructions") true (SLocal (s "modules/a"))].
Definition ex_text (x : str) : str := x.      (* toy manifest "hash": the text itself *)

Example C18_nonvacuous_lock :
  exists l l',
    generate_lockfile ex_sha ex_text ex_fs ex_ls (ex_checkout false) ex_modules = Some l /\
    generate_lockfile ex_sha ex_text ex_fs ex_ls (ex_checkout false) (rev ex_modules) = Some l /\
    map l_id l = [s "instructions:a"; s "prompt:p"; s "skill:g"] /\
    map l_source l = [RLocal (s "modules/a"); RLocal (s "modules/p.md"); RGit (s "file:///r.git") (s "c0ffee") []] /\
    fetch ex_sha ex_text (ex_checkout false) l = FetchOk 1 /\
    (exists e g, fetch ex_sha ex_text (ex_checkout true) l = FetchMismatch (s "skill:g") e g) /\
    (exists e g, update ex_sha ex_text ex_fs ex_ls (ex_checkout true) (Some (Some l)) ex_modules false false false false
                 = UDone None (Some (FetchMismatch (s "skill:g") e g))) /\
    update ex_sha ex_text ex_fs ex_ls (ex_checkout true) (Some (Some l)) ex_modules true false false false
      = UDone (Some l') (Some (FetchOk 1)) /\ l' <> l /\
    resolve_upstream (fun _ _ => Some (s "moved")) (Some l) (hd (Build_module [] [] true SInvalid) ex_modules)
      = UpGit (s "file:///r.git") (s "c0ffee") [].
Proof.
  eexists. eexists.
  split; [vm_compute; reflexivity|].
  split; [vm_compute; reflexivity|].
  split; [vm_compute; reflexivity|].
  split; [vm_compute; reflexivity|].
  split; [vm_compute; reflexivity|].
  split; [eexists; eexists; vm_compute; reflexivity|].
  split; [eexists; eexists; vm_compute; reflexivity|].
  split; [vm_compute; reflexivity|].
  split; [vm_compute; discriminate|].
  vm_compute. reflexivity.
Qed.
