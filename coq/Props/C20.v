(* Props/C20.v — A clean policy lint really means the governed rules hold. (work in progress) *)
From AP Require Import Base.Str Gen.Tables Model.PolicyCmd Model.PolicyUrl Model.PolicyRules.
Open Scope N_scope.

Theorem C20_ids_producible_stub : forallb (fun id => match agentpack_command_id (split_whitespace id) with Some x => str_eqb x id | None => false end) mutating_ids = true.
Proof. vm_compute. reflexivity. Qed.
Print Assumptions C20_ids_producible_stub.
