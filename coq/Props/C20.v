(* Props/C20.v — A clean policy lint really means the governed rules hold.
   Only statements, each closed by [exact], with [Print Assumptions] beneath, and non-vacuity examples.

   Reading guide.  [extract_*], [agentpack_command_id], [dangerous_issues], [normalize], [matches], … are the
   model of src/policy.rs and src/policy_allowlist.rs (Model/PolicyCmd.v, PolicyUrl.v, PolicyRules.v part 1).
   [ref_*] is the reference reading, written from the shell's / clap's / git's point of view (part 2 of the
   same files) and mirrored by the Python oracle of the harness. *)
From AP Require Import Base.Str Gen.Tables Model.PolicyCmd Model.PolicyUrl Model.PolicyRules
                       Proofs.PolicyCmdP Proofs.PolicyUrlP Proofs.PolicyRulesP.
Open Scope N_scope.

(* ------------------------------------------------------------------ dangerous defaults *)

(* A command file on which lint raises neither the allowed-tools nor a dangerous-defaults issue:
   every agentpack invocation the reference shell reading finds in its `!bash` blocks, and whose
   command clap resolves to a mutating id, carries both --json and --yes.  For all files, all front
   matters, unbounded. *)
Theorem C20_cmd_sound : forall md fm,
  command_file_clean md fm = true ->
  forall inv, In inv (ref_invocations md) -> ref_mutating inv = true ->
  has_flag f_json inv = true /\ has_flag f_yes inv = true.
Proof. exact cmd_sound. Qed.
Print Assumptions C20_cmd_sound.

(* lint reads a shell line exactly as the reference does (same invocations, same order) … *)
Theorem C20_same_invocations : forall line,
  extract_agentpack_invocations line = ref_invocations_line line.
Proof. exact invocations_equiv. Qed.
Print Assumptions C20_same_invocations.

(* … and gives every invocation the reference calls mutating the very same command id *)
Theorem C20_same_id_when_mutating : forall argv id,
  ref_id argv = Some id -> In id mutating_ids -> agentpack_command_id argv = Some id.
Proof. exact same_id_when_mutating. Qed.
Print Assumptions C20_same_id_when_mutating.

(* every mutating id (finite table: the 19 entries of MUTATING_COMMAND_IDS as regenerated from the source)
   is produced by the lint's mapping for some argv, which the reference resolves to the same id *)
Theorem C20_ids_producible : forall id, In id mutating_ids ->
  exists argv, agentpack_command_id argv = Some id /\ ref_id argv = Some id.
Proof. exact ids_producible. Qed.
Print Assumptions C20_ids_producible.

(* one notion of "mutating" (finite tables regenerated from the source on every run): the constant used by
   lint and by help --json is the set of ids passed to the --yes guard, every id is a catalogue command, and
   the lint skips a value after exactly the global options the CLI declares with a value *)
Theorem C20_same_set :
  (forall id, In id mutating_ids <-> In id guard_site_ids) /\
  (forall id, In id mutating_ids -> In id catalogue_ids) /\
  lint_uses_mutating_const = true /\ help_uses_mutating_const = true /\ guard_checks_mutating_const = true /\
  (forall t, mem_str t cli_global_value_flags = mem_str t policy_flags_with_value) /\
  (forall t, mem_str t cli_global_bool_flags = mem_str t policy_flags_no_value).
Proof. exact same_set. Qed.
Print Assumptions C20_same_set.

(* ------------------------------------------------------------------ the git-remote allowlist *)

(* Whatever remote spelling [u] the matcher accepts for an allow entry [a] (both normalised as lint does):
   in the reference decomposition the hosts are equal (case-insensitively, user-info up to the last '@' of
   the authority excluded), the entry's path segments are a prefix of the remote's on a segment
   boundary, the remote has no dot segment (literal or %2e), no port, and no user-info outside the ssh
   spellings.  For every string [u] that the reference can read as a remote at all and every allow entry
   that names a host (ref_allow: host[/path], or its https/http/ssh/git@ spelling, no port/query). *)
Theorem C20_url_sound : forall u a du da,
  ref_parse u = Some du -> ref_allow a = Some da ->
  matches (normalize u) (normalize a) = true ->
  ref_under du da = true.
Proof. exact url_sound. Qed.
Print Assumptions C20_url_sound.

(* lint level: no allowlist issue for a module/policy-pack URL means it lies under some entry *)
Theorem C20_remote_allowed_under : forall url allow du,
  remote_allowed url allow = true -> ref_parse url = Some du ->
  (forall a, In a allow -> ref_allow a <> None) ->
  exists a da, In a allow /\ ref_allow a = Some da /\ ref_under du da = true.
Proof. exact remote_allowed_under. Qed.
Print Assumptions C20_remote_allowed_under.

Theorem C20_supply_chain_rule : forall allowed_raw req pack lock ms,
  supply_chain_issues allowed_raw req pack lock ms = [] ->
  (nonblank_trimmed allowed_raw <> [] ->
     (forall m url, In m ms -> cm_git m = Some url -> remote_allowed url (nonblank_trimmed allowed_raw) = true) /\
     (forall url, pack = Some url -> remote_allowed url (nonblank_trimmed allowed_raw) = true)) /\
  (req = true -> lockfile_issues lock ms = []).
Proof. exact supply_chain_clean. Qed.
Print Assumptions C20_supply_chain_rule.

(* ------------------------------------------------------------------ the simpler rules, as decisions *)

Theorem C20_skill_rule : forall fm, skill_issue_count fm = 0 ->
  exists fields n d, fm = FmMap fields /\
    yaml_get fields k_name = Some (YStr n) /\ trim n <> [] /\
    yaml_get fields k_description = Some (YStr d) /\ trim d <> [].
Proof. exact skill_rule. Qed.
Print Assumptions C20_skill_rule.

Theorem C20_allowed_tools_rule : forall md fm,
  command_file_clean md fm = true -> uses_bash_tool md = true ->
  exists fields v, fm = FmMap fields /\ yaml_get fields k_allowed_tools = Some v /\ allowed_tools_allows_bash v = true.
Proof. exact allowed_tools_rule. Qed.
Print Assumptions C20_allowed_tools_rule.

Theorem C20_required_present : forall rt rm targets ms,
  distribution_issues rt rm targets ms = [] ->
  (forall t, In t (nonblank_trimmed rt) -> In t targets) /\
  (forall id, In id (nonblank_trimmed rm) -> exists m, find_module id ms = Some m /\ cm_enabled m = true).
Proof. exact required_present. Qed.
Print Assumptions C20_required_present.

Theorem C20_lock_pins : forall lock ms,
  lockfile_issues lock ms = [] ->
  forall m url, In m ms -> cm_enabled m = true -> cm_git m = Some url ->
  exists entries e lurl commit,
    lock = LockOk entries /\ find_lock (cm_id m) entries = Some e /\ le_git e = Some (lurl, commit) /\
    normalize url = normalize lurl /\ is_hex_sha commit = true.
Proof. exact lock_pins. Qed.
Print Assumptions C20_lock_pins.

(* ------------------------------------------------------------------ non-vacuity *)

Definition fm_ok : frontmatter := FmMap [(k_allowed_tools, YSeq [Some (s "Bash(agentpack:*)")])].
Definition nl : str := [10].
Definition md_good : str :=
  s "!bash" ++ nl ++ s "agentpack plan --json|agentpack overlay --yes edit skill:x --json ;echo ok" ++ nl.

(* hypotheses of C20_cmd_sound are satisfiable by a file that does run a mutating command *)
Example C20_nonvacuous_cmd :
  command_file_clean md_good fm_ok = true /\
  ref_invocations md_good = [[s "plan"; s "--json"]; [s "overlay"; s "--yes"; s "edit"; s "skill:x"; s "--json"]] /\
  map ref_mutating (ref_invocations md_good) = [false; true].
Proof. vm_compute. repeat split. Qed.

(* the F9 witnesses (glued separator, import --apply, policy lock, flag inside a group, env assignment,
   quoted word) are reported by the model of the fixed code *)
Example C20_f9_cmd_witnesses_reported :
  forallb (fun body => negb (command_file_clean (s "!bash" ++ nl ++ body ++ nl) fm_ok))
    [s "agentpack update; agentpack lock"; s "agentpack update&&agentpack lock --json --yes";
     s "agentpack import --apply"; s "agentpack policy lock"; s "agentpack overlay --json edit x";
     s "AGENTPACK_HOME=/home/u/agentpack agentpack lock"; 34 :: s "agentpack" ++ 34 :: s " lock"] = true.
Proof. vm_compute. reflexivity. Qed.

Definition view (u a : str) : option (bool * bool) :=
  match ref_parse u, ref_allow a with
  | Some du, Some da => Some (matches (normalize u) (normalize a), ref_under du da)
  | _, _ => None
  end.

(* hypotheses of C20_url_sound are satisfiable, in each spelling *)
Example C20_nonvacuous_url :
  map (fun u => view u (s "github.com/org/"))
      [s "git@github.com:org/r.git"; s "https://GitHub.com/Org/r"; s "ssh://git@github.com/org/r"; s "http://github.com/org/sub/r/"]
  = [Some (true, true); Some (true, true); Some (true, true); Some (true, true)].
Proof. vm_compute. reflexivity. Qed.

(* the F9 URL witnesses and the classic tricks are readable remotes, not under the entry, and not matched *)
Example C20_f9_url_witnesses_rejected :
  map (fun u => view u (s "github.com/org"))
      [s "ssh://evil.com/x@github.com/org/r"; s "https://github.com/org/../other/r"; s "https://github.com/org/%2E%2e/other/r";
       s "git@github.com:org:x/r"; s "https://github.com@evil.com/org/r"; s "https://github.com:x@evil.test/org/r.git";
       s "https://github.com.evil.com/org/r"; s "https://github.com/orgx/r"; s "https://github.com/org/..?x"]
  = [Some (false, false); Some (false, false); Some (false, false); Some (false, false); Some (false, false);
     Some (false, false); Some (false, false); Some (false, false); Some (false, false)].
Proof. vm_compute. reflexivity. Qed.

Example C20_nonvacuous_rules :
  skill_issue_count (FmMap [(k_name, YStr (s "a")); (k_description, YStr (s "b"))]) = 0 /\
  distribution_issues [s "codex"] [s "instructions:base"] [s "codex"] [Build_cfg_module (s "instructions:base") true None] = [] /\
  supply_chain_issues [s "github.com/org/"] true None
     (LockOk [Build_lock_entry (s "m") (Some (s "https://github.com/org/r.git", s "aaaaaaaaaaaaaaaaaaaaaaaaaaaaaaaaaaaaaaaa"))])
     [Build_cfg_module (s "m") true (Some (s "git@github.com:org/r.git"))] = [].
Proof. vm_compute. repeat split. Qed.
