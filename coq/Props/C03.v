(* Props/C03.v — Writes stay inside declared target roots (render side of C03).
   Statements only; proofs in Proofs/RenderSafeP.v and Proofs/RenderRootsP.v.

   Model: Model/Render.v ([load_render] = Manifest::load + validate_manifest, then the planning handler:
   select_modules, the six adapters, insert_desired_file, dedup_roots) and the root / relpath part of
   apply.rs::write_target_manifests ([best_root_for], [best_root_index], [manifest_rel],
   [manifest_entries]).  Paths are RAW strings with Rust's component semantics (Base/PathR.v):
   [components] keeps "..", [inside_c root p] resolves ".." lexically first.

   Hypotheses, all about the INPUT (none about the result):
   * [env_ok e]: HOME and the project root are non-empty strings;
   * [cfg_ok c]: every file of every module tree has a non-empty relative path made of file-system
     names (non-empty, no '/', not "." / "..") and the sha prefix used in cursor file names is hex.
   Everything else -- arbitrary unicode ids with ':' '/' '\' "..", leading '/', any option value, any
   codex_home (relative, with "..", "~/") -- is quantified over.  Ids that would escape are exactly the
   ones [validate_manifest] now rejects ([C03_rejects_unsafe_skill_names]); trees with a backslash in a
   name are rejected by materialisation ([C03_rejects_backslash_names]).  Without these two checks (the
   code before fix commits 7cd48b1 / 44c6774) the statement is false: [C03_unvalidated_escapes]. *)
From AP Require Import Base.Str Base.PathR Model.Render Proofs.RenderP Proofs.RenderSafeP Proofs.RenderRootsP.
Open Scope N_scope.

(* every desired path is inside a declared (reported) root of its own target *)
Theorem C03_inside : forall c e prof filt D R,
  env_ok e -> cfg_ok c -> load_render c e prof filt = Ok (D, R) ->
  forall x, In x D ->
  exists r, In r R /\ r_target r = fst (d_key x) /\ inside_c (components (r_path r)) (snd (d_key x)) = true.
Proof.
  intros c e prof filt D R He Hc H. destruct (load_render_ok _ _ _ _ _ _ H) as [Hv Hr].
  exact (inside_thm c e prof filt D R Hv He Hc Hr).
Qed.
Print Assumptions C03_inside.

(* ... and more precisely: it is that root followed by Normal components only (no "..", no
   separator or backslash inside a name) *)
Theorem C03_under_root : forall c e prof filt D R,
  env_ok e -> cfg_ok c -> load_render c e prof filt = Ok (D, R) ->
  forall x, In x D ->
  exists r ns, In r R /\ r_target r = fst (d_key x) /\ snd (d_key x) = components (r_path r) ++ ns /\ Forall nice ns.
Proof.
  intros c e prof filt D R He Hc H. destruct (load_render_ok _ _ _ _ _ _ H) as [Hv Hr].
  exact (proj2 (desired_under_root c e prof filt D R Hv He Hc Hr)).
Qed.
Print Assumptions C03_under_root.

(* the managed_files[].path that write_target_manifests records for a desired file (strip_prefix of
   the best root, '\' -> '/') exists and is a relative path without ".." (and without backslash) *)
Theorem C03_manifest_entries : forall c e prof filt D R,
  env_ok e -> cfg_ok c -> load_render c e prof filt = Ok (D, R) ->
  forall x b, In x D -> best_root_for R (d_key x) = Some b ->
  exists p, manifest_rel b (d_key x) = Some p /\ seg_safe p = true /\ ~ In 92 p.
Proof.
  intros c e prof filt D R He Hc H. destruct (load_render_ok _ _ _ _ _ _ H) as [Hv Hr].
  exact (manifest_entries_thm c e prof filt D R Hv He Hc Hr).
Qed.
Print Assumptions C03_manifest_entries.

(* each desired file is listed by exactly one root's manifest: the best-root index exists, that root
   lists it, no other index does; and distinct indices are distinct (target, directory) pairs, hence
   distinct manifest files (dedup_roots is complete after fix f9b925d) *)
Theorem C03_one_manifest : forall c e prof filt D R,
  env_ok e -> cfg_ok c -> load_render c e prof filt = Ok (D, R) ->
  NoDup (map root_key R) /\
  forall x, In x D ->
    exists i r p, best_root_index R (d_key x) = Some i /\ nth_error R i = Some r /\
                  manifest_rel r (d_key x) = Some p /\
                  forall j, (exists q, In (d_key x, q) (manifest_entries R D j)) <-> j = i.
Proof.
  intros c e prof filt D R He Hc H. destruct (load_render_ok _ _ _ _ _ _ H) as [Hv Hr].
  exact (one_manifest_thm c e prof filt D R Hv He Hc Hr).
Qed.
Print Assumptions C03_one_manifest.

(* the reported root list never contains the same (target, directory) twice, for ANY input *)
Theorem C03_roots_distinct : forall l, NoDup (map root_key (dedup_roots l)).
Proof. exact dedup_roots_nodup. Qed.
Print Assumptions C03_roots_distinct.

(* validate_manifest refuses every skill id whose name part is absolute, has a ".." component or a
   backslash (the repaired defect F1) *)
Theorem C03_rejects_unsafe_skill_names : forall c m pre name,
  In m (c_modules c) -> m_type m = TSkill -> split_once 58 (m_id m) = Some (pre, name) ->
  safe_skill_name name = false -> validate_manifest c <> None.
Proof.
  intros c m pre name Hm Ht Hs Hn Hv. pose proof (validate_skill_ok c Hv) as H.
  rewrite Forall_forall in H. specialize (H m Hm Ht pre name Hs). congruence.
Qed.
Print Assumptions C03_rejects_unsafe_skill_names.

(* a materialised module tree never contains a name with a backslash (repaired defect F1b) *)
Theorem C03_rejects_backslash_names : forall m fs f,
  materialize m = Ok fs -> In f fs -> has_backslash f = false.
Proof.
  intros m fs f Hm Hf. destruct (materialize_ok _ _ Hm) as [_ [Hb _]].
  destruct (has_backslash f) eqn:E; [|reflexivity].
  assert (X : existsb has_backslash fs = true) by (apply existsb_exists; exists f; split; assumption). congruence.
Qed.
Print Assumptions C03_rejects_backslash_names.

(* ---------- non-vacuity ---------- *)

Definition ex_env : env := mkEnv (s "/h") (s "/p") None.
Definition ex_skill (id : str) (extra : list str) : module :=
  mkModule id TSkill true [s "a"] []
           [mkFile [s "SKILL.md"] [1] true; mkFile extra [2] true] true (s "0123456789").
Definition ex_instr : module :=
  mkModule (s "instructions:base") TInstructions true [s "a"] [] [mkFile [s "AGENTS.md"] [104; 10] true] true (s "abcdef0123").
Definition ex_cfg (id : str) (extra : list str) (home : str) : cfg :=
  mkCfg 1 [mkProfile (s "default") [s "a"] [] []]
        [mkTcfg (s "codex") SBoth [(s "codex_home", OStr home)]; mkTcfg (s "cursor") SProject []]
        [ex_skill id extra; ex_instr].

(* the hypotheses hold for a nested skill name, a hostile codex_home (with ".." and "//") and the
   result is a non-trivial desired state: 7 files under 6 roots, all inside *)
Example C03_nonvacuous :
  let c := ex_cfg (s "skill:team/x") [s "ref"; s "b.md"] (s "/p/../h//.codex/") in
  env_ok ex_env /\ cfg_okb c = true /\
  match load_render c ex_env (s "default") (s "all") with
  | Ok (D, R) => length D = 7%nat /\ length R = 6%nat /\
                 forallb (fun x => existsb (fun r => str_eqb (r_target r) (fst (d_key x)) &&
                                                    inside_c (components (r_path r)) (snd (d_key x))) R) D = true
  | Err _ => False
  end.
Proof. split; [split; discriminate|]. vm_compute. repeat split; reflexivity. Qed.

(* the ids and names of the repaired defects are refused ... *)
Example C03_hostile_ids_rejected :
  validate_manifest (ex_cfg (s "skill:../../x") [s "a.txt"] (s "/h/.codex")) = Some EConfigInvalid /\
  validate_manifest (ex_cfg (s "skill:/abs/x") [s "a.txt"] (s "/h/.codex")) = Some EConfigInvalid /\
  validate_manifest (ex_cfg (s "skill:a\..\b") [s "a.txt"] (s "/h/.codex")) = Some EConfigInvalid /\
  load_render (ex_cfg (s "skill:ok") [s "..\..\..\esc.txt"] (s "/h/.codex")) ex_env (s "default") (s "all")
    = Err EConfigInvalid.
Proof. vm_compute. repeat split; reflexivity. Qed.

(* ... and they are exactly what the property needs: the same renderer WITHOUT validate_manifest (the
   code before the fix) puts skill:../../x outside every declared root of its target *)
Example C03_unvalidated_escapes :
  match render (ex_cfg (s "skill:../../x") [s "a.txt"] (s "/h/.codex")) ex_env (s "default") (s "all") with
  | Ok (D, R) => existsb (fun x => negb (existsb (fun r => str_eqb (r_target r) (fst (d_key x)) &&
                                                         inside_c (components (r_path r)) (snd (d_key x))) R)) D = true
  | Err _ => False
  end.
Proof. vm_compute. reflexivity. Qed.

(* duplicate spellings of one root collapse (defect F13: "<project>//" next to "<project>") *)
Example C03_roots_collapse :
  match load_render (ex_cfg (s "skill:s") [s "a.txt"] (s "/p//")) ex_env (s "default") (s "codex") with
  | Ok (D, R) => map (fun r => components (r_path r)) R =
                 [ [CRoot; CNormal (s "p")]; [CRoot; CNormal (s "p"); CNormal (s ".codex"); CNormal (s "skills")];
                   [CRoot; CNormal (s "p"); CNormal (s "prompts")]; [CRoot; CNormal (s "p"); CNormal (s "skills")] ]
  | Err _ => False
  end.
Proof. vm_compute. reflexivity. Qed.

(* ---------- deploy side (Model/Deploy.v): deletes and the managed set ----------
   The render theorems above put every DESIRED file under a root of its target.  The plan also
   contains deletes, generated from the managed set.  For every world (any manifests, any snapshot
   history of this agentpack home — other projects' and earlier configurations' deploys included):
   every recorded path used for planning, hence every planned change, lies under a root of its
   target in the current run, and whatever a deploy changes on disk lies under one of these roots. *)
Require AP.Model.Deploy AP.Proofs.DeployP.

Theorem C03_managed_under_roots : forall w roots flt tp,
  In tp (Deploy.managed_for_plan w roots flt) -> Deploy.under_roots roots tp = true.
Proof. exact DeployP.managed_under_roots. Qed.
Print Assumptions C03_managed_under_roots.

Theorem C03_plan_under_roots : forall w roots flt D c,
  (forall d, In d D -> Deploy.under_roots roots (Deploy.dkey d) = true) ->
  In c (Deploy.plan (Deploy.files w) D (Deploy.managed_for_plan w roots flt)) ->
  Deploy.under_roots roots (Deploy.c_target c, Deploy.c_path c) = true.
Proof. exact DeployP.plan_under_roots. Qed.
Print Assumptions C03_plan_under_roots.

Theorem C03_deploy_changes_under_roots : forall st confirmed adopt flt w roots D pl out w' p,
  (forall d, In d D -> Deploy.under_roots roots (Deploy.dkey d) = true) ->
  Deploy.deploy_cmd st confirmed adopt flt w roots D = (pl, (out, w')) ->
  Deploy.files w' p <> Deploy.files w p ->
  exists r, In r roots /\ Deploy.is_prefix (Deploy.rpath r) p = true.
Proof. exact DeployP.deploy_changes_under_roots. Qed.
Print Assumptions C03_deploy_changes_under_roots.
