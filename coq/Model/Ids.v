(* Model/Ids.v — module id -> filesystem key (src/ids.rs) and overlay directory resolution
   (src/cli/util.rs::overlay_dir_for_scope, src/engine.rs::overlay_dir_*_fallbacks +
   overlay_dir_prefer_existing).  Definitions only; proofs in Proofs/IdsP.v.

   SHA-256 never runs in the model: [sha] is a Section variable standing for
   [sha256_hex(module_id.as_bytes())] (64 lowercase hex digits — premise [sha_ok] of the theorems);
   the correspondence check instantiates it with a lookup table computed by Python's hashlib. *)
From AP Require Import Base.Str.
From AP Require Gen.Tables.
Open Scope N_scope.

(* MODULE_FS_KEY_PREFIX_MAX_LEN, re-read from src/ids.rs on every run *)
Definition prefix_max : N := Gen.Tables.fs_key_prefix_max.

(* sanitize_fs_component: keep [A-Za-z0-9_-], everything else becomes '_' *)
Definition is_fs_keep (c : N) : bool := is_ascii_alnum c || (c =? 45) || (c =? 95).
Definition sanitize (x : str) : str := map (fun c => if is_fs_keep c then c else 95) x.

(* is_safe_legacy_path_component (non-Windows branch) *)
Definition legacy_safe (v : str) : bool :=
  negb (is_empty v) && negb (str_eqb v [46]) && negb (str_eqb v [46; 46])
  && negb (mem_char 47 v) && negb (mem_char 92 v).

Definition module_lit : str := [109; 111; 100; 117; 108; 101].   (* "module" *)
Definition dashdash : str := [45; 45].                            (* "--" *)

Section WithSha.
  Variable sha : str -> str.

  Definition sha10 (id : str) : str := firstn 10 (sha id).       (* &hash[..10] *)

  (* module_fs_key_with_max_prefix, the part before "--": sanitise, "module" if empty, truncate
     when longer than the bound ([None] = usize::MAX).  The sanitised string is ASCII, so its byte
     length is its length and String::truncate cuts at a character boundary. *)
  Definition key_prefix (max : option N) (id : str) : str :=
    let s0 := sanitize id in
    let s1 := if is_empty s0 then module_lit else s0 in
    match max with
    | Some m => if m <? N.of_nat (length s1) then firstn (N.to_nat m) s1 else s1
    | None => s1
    end.

  Definition fs_key_with (max : option N) (id : str) : str :=
    key_prefix max id ++ dashdash ++ sha10 id.

  Definition fs_key (id : str) : str := fs_key_with (Some prefix_max) id.       (* module_fs_key *)
  Definition fs_key_unbounded (id : str) : str := fs_key_with None id.          (* module_fs_key_unbounded *)

  (* Directory *name* chosen below a scope's overlay base directory.  [ex n] says whether
     <base>/<n> exists.  Order: canonical key; unbounded key (only when it differs); the raw module
     id (only when it is a safe path component); else the canonical key. *)
  Definition overlay_dir_name (ex : str -> bool) (id : str) : str :=
    let canonical := fs_key id in
    let unb := fs_key_unbounded id in
    if ex canonical then canonical
    else if negb (str_eqb unb canonical) && ex unb then unb
    else if legacy_safe id && ex id then id
    else canonical.

  (* ---- known classes (DESIGN F7), decidable given the sha values ---- *)
  (* K13a: the two ids share the first 10 hex digits (40 bits) of their SHA-256 *)
  Definition K13a (a b : str) : Prop := sha10 a = sha10 b.
  (* K13b: one id is literally the (bounded or unbounded) fs key of the other, so the raw-id
     legacy fallback of the one names the canonical directory of the other *)
  Definition K13b (a b : str) : Prop :=
    b = fs_key a \/ b = fs_key_unbounded a \/ a = fs_key b \/ a = fs_key_unbounded b.
End WithSha.

(* premise on the hash oracle: 64 lowercase hex digits *)
Definition sha_ok (sha : str -> str) : Prop :=
  forall x, length (sha x) = 64%nat /\ forallb is_hex_lower (sha x) = true.

(* the three overlay scopes and their base directories below the config repo *)
Inductive scope := Global | Machine | Project.

Definition c_overlays : str := [111;118;101;114;108;97;121;115].   (* "overlays" *)
Definition c_machines : str := [109;97;99;104;105;110;101;115].    (* "machines" *)
Definition c_projects : str := [112;114;111;106;101;99;116;115].   (* "projects" *)

Definition scope_base (machine project : str) (sc : scope) : list str :=
  match sc with
  | Global => [c_overlays]
  | Machine => [c_overlays; c_machines; machine]
  | Project => [c_projects; project; c_overlays]
  end.

Definition overlay_dir_for (sha : str -> str) (machine project : str) (ex : list str -> bool)
           (sc : scope) (id : str) : list str :=
  let base := scope_base machine project sc in
  base ++ [overlay_dir_name sha (fun n => ex (base ++ [n])) id].
