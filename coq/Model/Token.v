(* Model/Token.v — MCP confirm-token store (src/mcp/confirm.rs) and the deploy / deploy_apply tool
   state machine (src/mcp/tools/deploy.rs, deploy_apply.rs).  Time is in milliseconds from an
   arbitrary origin (Instant); the TTL comes from Gen.Tables (CONFIRM_TOKEN_TTL). *)
From AP Require Import Base.Str.
From AP Require Gen.Tables.
Open Scope N_scope.

Definition ttl : N := Gen.Tables.confirm_token_ttl_ms.

Record binding := mkB { b_repo : option str; b_profile : option str;
                        b_target : option str; b_machine : option str }.

Definition ostr_eqb (a b : option str) : bool :=
  match a, b with
  | None, None => true
  | Some x, Some y => str_eqb x y
  | _, _ => false
  end.

Definition binding_eqb (a b : binding) : bool :=
  ostr_eqb (b_repo a) (b_repo b) && ostr_eqb (b_profile a) (b_profile b)
  && ostr_eqb (b_target a) (b_target b) && ostr_eqb (b_machine a) (b_machine b).

Record entry := mkE { e_binding : binding; e_hash : str; e_expires : N }.
Definition store := list (str * entry).   (* HashMap<String, ConfirmTokenEntry> *)

Fixpoint lookup_tok (t : str) (st : store) : option entry :=
  match st with
  | [] => None
  | (k, e) :: r => if str_eqb k t then Some e else lookup_tok t r
  end.

Definition remove_tok (t : str) (st : store) : store :=
  filter (fun ke => negb (str_eqb (fst ke) t)) st.

(* retain(|_, e| e.expires_at + TTL > now) *)
Definition cleanup (now : N) (st : store) : store :=
  filter (fun ke => now <? e_expires (snd ke) + ttl) st.

Definition insert_token (st : store) (t : str) (b : binding) (h : str) (now : N) : store :=
  (t, mkE b h (now + ttl)) :: remove_tok t (cleanup now st).

Inductive vres := VOk (h : str) | VMismatch | VExpired.

Definition validate_token (st : store) (t : str) (b : binding) (now : N) : vres * store :=
  match lookup_tok t st with
  | None => (VMismatch, cleanup now st)
  | Some e =>
    if e_expires e <=? now then (VExpired, cleanup now (remove_tok t st))
    else if binding_eqb (e_binding e) b then (VOk (e_hash e), cleanup now st)
    else (VMismatch, cleanup now st)
  end.

Definition consume_token (st : store) (t : str) : store := remove_tok t st.

(* ---- store-level op interpreter (correspondence with the hook) ---- *)

Inductive sop :=
| SInsert (t : str) (b : binding) (h : str) (now : N)
| SValidate (t : str) (b : binding) (now : N)
| SConsume (t : str).

Inductive sout := SUnit | SOk (h : str) | SErr (code : str).

Definition code_mismatch : str := Eval vm_compute in s "E_CONFIRM_TOKEN_MISMATCH".
Definition code_expired : str := Eval vm_compute in s "E_CONFIRM_TOKEN_EXPIRED".
Definition code_required : str := Eval vm_compute in s "E_CONFIRM_TOKEN_REQUIRED".
Definition code_confirm : str := Eval vm_compute in s "E_CONFIRM_REQUIRED".
Definition code_adopt : str := Eval vm_compute in s "E_ADOPT_CONFIRM_REQUIRED".

Definition sstep (st : store) (o : sop) : store * sout :=
  match o with
  | SInsert t b h now => (insert_token st t b h now, SUnit)
  | SValidate t b now =>
    match validate_token st t b now with
    | (VOk h, st') => (st', SOk h)
    | (VMismatch, st') => (st', SErr code_mismatch)
    | (VExpired, st') => (st', SErr code_expired)
    end
  | SConsume t => (consume_token st t, SUnit)
  end.

Fixpoint srun (st : store) (ops : list sop) : list (sout * list str) :=
  match ops with
  | [] => []
  | o :: r => let '(st', out) := sstep st o in (out, map fst st') :: srun st' r
  end.

(* ---- the tool-level state machine ---- *)

(* Outcome of planning for a binding in the current world.  [PlanOk h adopt changes]: planning
   succeeds; [h] identifies the plan data (confirm_plan_hash: SHA-256 of binding + data — equal
   hashes stand for equal reviewed plans, SHA-256 injectivity is a named premise of C11);
   [adopt]: the plan contains adopt_update changes; [changes]: plan non-empty or a used root lacks
   its manifest (the apply will write). *)
Inductive plan_state :=
| PlanErr (code : str)
| PlanOk (h : str) (adopt : bool) (changes : bool).

Inductive op :=
| Issue (b : binding) (fresh : str)                 (* deploy tool; [fresh] = the random token *)
| Apply (tok : option str) (b : binding) (yes dry adopt : bool)
| SetPlan (f : binding -> plan_state)                (* config / file-system mutation *)
| Tick (dt : N)
| Restart.

Inductive out :=
| OIssued (tok h : str)
| ORefused (code : str)
| ODryRun
| ONoChanges
| OApplied
| ONone.

Record sstate := mkS { s_store : store; s_now : N; s_plan : binding -> plan_state }.

Definition token_given (tok : option str) : option str :=
  match tok with
  | Some t => if is_empty t then None else Some t
  | None => None
  end.

Definition step (st : sstate) (o : op) : sstate * out :=
  match o with
  | Tick dt => (mkS (s_store st) (s_now st + dt) (s_plan st), ONone)
  | Restart => (mkS [] (s_now st) (s_plan st), ONone)
  | SetPlan f => (mkS (s_store st) (s_now st) f, ONone)
  | Issue b fresh =>
    match s_plan st b with
    | PlanErr c => (st, ORefused c)
    | PlanOk h _ _ =>
      (mkS (insert_token (s_store st) fresh b h (s_now st)) (s_now st) (s_plan st), OIssued fresh h)
    end
  | Apply tok b yes dry adopt =>
    if negb yes || dry then
      (* call_deploy_apply_in_process without any token handling *)
      match s_plan st b with
      | PlanErr c => (st, ORefused c)
      | PlanOk _ _ _ => if dry then (st, ODryRun) else (st, ORefused code_confirm)
      end
    else
      match token_given tok with
      | None => (st, ORefused code_required)
      | Some t =>
        match validate_token (s_store st) t b (s_now st) with
        | (VMismatch, store') => (mkS store' (s_now st) (s_plan st), ORefused code_mismatch)
        | (VExpired, store') => (mkS store' (s_now st) (s_plan st), ORefused code_expired)
        | (VOk stored, store') =>
          let st1 := mkS store' (s_now st) (s_plan st) in
          match s_plan st b with
          | PlanErr c =>
            (* recomputed envelope is an error envelope: its data is {}, a hash no ok plan has *)
            (st1, ORefused code_mismatch)
          | PlanOk h need_adopt changes =>
            if negb (str_eqb h stored) then (st1, ORefused code_mismatch)
            else if need_adopt && negb adopt then (st1, ORefused code_adopt)
            else
              let st2 := mkS (consume_token store' t) (s_now st) (s_plan st) in
              if changes then (st2, OApplied) else (st2, ONoChanges)
          end
        end
      end
  end.

Fixpoint run (st : sstate) (ops : list op) : list out :=
  match ops with
  | [] => []
  | o :: r => let '(st', x) := step st o in x :: run st' r
  end.

Definition init (f : binding -> plan_state) : sstate := mkS [] 0 f.
