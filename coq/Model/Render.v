(* Model/Render.v — desired-state rendering (C12, C03): manifest validation, profile selection, the six
   target adapters, insert_desired_file, dedup_roots / best_root_for / write_target_manifests relpaths.
   Mirrors src/config.rs (validate_manifest), src/engine.rs (select_modules, desired_state,
   materialize_module without overlays), src/validate.rs, src/targets/{util,codex,claude_code,cursor,
   vscode,jetbrains,zed,mod}.rs, src/target_selection.rs, src/deploy.rs (insert_desired_file),
   src/apply.rs (write_target_manifests: which root lists which file under which relpath).
   Definitions only (proofs in Proofs/RenderP.v).

   Not modelled: overlays (C13), git sources, YAML/front-matter parsing (its verdict is the field
   [m_fm_ok], known by construction in the harness), non-UTF-8 file NAMES, symlinks, I/O errors. *)
From AP Require Import Base.Str Base.PathR Base.Sorting Gen.Tables.
Open Scope N_scope.

(* ---------- results ---------- *)

Inductive rerr := EConflict | EConfigInvalid | EUnexpected | ETargetUnsupported | EUnsupportedVersion.
Inductive result (A : Type) := Ok (a : A) | Err (e : rerr).
Arguments Ok {A} a.
Arguments Err {A} e.

(* ---------- configuration ---------- *)

Inductive mtype := TInstructions | TSkill | TPrompt | TCommand.
Inductive scope := SUser | SProject | SBoth.
Inductive oval := OBool (b : bool) | OStr (v : str) | OOther.     (* serde_yaml::Value of an option *)

(* one file of a module source tree: relative path as components (file-system names), content as
   BYTES, and whether the bytes are valid UTF-8 (std::fs::read_to_string succeeds) *)
Record file := mkFile { f_rel : list str; f_bytes : list N; f_utf8 : bool }.

Record module := mkModule {
  m_id : str; m_type : mtype; m_enabled : bool; m_tags : list str; m_targets : list str;
  m_files : list file;        (* source tree, in directory-iteration order (arbitrary) *)
  m_fm_ok : bool;             (* verdict of the YAML front-matter check of SKILL.md / the command file *)
  m_h10 : str                 (* first 10 hex digits of sha256(id) (hashlib, never agentpack) *)
}.

Record profile := mkProfile { p_name : str; p_tags : list str; p_include : list str; p_exclude : list str }.
Record tcfg := mkTcfg { t_name : str; t_scope : scope; t_opts : list (str * oval) }.
Record cfg := mkCfg { c_version : N; c_profiles : list profile; c_targets : list tcfg; c_modules : list module }.

(* HOME, project root (git root of the cwd), $CODEX_HOME *)
Record env := mkEnv { e_home : str; e_project : str; e_codex_env : option str }.

Definition mtype_eqb (a b : mtype) : bool :=
  match a, b with
  | TInstructions, TInstructions | TSkill, TSkill | TPrompt, TPrompt | TCommand, TCommand => true
  | _, _ => false
  end.

Fixpoint assoc {A} (k : str) (l : list (str * A)) : option A :=
  match l with
  | [] => None
  | (k', v) :: r => if str_eqb k k' then Some v else assoc k r
  end.

Fixpoint bytes_eqb (a b : list N) : bool :=
  match a, b with
  | [], [] => true
  | x :: a', y :: b' => (x =? y) && bytes_eqb a' b'
  | _, _ => false
  end.

Fixpoint rel_eqb (a b : list str) : bool :=
  match a, b with
  | [], [] => true
  | x :: a', y :: b' => str_eqb x y && rel_eqb a' b'
  | _, _ => false
  end.

(* ---------- literals ---------- *)

Definition t_codex := s "codex".
Definition t_claude := s "claude_code".
Definition t_cursor := s "cursor".
Definition t_vscode := s "vscode".
Definition t_jetbrains := s "jetbrains".
Definition t_zed := s "zed".
Definition compiled_targets : list str := [t_codex; t_claude; t_cursor; t_vscode; t_jetbrains; t_zed].
Definition project_only_targets : list str := [t_cursor; t_vscode; t_jetbrains; t_zed].

Definition agents_md := s "AGENTS.md".
Definition skill_md := s "SKILL.md".

(* ---------- bytes / text helpers ---------- *)

Definition utf8_enc1 (c : N) : list N :=
  if c <? 128 then [c]
  else if c <? 2048 then [192 + c / 64; 128 + c mod 64]
  else if c <? 65536 then [224 + c / 4096; 128 + (c / 64) mod 64; 128 + c mod 64]
  else [240 + c / 262144; 128 + (c / 4096) mod 64; 128 + (c / 64) mod 64; 128 + c mod 64].
Definition utf8_encode (x : str) : list N := flat_map utf8_enc1 x.

Definition hexd (n : N) : N := if n <? 10 then 48 + n else 87 + n.

(* serde_json::to_string(&str) without the surrounding quotes *)
Definition json_esc1 (c : N) : str :=
  if c =? 34 then [92; 34] else if c =? 92 then [92; 92]
  else if c =? 8 then [92; 98] else if c =? 12 then [92; 102] else if c =? 10 then [92; 110]
  else if c =? 13 then [92; 114] else if c =? 9 then [92; 116]
  else if c <? 32 then [92; 117; 48; 48; hexd (c / 16); hexd (c mod 16)]
  else [c].
Definition json_string (x : str) : str := [34] ++ flat_map json_esc1 x ++ [34].

Definition ends_nl (b : list N) : bool := match rev b with c :: _ => c =? 10 | [] => false end.

(* markers::format_module_section, on bytes *)
Definition format_section (id : str) (content : list N) : list N :=
  utf8_encode marker_start_prefix ++ utf8_encode id ++ utf8_encode (s " -->") ++ [10] ++ content ++
  (if ends_nl content then [] else [10]) ++ utf8_encode marker_end.

(* ids::sanitize_fs_component and store::sanitize_module_id coincide *)
Definition sanitize_char (c : N) : N := if is_ascii_alnum c || (c =? 45) || (c =? 95) then c else 95.
Definition sanitize (x : str) : str := map sanitize_char x.

(* ids::module_fs_key: sanitised id, "module" if empty, cut to the prefix bound (ASCII, so bytes =
   chars), then "--" and ten hex digits of sha256(id) *)
Definition fs_key (m : module) : str :=
  let sn := sanitize (m_id m) in
  let sn := if is_empty sn then s "module" else sn in
  firstn (N.to_nat fs_key_prefix_max) sn ++ s "--" ++ m_h10 m.

Fixpoint split_once (c : N) (x : str) : option (str * str) :=
  match x with
  | [] => None
  | a :: r => if a =? c then Some ([], r)
              else match split_once c r with Some (h, t) => Some (a :: h, t) | None => None end
  end.

(* targets::util::module_name_from_id(..).unwrap_or_else(sanitize_module_id) *)
Definition skill_name (m : module) : str :=
  match split_once 58 (m_id m) with Some (_, name) => name | None => sanitize (m_id m) end.

(* ---------- config.rs: validate_manifest ---------- *)

(* config::is_safe_skill_name: relative, no ".." component, no backslash *)
Definition safe_skill_name (name : str) : bool :=
  negb (is_abs name) && negb (mem_char 92 name) && negb (existsb (fun c => str_eqb c dotdot) (split_on 47 name)).

Definition name_leb (a b : tcfg) : bool := str_leb (t_name a) (t_name b).
Definition sorted_targets (c : cfg) : list tcfg := isort name_leb (c_targets c).   (* BTreeMap order *)

Fixpoint check_targets (ts : list tcfg) : option rerr :=
  match ts with
  | [] => None
  | t :: r =>
    if negb (mem_str (t_name t) compiled_targets) then Some ETargetUnsupported
    else if mem_str (t_name t) project_only_targets && (match t_scope t with SUser => true | _ => false end)
    then Some EConfigInvalid
    else check_targets r
  end.

Fixpoint check_modules (seen : list str) (ms : list module) : option rerr :=
  match ms with
  | [] => None
  | m :: r =>
    if mem_str (m_id m) seen then Some EConfigInvalid
    else if mtype_eqb (m_type m) TSkill &&
            (match split_once 58 (m_id m) with Some (_, name) => negb (safe_skill_name name) | None => false end)
    then Some EConfigInvalid
    else if negb (forallb (fun t => mem_str t compiled_targets) (m_targets m)) then Some ETargetUnsupported
    else check_modules (m_id m :: seen) r
  end.

Definition find_profile (c : cfg) (name : str) : option profile :=
  find (fun p => str_eqb (p_name p) name) (c_profiles c).

Definition validate_manifest (c : cfg) : option rerr :=
  if negb (c_version c =? 1) then Some EUnsupportedVersion
  else match check_targets (sorted_targets c) with
       | Some e => Some e
       | None =>
         match find_profile c (s "default") with
         | None => Some EConfigInvalid
         | Some _ => check_modules [] (c_modules c)
         end
       end.

(* ---------- engine.rs: select_modules ---------- *)

Definition selected_by (p : profile) (m : module) : bool :=
  m_enabled m && negb (mem_str (m_id m) (p_exclude p)) &&
  (existsb (fun t => mem_str t (p_tags p)) (m_tags m) || mem_str (m_id m) (p_include p)).

Definition id_leb (a b : module) : bool := str_leb (m_id a) (m_id b).

Definition select_modules (c : cfg) (profile_name : str) : option (list module) :=
  match find_profile c profile_name with
  | None => None
  | Some p => Some (isort id_leb (filter (selected_by p) (c_modules c)))
  end.

(* ---------- target_selection.rs ---------- *)

Definition selected_targets (c : cfg) (filter_ : str) : result (list tcfg) :=
  if str_eqb filter_ (s "all") then Ok (sorted_targets c)      (* every configured target is compiled (validated) *)
  else if mem_str filter_ compiled_targets then
    match find (fun t => str_eqb (t_name t) filter_) (c_targets c) with
    | Some t => Ok [t]
    | None => Err EConfigInvalid
    end
  else Err ETargetUnsupported.

(* ---------- engine.rs materialize_module (no overlays) + validate.rs ---------- *)

Definition ignored_rel (rel : list str) : bool := existsb (fun c => mem_str c copy_tree_ignored) rel.
Definition copied (fs : list file) : list file := filter (fun f => negb (ignored_rel (f_rel f))) fs.
Definition has_backslash (f : file) : bool := existsb (mem_char 92) (f_rel f).
Definition find_file (rel : list str) (fs : list file) : option file := find (fun f => rel_eqb (f_rel f) rel) fs.

Definition file_name (f : file) (default : str) : str :=
  match rev (f_rel f) with n :: _ => n | [] => default end.

(* Path::extension() == Some("md"): the name ends with ".md" and something precedes that dot *)
Definition ext_md (name : str) : bool :=
  match strip_suffix (s ".md") name with Some (_ :: _) => true | _ => false end.

Definition validate_tree (m : module) (fs : list file) : option rerr :=
  if existsb has_backslash fs then Some EConfigInvalid
  else match m_type m with
  | TInstructions => match find_file [agents_md] fs with Some _ => None | None => Some EUnexpected end
  | TSkill =>
    match find_file [skill_md] fs with
    | None => Some EConfigInvalid
    | Some f => if negb (f_utf8 f) then Some EUnexpected else if m_fm_ok m then None else Some EConfigInvalid
    end
  | TPrompt =>
    match fs with
    | [f] => if ext_md (file_name f []) then None else Some EUnexpected
    | _ => Some EUnexpected
    end
  | TCommand =>
    match fs with
    | [f] => if negb (ext_md (file_name f [])) then Some EUnexpected
             else if negb (f_utf8 f) then Some EUnexpected
             else if m_fm_ok m then None else Some EUnexpected
    | _ => Some EUnexpected
    end
  end.

Definition materialize (m : module) : result (list file) :=
  let fs := copied (m_files m) in
  match validate_tree m fs with Some e => Err e | None => Ok fs end.

(* targets::util::first_file: the minimum path (component-wise; the first of equal minima) *)
Fixpoint rel_ltb (a b : list str) : bool :=
  match a, b with
  | [], [] => false
  | [], _ => true
  | _, [] => false
  | x :: a', y :: b' => match str_compare x y with Lt => true | Gt => false | Eq => rel_ltb a' b' end
  end.
Fixpoint min_file (f : file) (r : list file) : file :=
  match r with
  | [] => f
  | g :: r' => min_file (if rel_ltb (f_rel g) (f_rel f) then g else f) r'
  end.
Definition first_file (fs : list file) : option file :=
  match fs with [] => None | f :: r => Some (min_file f r) end.

(* ---------- targets::util ---------- *)

Definition scope_flags (sc : scope) : bool * bool :=
  match sc with SUser => (true, false) | SProject => (false, true) | SBoth => (true, true) end.

Definition get_bool (opts : list (str * oval)) (key : str) (default : bool) : bool :=
  match assoc key opts with
  | Some (OBool b) => b
  | Some (OStr v) =>
    let v := map ascii_lower (trim v) in
    if mem_str v get_bool_true_strings then true
    else if mem_str v get_bool_false_strings then false
    else default
  | _ => default
  end.

(* `allow_<scope> && get_bool(opts, name, default)` with (default, scope) from Gen.Tables *)
Definition flag (t : tcfg) (name : str) (tbl : bool * bool) : bool :=
  let '(au, ap) := scope_flags (t_scope t) in
  (if snd tbl then ap else au) && get_bool (t_opts t) name (fst tbl).

Definition expand_tilde (e : env) (x : str) : str :=
  match strip_prefix (s "~/") x with Some rest => push (e_home e) rest | None => x end.

Definition nonblank (x : str) : bool := negb (is_empty (trim x)).

Definition codex_home (e : env) (opts : list (str * oval)) : str :=
  let fallback := match e_codex_env e with
                  | Some v => if nonblank v then expand_tilde e v else expand_tilde e codex_home_default
                  | None => expand_tilde e codex_home_default
                  end in
  match assoc codex_home_option_name opts with
  | Some (OStr v) => if nonblank v then expand_tilde e v else fallback
  | _ => fallback
  end.

(* ---------- outputs ---------- *)

Record root := mkRoot { r_target : str; r_path : str; r_scan : bool }.

(* one insert_file call: the destination is root.join(seg1).join(seg2)… *)
Record emit := mkEmit { e_target : str; e_root : str; e_segs : list str; e_bytes : list N; e_ids : list str }.
Definition e_path (e : emit) : str := fold_left push (e_segs e) (e_root e).

Definition key := (str * list comp)%type.          (* TargetPath { target, path } up to Path equality *)
Definition e_key (e : emit) : key := (e_target e, components (e_path e)).
Definition key_eqb (a b : key) : bool := str_eqb (fst a) (fst b) && comps_eqb (snd a) (snd b).

Inductive step := Emit (e : emit) | Fail (c : rerr).   (* in the order the Rust code reaches them *)

Definition permits (t : str) (m : module) : bool :=
  match m_targets m with [] => true | _ => mem_str t (m_targets m) end.
Definition mods_for (t : str) (ty : mtype) (ms : list module) : list module :=
  filter (fun m => mtype_eqb (m_type m) ty && permits t m) ms.

Definition when {A} (b : bool) (l : list A) : list A := if b then l else [].

(* the instructions_parts loop: first error wins, in module order *)
Fixpoint collect_parts (ms : list module) : result (list (str * list N)) :=
  match ms with
  | [] => Ok []
  | m :: r =>
    match materialize m with
    | Err e => Err e
    | Ok fs =>
      match find_file [agents_md] fs with
      | None => collect_parts r
      | Some f =>
        if f_utf8 f then
          match collect_parts r with Ok ps => Ok ((m_id m, f_bytes f) :: ps) | Err e => Err e end
        else Err EUnexpected
      end
    end
  end.

Definition combine (sep : str) (parts : list (str * list N)) : list N :=
  if Nat.ltb 1 (length parts)
  then Str.join (utf8_encode sep) (map (fun p => format_section (fst p) (snd p)) parts)
  else Str.join (utf8_encode sep) (map snd parts).

(* the aggregated instructions file, inserted at each enabled destination (root, file name) *)
Definition agg_steps (t : str) (sep : str) (parts : list (str * list N)) (dests : list (str * str)) : list step :=
  match parts with
  | [] => []
  | _ => map (fun d => Emit (mkEmit t (fst d) [snd d] (combine sep parts) (map fst parts))) dests
  end.

(* skill loop body: every file below <root>/<skill_name>/<rel with '\' -> '/'> for each enabled root *)
Definition rel_string (f : file) : str := replace_char 92 47 (Str.join [47] (f_rel f)).
Definition skill_emits (t : str) (m : module) (fs : list file) (dests : list str) : list step :=
  flat_map (fun f => map (fun d => Emit (mkEmit t d [skill_name m; rel_string f] (f_bytes f) [m_id m])) dests) fs.

Definition skill_steps (t : str) (m : module) (dests : list str) : list step :=
  match materialize m with
  | Err e => [Fail e]
  | Ok fs => skill_emits t m fs dests
  end.

(* prompt / command: the single file, under a name derived from its file name *)
Definition single_steps (t : str) (m : module) (default : str) (rename : str -> str) (dests : list str) : list step :=
  match materialize m with
  | Err e => [Fail e]
  | Ok fs =>
    match first_file fs with
    | None => [Fail EUnexpected]
    | Some f => map (fun d => Emit (mkEmit t d [rename (file_name f default)] (f_bytes f) [m_id m])) dests
    end
  end.

(* ----- codex.rs ----- *)
Definition codex_adapter (e : env) (t : tcfg) (ms : list module) : list root * list step :=
  let home := codex_home e (t_opts t) in
  let proj := e_project e in
  let w_repo_skills := flag t (s "write_repo_skills") opt_codex_write_repo_skills in
  let w_user_skills := flag t (s "write_user_skills") opt_codex_write_user_skills in
  let w_user_prompts := flag t (s "write_user_prompts") opt_codex_write_user_prompts in
  let w_agents_global := flag t (s "write_agents_global") opt_codex_write_agents_global in
  let w_agents_repo := flag t (s "write_agents_repo_root") opt_codex_write_agents_repo_root in
  let prompts_dir := push home (s "prompts") in
  let user_skills := push home (s "skills") in
  let repo_skills := push proj (s ".codex/skills") in
  let roots :=
    when w_agents_global [mkRoot t_codex home false] ++
    when w_user_prompts [mkRoot t_codex prompts_dir true] ++
    when w_user_skills [mkRoot t_codex user_skills true] ++
    when w_agents_repo [mkRoot t_codex proj false] ++
    when w_repo_skills [mkRoot t_codex repo_skills true] in
  let steps :=
    match collect_parts (mods_for t_codex TInstructions ms) with
    | Err c => [Fail c]
    | Ok parts =>
      agg_steps t_codex agg_sep_codex parts
        (when w_agents_global [(home, agents_md)] ++ when w_agents_repo [(proj, agents_md)]) ++
      flat_map (fun m => if w_user_prompts
                         then single_steps t_codex m (s "prompt.md") (fun n => n) [prompts_dir]
                         else [])
               (mods_for t_codex TPrompt ms) ++
      flat_map (fun m => skill_steps t_codex m (when w_user_skills [user_skills] ++ when w_repo_skills [repo_skills]))
               (mods_for t_codex TSkill ms)
    end in
  (roots, steps).

(* ----- claude_code.rs ----- *)
Definition claude_adapter (e : env) (t : tcfg) (ms : list module) : list root * list step :=
  let proj := e_project e in
  let w_repo_cmds := flag t (s "write_repo_commands") opt_claude_code_write_repo_commands in
  let w_user_cmds := flag t (s "write_user_commands") opt_claude_code_write_user_commands in
  let w_repo_skills := flag t (s "write_repo_skills") opt_claude_code_write_repo_skills in
  let w_user_skills := flag t (s "write_user_skills") opt_claude_code_write_user_skills in
  let user_cmds := expand_tilde e (s "~/.claude/commands") in
  let user_skills := expand_tilde e (s "~/.claude/skills") in
  let repo_cmds := push proj (s ".claude/commands") in
  let repo_skills := push proj (s ".claude/skills") in
  let roots :=
    when w_user_cmds [mkRoot t_claude user_cmds true] ++
    when w_repo_cmds [mkRoot t_claude repo_cmds true] ++
    when w_user_skills [mkRoot t_claude user_skills true] ++
    when w_repo_skills [mkRoot t_claude repo_skills true] in
  let steps :=
    flat_map (fun m => single_steps t_claude m (s "command.md") (fun n => n)
                         (when w_user_cmds [user_cmds] ++ when w_repo_cmds [repo_cmds]))
             (mods_for t_claude TCommand ms) ++
    flat_map (fun m => if w_user_skills || w_repo_skills
                       then skill_steps t_claude m (when w_user_skills [user_skills] ++ when w_repo_skills [repo_skills])
                       else [])
             (mods_for t_claude TSkill ms) in
  (roots, steps).

(* ----- cursor.rs ----- *)
Definition cursor_rule_bytes (m : module) (body : list N) : list N :=
  let header := cursor_header_before ++ json_string (cursor_description_prefix ++ m_id m) ++ cursor_header_after in
  let out := utf8_encode header ++ body in
  if ends_nl out then out else out ++ [10].

Definition cursor_steps (m : module) (rules_dir : str) : list step :=
  match materialize m with
  | Err e => [Fail e]
  | Ok fs =>
    match find_file [agents_md] fs with
    | None => [Fail EUnexpected]        (* std::fs::read fails; unreachable after validation *)
    | Some f => [Emit (mkEmit t_cursor rules_dir [fs_key m ++ cursor_rule_ext] (cursor_rule_bytes m (f_bytes f)) [m_id m])]
    end
  end.

Definition cursor_adapter (e : env) (t : tcfg) (ms : list module) : list root * list step :=
  let w_rules := flag t (s "write_rules") opt_cursor_write_rules in
  let rules_dir := push (e_project e) (s ".cursor/rules") in
  (when w_rules [mkRoot t_cursor rules_dir true],
   flat_map (fun m => if w_rules then cursor_steps m rules_dir else []) (mods_for t_cursor TInstructions ms)).

(* ----- vscode.rs ----- *)
Definition vscode_prompt_name (n : str) : str :=
  if ends_with (s ".prompt.md") n then n
  else match strip_suffix (s ".md") n with
       | Some stem => stem ++ s ".prompt.md"
       | None => n ++ s ".prompt.md"
       end.

Definition vscode_adapter (e : env) (t : tcfg) (ms : list module) : list root * list step :=
  let w_instr := flag t (s "write_instructions") opt_vscode_write_instructions in
  let w_prompts := flag t (s "write_prompts") opt_vscode_write_prompts in
  let github := push (e_project e) (s ".github") in
  let prompts_dir := push github (s "prompts") in
  let roots := when w_instr [mkRoot t_vscode github false] ++ when w_prompts [mkRoot t_vscode prompts_dir true] in
  let steps :=
    match collect_parts (mods_for t_vscode TInstructions ms) with   (* collected even when the option is off *)
    | Err c => [Fail c]
    | Ok parts =>
      when w_instr (agg_steps t_vscode agg_sep_vscode parts [(github, s "copilot-instructions.md")]) ++
      flat_map (fun m => if w_prompts
                         then single_steps t_vscode m (s "prompt.md") vscode_prompt_name [prompts_dir]
                         else [])
               (mods_for t_vscode TPrompt ms)
    end in
  (roots, steps).

(* ----- jetbrains.rs / zed.rs: modules are skipped (not even materialised) when the option is off ----- *)
Definition simple_agg_adapter (tn : str) (w : bool) (sep : str) (root_dir : str) (scan : bool) (fname : str)
           (ms : list module) : list root * list step :=
  (when w [mkRoot tn root_dir scan],
   match collect_parts (when w (mods_for tn TInstructions ms)) with
   | Err c => [Fail c]
   | Ok parts => when w (agg_steps tn sep parts [(root_dir, fname)])
   end).

Definition jetbrains_adapter (e : env) (t : tcfg) (ms : list module) : list root * list step :=
  simple_agg_adapter t_jetbrains (flag t (s "write_guidelines") opt_jetbrains_write_guidelines) agg_sep_jetbrains
                     (push (e_project e) (s ".junie")) true (s "guidelines.md") ms.

Definition zed_adapter (e : env) (t : tcfg) (ms : list module) : list root * list step :=
  simple_agg_adapter t_zed (flag t (s "write_rules") opt_zed_write_rules) agg_sep_zed
                     (e_project e) false (s ".rules") ms.

(* target_adapters::adapter_for *)
Definition adapter (e : env) (ms : list module) (t : tcfg) : list root * list step :=
  if str_eqb (t_name t) t_codex then codex_adapter e t ms
  else if str_eqb (t_name t) t_claude then claude_adapter e t ms
  else if str_eqb (t_name t) t_cursor then cursor_adapter e t ms
  else if str_eqb (t_name t) t_vscode then vscode_adapter e t ms
  else if str_eqb (t_name t) t_jetbrains then jetbrains_adapter e t ms
  else if str_eqb (t_name t) t_zed then zed_adapter e t ms
  else ([], []).      (* adapter_for = None: the target is silently skipped *)

(* ---------- deploy.rs: insert_desired_file ---------- *)

Record entry := mkEntry { d_key : key; d_bytes : list N; d_ids : list str }.

Fixpoint lookup (D : list entry) (k : key) : option entry :=
  match D with
  | [] => None
  | x :: r => if key_eqb (d_key x) k then Some x else lookup r k
  end.

Fixpoint dedup_adj (l : list str) : list str :=
  match l with
  | [] => []
  | a :: r => match r with
              | b :: _ => if str_eqb a b then dedup_adj r else a :: dedup_adj r
              | [] => [a]
              end
  end.
(* BTreeSet<String> built from both id lists, back to a Vec *)
Definition set_union (a b : list str) : list str := dedup_adj (isort str_leb (a ++ b)).

Fixpoint set_ids (D : list entry) (k : key) (ids : list str) : list entry :=
  match D with
  | [] => []
  | x :: r => if key_eqb (d_key x) k then mkEntry (d_key x) (d_bytes x) ids :: r else x :: set_ids r k ids
  end.

Definition insert_desired (D : list entry) (e : emit) : result (list entry) :=
  match lookup D (e_key e) with
  | Some x => if bytes_eqb (d_bytes x) (e_bytes e)
              then Ok (set_ids D (e_key e) (set_union (d_ids x) (e_ids e)))
              else Err EConflict
  | None => Ok (D ++ [mkEntry (e_key e) (e_bytes e) (e_ids e)])
  end.

Fixpoint run (D : list entry) (steps : list step) : result (list entry) :=
  match steps with
  | [] => Ok D
  | Fail c :: _ => Err c
  | Emit e :: r => match insert_desired D e with Ok D' => run D' r | Err c => Err c end
  end.

(* ---------- targets/mod.rs: dedup_roots, best_root_for; apply.rs: best_root_index ---------- *)

Definition root_key (r : root) : key := (r_target r, components (r_path r)).
Definition root_leb (a b : root) : bool :=
  match str_compare (r_target a) (r_target b) with
  | Lt => true
  | Gt => false
  | Eq => match comps_compare (components (r_path a)) (components (r_path b)) with Gt => false | _ => true end
  end.

(* Vec::dedup_by on (target, root): the first of a run of equal neighbours stays *)
Fixpoint dedup_from (a : root) (l : list root) : list root :=       (* a = the last element kept *)
  match l with
  | [] => [a]
  | b :: r => if key_eqb (root_key a) (root_key b) then dedup_from a r else a :: dedup_from b r
  end.
Definition dedup_by_key (l : list root) : list root :=
  match l with [] => [] | a :: r => dedup_from a r end.

Definition root_eqb (a b : root) : bool := key_eqb (root_key a) (root_key b) && Bool.eqb (r_scan a) (r_scan b).

(* max_by_key(components().count()): the LAST maximal candidate *)
Fixpoint last_max (best : option root) (l : list root) : option root :=
  match l with
  | [] => best
  | r :: rest =>
    match best with
    | None => last_max (Some r) rest
    | Some b => if Nat.leb (length (components (r_path b))) (length (components (r_path r)))
                then last_max (Some r) rest else last_max best rest
    end
  end.

Definition contains_path (r : root) (k : key) : bool :=
  str_eqb (r_target r) (fst k) &&
  match strip_prefix_c (components (r_path r)) (snd k) with Some _ => true | None => false end.

Definition best_root_for (R : list root) (k : key) : option root :=
  last_max None (filter (fun r => contains_path r k) R).

Fixpoint index_of (R : list root) (b : root) (i : nat) : option nat :=
  match R with
  | [] => None
  | r :: rest => if root_eqb r b then Some i else index_of rest b (S i)
  end.

Definition best_root_index (R : list root) (k : key) : option nat :=
  match best_root_for R k with Some b => index_of R b 0 | None => None end.

(* apply.rs write_target_manifests: the managed_files[].path recorded for a desired file *)
Definition manifest_rel (r : root) (k : key) : option str :=
  match strip_prefix_c (components (r_path r)) (snd k) with
  | Some rest => Some (replace_char 92 47 (render_rel rest))
  | None => None
  end.

(* per root (by index): the relpaths it lists, in desired-state order *)
Definition manifest_entries (R : list root) (D : list entry) (i : nat) : list (key * str) :=
  flat_map (fun x => match best_root_index R (d_key x) with
                     | Some j => if Nat.eqb i j
                                 then match nth_error R j with
                                      | Some r => match manifest_rel r (d_key x) with Some p => [(d_key x, p)] | None => [] end
                                      | None => []
                                      end
                                 else []
                     | None => []
                     end) D.

(* ---------- engine.rs: desired_state ---------- *)

Definition all_steps (e : env) (ms : list module) (ts : list tcfg) : list step :=
  flat_map (fun t => snd (adapter e ms t)) ts.
Definition all_roots (e : env) (ms : list module) (ts : list tcfg) : list root :=
  flat_map (fun t => fst (adapter e ms t)) ts.
Definition dedup_roots (l : list root) : list root := dedup_by_key (isort root_leb l).

Definition render (c : cfg) (e : env) (profile_name filter_ : str) : result (list entry * list root) :=
  match select_modules c profile_name with
  | None => Err EUnexpected
  | Some ms =>
    match selected_targets c filter_ with
    | Err x => Err x
    | Ok ts =>
      match run [] (all_steps e ms ts) with
      | Err x => Err x
      | Ok D => Ok (D, dedup_roots (all_roots e ms ts))
      end
    end
  end.

(* handlers/read_only.rs (plan / preview / diff) and the deploy handler: the --target filter is
   resolved first, then Engine::desired_state *)
Definition plan_desired (c : cfg) (e : env) (profile_name filter_ : str) : result (list entry * list root) :=
  match selected_targets c filter_ with
  | Err x => Err x
  | Ok _ => render c e profile_name filter_
  end.

(* Manifest::load (validate_manifest) + the planning handler *)
Definition load_render (c : cfg) (e : env) (profile_name filter_ : str) : result (list entry * list root) :=
  match validate_manifest c with
  | Some x => Err x
  | None => plan_desired c e profile_name filter_
  end.
