(* Model/PolicyRules.v — C20, the simpler lint rules of src/policy.rs as decision functions.
   YAML / JSON parsing is not modelled: front matter, org config, manifest and lockfile arrive parsed
   (the harness builds the files from these structures, so the structure is known by construction).
   Definitions only. *)
From AP Require Import Base.Str Model.PolicyCmd Model.PolicyUrl.
Open Scope N_scope.

Inductive yaml_val :=
| YStr (v : str)
| YSeq (items : list (option str))     (* Some s = string item, None = non-string item *)
| YOther.

Inductive frontmatter :=
| FmMissing                                   (* no leading '---' line *)
| FmInvalid                                   (* unterminated / YAML error *)
| FmNotMapping
| FmMap (fields : list (str * yaml_val)).     (* string keys in document order *)

(* fn yaml_get: first entry with that string key *)
Fixpoint yaml_get (fields : list (str * yaml_val)) (k : str) : option yaml_val :=
  match fields with
  | [] => None
  | (k', v) :: r => if str_eqb k' k then Some v else yaml_get r k
  end.

(* fn lint_skill_file: number of skill_frontmatter issues *)
Definition skill_field_ok (fields : list (str * yaml_val)) (k : str) : bool :=
  match yaml_get fields k with
  | Some (YStr v) => negb (is_empty (trim v))
  | _ => false
  end.

Definition k_name := s "name".
Definition k_description := s "description".
Definition k_allowed_tools := s "allowed-tools".

Definition skill_issue_count (fm : frontmatter) : N :=
  match fm with
  | FmMap fields =>
    (if skill_field_ok fields k_name then 0 else 1) + (if skill_field_ok fields k_description then 0 else 1)
  | _ => 1
  end.

(* fn allowed_tools_allows_bash / lint_claude_command_allowed_tools *)
Definition bash_paren : str := s "Bash(".
Definition allowed_tools_allows_bash (v : yaml_val) : bool :=
  match v with
  | YStr x => contains bash_paren x
  | YSeq items => existsb (fun i => match i with Some x => contains bash_paren x | None => false end) items
  | YOther => false
  end.

Definition allowed_tools_ok (fm : frontmatter) : bool :=
  match fm with
  | FmMap fields =>
    match yaml_get fields k_allowed_tools with
    | Some v => allowed_tools_allows_bash v
    | None => false
    end
  | _ => false
  end.

(* fn lint_claude_command_file: (allowed-tools issue?, dangerous-defaults issues) *)
Definition command_file_issues (md : str) (fm : frontmatter) : bool * list (N * list str) :=
  if uses_bash_tool md then (negb (allowed_tools_ok fm), dangerous_issues md) else (false, []).

Definition command_file_clean (md : str) (fm : frontmatter) : bool :=
  match command_file_issues md fm with
  | (false, []) => true
  | _ => false
  end.

(* ---- org policy over a loaded manifest ---- *)
Record cfg_module := { cm_id : str; cm_enabled : bool; cm_git : option str }.    (* git url *)

Definition nonblank_trimmed (l : list str) : list str :=
  filter (fun x => negb (is_empty x)) (map trim l).
Definition blank_count (l : list str) : nat := length (filter is_empty (map trim l)).

(* fn lint_distribution_policy *)
Definition missing_targets (required : list str) (targets : list str) : list str :=
  filter (fun t => negb (mem_str t targets)) (nonblank_trimmed required).

Fixpoint find_module (id : str) (ms : list cfg_module) : option cfg_module :=
  match ms with
  | [] => None
  | m :: r => if str_eqb (cm_id m) id then Some m else find_module id r
  end.

Definition missing_modules (required : list str) (ms : list cfg_module) : list str :=
  filter (fun id => match find_module id ms with None => true | Some _ => false end) (nonblank_trimmed required).

Definition disabled_modules (required : list str) (ms : list cfg_module) : list str :=
  filter (fun id => match find_module id ms with Some m => negb (cm_enabled m) | None => false end)
         (nonblank_trimmed required).

(* fn lint_supply_chain_lockfile: by_id is a BTreeMap filled in file order — the LAST entry wins *)
Record lock_entry := { le_id : str; le_git : option (str * str) }.   (* (url, commit) *)

Inductive lock_state := LockMissing | LockInvalid | LockOk (entries : list lock_entry).

Fixpoint find_lock (id : str) (ls : list lock_entry) : option lock_entry :=
  match ls with
  | [] => None
  | e :: r => match find_lock id r with
              | Some e' => Some e'
              | None => if str_eqb (le_id e) id then Some e else None
              end
  end.

Definition is_ascii_hexdigit (c : N) : bool :=
  is_ascii_digit c || ((97 <=? c) && (c <=? 102)) || ((65 <=? c) && (c <=? 70)).
Definition is_hex_sha (x : str) : bool := (utf8_len x =? 40) && forallb is_ascii_hexdigit x.

Definition r_missing := s "supply_chain_lockfile_missing".
Definition r_invalid := s "supply_chain_lockfile_invalid".
Definition r_missing_module := s "supply_chain_lockfile_missing_module".
Definition r_source_mismatch := s "supply_chain_lockfile_source_mismatch".
Definition r_url_mismatch := s "supply_chain_lockfile_url_mismatch".
Definition r_unpinned := s "supply_chain_lockfile_unpinned_commit".
Definition r_allowed := s "supply_chain_allowed_git_remotes".
Definition r_pack_allowed := s "policy_pack_allowed_git_remotes".
Definition r_policy_config := s "policy_config".
Definition r_req_targets := s "distribution_required_targets".
Definition r_req_modules := s "distribution_required_modules".

Definition lock_issues_for (entries : list lock_entry) (m : cfg_module) : list (str * str) :=
  match cm_git m with
  | None => []
  | Some url =>
    match find_lock (cm_id m) entries with
    | None => [(r_missing_module, cm_id m)]
    | Some e =>
      match le_git e with
      | None => [(r_source_mismatch, cm_id m)]
      | Some (lurl, commit) =>
        (if str_eqb (normalize url) (normalize lurl) then [] else [(r_url_mismatch, cm_id m)])
        ++ (if is_hex_sha commit then [] else [(r_unpinned, cm_id m)])
      end
    end
  end.

Definition enabled_git (ms : list cfg_module) : list cfg_module :=
  filter (fun m => cm_enabled m && match cm_git m with Some _ => true | None => false end) ms.

Definition lockfile_issues (lock : lock_state) (ms : list cfg_module) : list (str * str) :=
  match enabled_git ms with
  | [] => []
  | egm =>
    match lock with
    | LockMissing => [(r_missing, [])]
    | LockInvalid => [(r_invalid, [])]
    | LockOk entries => flat_map (lock_issues_for entries) egm
    end
  end.

(* fn lint_supply_chain_policy (manifest loads) — issues as (rule, module id or "") *)
Definition supply_chain_issues (allowed_raw : list str) (require_lockfile : bool) (pack_git : option str)
           (lock : lock_state) (ms : list cfg_module) : list (str * str) :=
  let blanks := repeat (r_policy_config, ([] : str)) (blank_count allowed_raw) in
  let allowed := nonblank_trimmed allowed_raw in
  match allowed with
  | [] => if require_lockfile then blanks ++ lockfile_issues lock ms else blanks
  | _ =>
    blanks
    ++ (match pack_git with
        | Some url => if remote_allowed url allowed then [] else [(r_pack_allowed, [])]
        | None => []
        end)
    ++ (if require_lockfile then lockfile_issues lock ms else [])
    ++ flat_map (fun m => match cm_git m with
                          | Some url => if remote_allowed url allowed then [] else [(r_allowed, cm_id m)]
                          | None => []
                          end) ms
  end.

Definition distribution_issues (req_targets req_modules : list str) (targets : list str) (ms : list cfg_module)
  : list (str * str) :=
  repeat (r_policy_config, ([] : str)) (blank_count req_targets)
  ++ repeat (r_policy_config, ([] : str)) (blank_count req_modules)
  ++ (match missing_targets req_targets targets with [] => [] | _ => [(r_req_targets, [])] end)
  ++ (match missing_modules req_modules ms, disabled_modules req_modules ms with
      | [], [] => []
      | _, _ => [(r_req_modules, [])]
      end).
