(* Model/Status.v — status drift report (src/handlers/status.rs status_drift_report,
   src/app/status_drift.rs).  Definitions only. *)
From AP Require Import Base.Str Base.Sorting Gen.Tables Model.Deploy.
Open Scope N_scope.

Inductive dkind := DModified | DMissing | DExtra.
Definition dkind_eqb (a b : dkind) : bool :=
  match a, b with DModified, DModified | DMissing, DMissing | DExtra, DExtra => true | _, _ => false end.

Record ditem := { i_target : str; i_root : option path; i_path : path;
                  i_expected : option N; i_actual : option fobj; i_kind : dkind }.

Definition find_desired (D : list dfile) (tp : tpath) : option dfile :=
  find (fun d => tp_eqb tp (dkey d)) D.

(* desired-versus-disk comparison of one desired file (used by both fallbacks) *)
Definition compare_desired (f : fs) (rt : option path) (d : dfile) : list ditem :=
  match f (dpath d) with
  | Some o => if fobj_eqb o (FBytes (dcontent d)) then []
              else [Build_ditem (dtarget d) rt (dpath d) (Some (dcontent d)) (Some o) DModified]
  | None => [Build_ditem (dtarget d) rt (dpath d) (Some (dcontent d)) None DMissing]
  end.

Definition root_path_of (roots : list root) (d : dfile) : option path :=
  match best_root_idx roots (dtarget d) (dpath d) with
  | Some i => option_map rpath (nth_error roots i)
  | None => None
  end.

(* comparison driven by one accepted manifest entry *)
Definition compare_managed (f : fs) (D : list dfile) (r : root) (tp : tpath) : list ditem :=
  match find_desired D tp, f (snd tp) with
  | Some d, Some o => if fobj_eqb o (FBytes (dcontent d)) then []
                      else [Build_ditem (fst tp) (Some (rpath r)) (snd tp) (Some (dcontent d)) (Some o) DModified]
  | None, Some o => [Build_ditem (fst tp) (Some (rpath r)) (snd tp) None (Some o) DExtra]
  | Some d, None => [Build_ditem (fst tp) (Some (rpath r)) (snd tp) (Some (dcontent d)) None DMissing]
  | None, None => []
  end.

(* fs::list_files(root): regular files below root, skipping .agentpack / .git directories (filter on
   the components relative to the walked root).  The fs is a function, so the listing ranges over a
   given universe of paths (complete: every existing file is in it). *)
Definition ignored_dir (c : str) : bool :=
  str_eqb c [46;97;103;101;110;116;112;97;99;107]  (* .agentpack *)
  || str_eqb c [46;103;105;116].                    (* .git *)

Definition listed_under (f : fs) (r : root) (p : path) : bool :=
  match strip_root (rpath r) p with
  | Some (c :: cs) => exists_at f p && negb (existsb ignored_dir (c :: cs))
  | _ => false
  end.

Fixpoint dedup_paths (l : list path) : list path :=
  match l with
  | [] => []
  | x :: r => if existsb (path_eqb x) r then dedup_paths r else x :: dedup_paths r
  end.

Definition extras_scan (f : fs) (universe : list path) (r : root) (mp : list tpath) : list ditem :=
  map (fun p => Build_ditem (rtarget r) (Some (rpath r)) p None (f p) DExtra)
      (filter (fun p => listed_under f r p && negb (is_manifest_path p) && negb (mem_tp (rtarget r, p) mp))
              (dedup_paths universe)).

Definition any_manifest (f : fs) (roots : list root) : bool :=
  existsb (fun r => match read_manifest f r with Some _ => true | None => false end) roots.

Definition root_items (f : fs) (universe : list path) (roots : list root) (D : list dfile)
           (i : nat) (r : root) : list ditem :=
  match read_manifest f r with
  | None =>
    flat_map (compare_desired f (Some (rpath r)))
             (filter (fun d => idx_is (best_root_idx roots (dtarget d) (dpath d)) i) D)
  | Some _ =>
    let mp := dedup_tp (root_managed f r) in
    flat_map (compare_managed f D r) mp ++ (if rscan r then extras_scan f universe r mp else [])
  end.

Fixpoint report_roots (i : nat) (rs : list root) (f : fs) (universe : list path) (roots : list root)
         (D : list dfile) : list ditem :=
  match rs with
  | [] => []
  | r :: rest => root_items f universe roots D i r ++ report_roots (S i) rest f universe roots D
  end.

Definition report (f : fs) (universe : list path) (roots : list root) (D : list dfile) : list ditem :=
  if any_manifest f roots then report_roots 0 roots f universe roots D
  else flat_map (fun d => compare_desired f (root_path_of roots d) d) D.

(* warnings that matter for the property: fallback used (needs_deploy_apply) *)
Definition needs_deploy_apply (f : fs) (roots : list root) (D : list dfile) : bool :=
  negb (any_manifest f roots)
  || existsb (fun ir => match read_manifest f (snd ir) with
                        | None => existsb (fun d => idx_is (best_root_idx roots (dtarget d) (dpath d)) (fst ir)) D
                        | Some _ => false
                        end)
             (combine (seq 0 (length roots)) roots).

(* app/status_drift.rs *)
Record dsummary := { s_modified : N; s_missing : N; s_extra : N }.
Definition count_kind (k : dkind) (l : list ditem) : N :=
  N.of_nat (length (filter (fun it => dkind_eqb (i_kind it) k) l)).
Definition drift_summary (l : list ditem) : dsummary :=
  {| s_modified := count_kind DModified l; s_missing := count_kind DMissing l; s_extra := count_kind DExtra l |}.

Definition filter_only (only : list dkind) (l : list ditem) : list ditem :=
  match only with
  | [] => l
  | _ => filter (fun it => existsb (dkind_eqb (i_kind it)) only) l
  end.

Definition same_root (t : str) (rt : option path) (it : ditem) : bool :=
  str_eqb (i_target it) t &&
  match rt, i_root it with
  | Some a, Some b => path_eqb a b
  | None, None => true
  | _, _ => false
  end.
Definition summary_of_root (t : str) (rt : option path) (l : list ditem) : dsummary :=
  drift_summary (filter (same_root t rt) l).

(* ---------- cli/commands/status.rs run(): the report, the --only filter, the summaries ---------- *)
(* (target, root) groups of a list of items, in order of first appearance (the code keeps them in a
   BTreeMap: the order is not part of the property, the SET of groups and their counts are) *)
Definition group_key := (str * option path)%type.
Definition gk_eqb (a b : group_key) : bool :=
  str_eqb (fst a) (fst b) &&
  match snd a, snd b with
  | Some x, Some y => path_eqb x y
  | None, None => true
  | _, _ => false
  end.
Fixpoint groups_of (seen : list group_key) (l : list ditem) : list group_key :=
  match l with
  | [] => []
  | it :: r => let g := (i_target it, i_root it) in
               if existsb (gk_eqb g) seen then groups_of seen r else g :: groups_of (g :: seen) r
  end.
Definition summary_by_root (l : list ditem) : list (group_key * dsummary) :=
  map (fun g => (g, summary_of_root (fst g) (snd g) l)) (groups_of [] l).

Record status_out := { so_drift : list ditem; so_summary : dsummary;
                       so_by_root : list (group_key * dsummary); so_total : option dsummary }.

(* filter_drift_by_kind, then drift_summary_by_root OF THE FILTERED LIST *)
Definition status_cmd (only : list dkind) (f : fs) (universe : list path) (roots : list root) (D : list dfile) : status_out :=
  let all := report f universe roots D in
  let shown := filter_only only all in
  {| so_drift := shown; so_summary := drift_summary shown; so_by_root := summary_by_root shown;
     so_total := match only with [] => None | _ => Some (drift_summary all) end |}.
