(* Model/Rebase.v — overlay rebase (src/overlay/rebase/mod.rs, rebase/base.rs, overlay/dir.rs,
   overlay/patch/rebase.rs, overlay/patch/mod.rs, overlay/layout/util.rs, cli/commands/overlay.rs)
   and the materialisation of a module under one overlay (overlay/mod.rs::compose_module_tree).
   Definitions only; lemmas in Proofs/RebaseP.v.

   Representation.  File contents are byte lists ([content]); relative POSIX paths are code point
   strings ([rel]).  A directory is an association list with distinct keys ([files]); upstream trees,
   the baseline's file manifest and the merge base are functions [rel -> option content].  Where the
   code compares SHA-256 digests the model compares contents (DESIGN 3.1).  The external tools are
   Section variables: [merge3 base ours theirs] = `git merge-file -p ours base theirs` ([None] = git
   failed, [Some (text, conflicted)] otherwise), [git_apply patch rel target] = `git apply` of the
   patch file in a directory holding [target] at [rel], [diff rel a b] = `git diff --no-index`
   ([None] = identical). *)
From AP Require Import Base.Str Base.Sorting.
Open Scope N_scope.

Definition content := list N.
Definition rel := str.
Definition fmap := rel -> option content.
Definition files := list (rel * content).

Fixpoint lookup (r : rel) (l : files) : option content :=
  match l with
  | [] => None
  | (k, c) :: t => if str_eqb k r then Some c else lookup r t
  end.

(* a listing read as a function *)
Definition fm_of (l : files) : fmap := fun r => lookup r l.

Definition remove_key (r : rel) (l : files) : files :=
  filter (fun kc => negb (str_eqb (fst kc) r)) l.

Fixpoint set_key (r : rel) (c : content) (l : files) : files :=
  match l with
  | [] => [(r, c)]
  | (k, c0) :: t => if str_eqb k r then (k, c) :: t else (k, c0) :: set_key r c t
  end.

Definition nilb {A} (l : list A) : bool := match l with [] => true | _ => false end.

(* ---------- error codes ---------- *)
Definition code_not_found : str := Eval vm_compute in s "E_OVERLAY_NOT_FOUND".
Definition code_baseline_missing : str := Eval vm_compute in s "E_OVERLAY_BASELINE_MISSING".
Definition code_baseline_unsupported : str := Eval vm_compute in s "E_OVERLAY_BASELINE_UNSUPPORTED".
Definition code_config_invalid : str := Eval vm_compute in s "E_CONFIG_INVALID".
Definition code_unexpected : str := Eval vm_compute in s "E_UNEXPECTED".
Definition code_rebase_conflict : str := Eval vm_compute in s "E_OVERLAY_REBASE_CONFLICT".
Definition code_confirm_required : str := Eval vm_compute in s "E_CONFIRM_REQUIRED".
Definition code_patch_apply_failed : str := Eval vm_compute in s "E_OVERLAY_PATCH_APPLY_FAILED".

(* ---------- paths ---------- *)

(* PathBuf's Ord: component-wise, each component byte-wise (= code point order). *)
Fixpoint comps_compare (a b : list str) : comparison :=
  match a, b with
  | [], [] => Eq
  | [], _ => Lt
  | _, [] => Gt
  | x :: a', y :: b' => match str_compare x y with Eq => comps_compare a' b' | c => c end
  end.

Definition path_leb (a b : rel) : bool :=
  match comps_compare (split_on 47 a) (split_on 47 b) with Gt => false | _ => true end.

Definition entry_leb (x y : rel * content) : bool := path_leb (fst x) (fst y).

(* layout/util.rs::validate_posix_relpath *)
Definition valid_relpath (p : rel) : bool :=
  negb (is_empty p) && negb (starts_with [47] p) &&
  forallb (fun seg => negb (is_empty seg) && negb (str_eqb seg [46]) && negb (str_eqb seg [46; 46]))
          (split_on 47 p).

(* Path::extension of the last component: text after the last '.', unless there is no '.' or the
   only '.' is the first character of the name. *)
Fixpoint take_until_dot (x : str) : option (str * str) :=
  match x with
  | [] => None
  | c :: r => if c =? 46 then Some ([], r)
              else match take_until_dot r with Some (e, b) => Some (c :: e, b) | None => None end
  end.

Definition extension (name : str) : option str :=
  match take_until_dot (rev name) with
  | Some (e, b) => if is_empty b then None else Some (rev e)
  | None => None
  end.

Definition patch_word : str := Eval vm_compute in s "patch".
Definition dot_patch : str := Eval vm_compute in s ".patch".

(* patch/mod.rs::list_patch_files: extension equals "patch", ASCII case-insensitively *)
Definition has_patch_ext (p : rel) : bool :=
  match extension (last (split_on 47 p) []) with
  | Some e => str_eqb (map ascii_lower e) patch_word
  | None => false
  end.

(* ---------- UTF-8 validity (std::str::from_utf8) ---------- *)
Definition is_cont (b : N) : bool := (128 <=? b) && (b <=? 191).

Fixpoint utf8_valid_fuel (fuel : nat) (bs : list N) : bool :=
  match fuel with
  | O => is_empty bs
  | S f =>
    match bs with
    | [] => true
    | b :: r =>
      if b <? 128 then utf8_valid_fuel f r
      else if (194 <=? b) && (b <=? 223) then
        match r with c1 :: r' => is_cont c1 && utf8_valid_fuel f r' | _ => false end
      else if (224 <=? b) && (b <=? 239) then
        match r with
        | c1 :: c2 :: r' =>
          (if b =? 224 then (160 <=? c1) && (c1 <=? 191)
           else if b =? 237 then (128 <=? c1) && (c1 <=? 159)
           else is_cont c1) && is_cont c2 && utf8_valid_fuel f r'
        | _ => false
        end
      else if (240 <=? b) && (b <=? 244) then
        match r with
        | c1 :: c2 :: c3 :: r' =>
          (if b =? 240 then (144 <=? c1) && (c1 <=? 191)
           else if b =? 244 then (128 <=? c1) && (c1 <=? 143)
           else is_cont c1) && is_cont c2 && is_cont c3 && utf8_valid_fuel f r'
        | _ => false
        end
      else false
    end
  end.

Definition utf8_valid (bs : content) : bool := utf8_valid_fuel (length bs) bs.

(* ---------- patch header validation (patch/mod.rs::validate_patch_text_matches_file) ---------- *)
Definition binary_marker : str := Eval vm_compute in s "GIT binary patch".
Definition minus_hdr : str := Eval vm_compute in s "--- ".
Definition plus_hdr : str := Eval vm_compute in s "+++ ".
Definition dev_null : str := Eval vm_compute in s "/dev/null".
Definition a_slash : str := Eval vm_compute in s "a/".
Definition b_slash : str := Eval vm_compute in s "b/".

Fixpoint header_lines (ls : list str) : list str * list str :=
  match ls with
  | [] => ([], [])
  | l :: r =>
    let '(o, n) := header_lines r in
    match strip_prefix minus_hdr l with
    | Some rest => (rest :: o, n)
    | None => match strip_prefix plus_hdr l with
              | Some rest => (o, rest :: n)
              | None => (o, n)
              end
    end
  end.

Definition header_path (v : str) : str :=
  match split_whitespace v with p :: _ => p | [] => [] end.

Definition strip_ab (p : str) : str :=
  match strip_prefix a_slash p with
  | Some r => r
  | None => match strip_prefix b_slash p with Some r => r | None => p end
  end.

(* [text] is the decoded patch text; [expected] the relpath derived from the patch file name *)
Definition patch_header_ok (expected : rel) (text : str) : bool :=
  if contains binary_marker text then false else
  match header_lines (lines text) with
  | ([o], [n]) =>
    let op := header_path o in let np := header_path n in
    if str_eqb op dev_null || str_eqb np dev_null then false
    else str_eqb (strip_ab op) expected && str_eqb (strip_ab np) expected
  | _ => false
  end.

(* patch/rebase.rs::conflict_markers_for_deleted_upstream *)
Definition markers_head : content := Eval vm_compute in s "<<<<<<< ours
".
Definition markers_tail : content := Eval vm_compute in s "
=======
>>>>>>> theirs (deleted upstream)
".
Definition markers_deleted (ours : content) : content := markers_head ++ ours ++ markers_tail.

(* ---------- options, report ---------- *)
Record opts := mkOpts { dry_run : bool; sparsify : bool }.

Record report := mkRep { processed : N; updated : list rel; deleted : list rel;
                         skipped : list rel; conflicts : list rel }.
Definition empty_report : report := mkRep 0 [] [] [] [].

Inductive tag := TNone | TUpdated | TDeleted | TSkipped.

(* push onto the list the tag names (Vec::push) and onto conflicts when flagged; one more processed *)
Definition add_rep (name : rel) (t : tag) (conflicted : bool) (r : report) : report :=
  mkRep (processed r + 1)
        (match t with TUpdated => updated r ++ [name] | _ => updated r end)
        (match t with TDeleted => deleted r ++ [name] | _ => deleted r end)
        (match t with TSkipped => skipped r ++ [name] | _ => skipped r end)
        (if conflicted then conflicts r ++ [name] else conflicts r).

(* rebase_overlay's final report.updated.sort() etc. (String order) *)
Definition sort_report (r : report) : report :=
  mkRep (processed r) (isort str_leb (updated r)) (isort str_leb (deleted r))
        (isort str_leb (skipped r)) (isort str_leb (conflicts r)).

Inductive act := AKeep | AWrite (c : content) | ADelete.

Definition apply_act (r : rel) (a : act) (st : files) : files :=
  match a with
  | AKeep => st
  | AWrite c => set_key r c st
  | ADelete => remove_key r st
  end.

(* every write / delete site carries its own dry-run guard in the Rust code *)
Definition do_write (o : opts) (c : content) : act := if dry_run o then AKeep else AWrite c.
Definition do_delete (o : opts) : act := if dry_run o then AKeep else ADelete.

Inductive fout := FErr (code : str) | FOk (a : act) (t : tag) (conflicted : bool).

Inductive okind := KDir | KPatch.

(* .agentpack/baseline.json: the file manifest (path -> the content whose digest is recorded), the
   repo revision (ordinal of the commit; None = no git identity) and, determined by that revision,
   what `git show <rev>:<module>/<path>` returns (the merge base). *)
Record baseline := mkBL { bl_files : fmap; bl_rev : option N; bl_base : fmap }.

Record overlay := mkOv {
  ov_exists : bool;
  ov_kind : okind;                 (* .agentpack/overlay.json (default dir) *)
  ov_files : files;                (* regular files outside .agentpack / .git (fs::list_files) *)
  ov_patches : files;              (* files below .agentpack/patches *)
  ov_conflicts : files;            (* files below .agentpack/conflicts *)
  ov_baseline : option baseline }.

(* the upstream module: working tree, tree committed at HEAD, ordinal of HEAD (None: no git repo) *)
Record world := mkW { w_up : fmap; w_head : fmap; w_rev : option N }.

Section Oracles.
  Variable merge3 : content -> content -> content -> option (content * bool).
  Variable git_apply : content -> rel -> content -> option content.
  Variable diff : rel -> content -> content -> option content.

  (* ---------- overlay/dir.rs::rebase_overlay_dir_files, one iteration ---------- *)
  Definition rebase_dir_file (o : opts) (in_baseline base : option content) (ours : content)
             (upstream : option content) : fout :=
    match in_baseline with
    | None => FOk AKeep TSkipped false
    | Some expected =>
      match base with
      | None => FErr code_unexpected                      (* "missing base for {rel}" *)
      | Some b =>
        if negb (str_eqb b expected) then FErr code_baseline_unsupported else
        match upstream with
        | None =>
          if str_eqb ours b then FOk (do_delete o) TDeleted false
          else FOk AKeep TSkipped false
        | Some u =>
          if str_eqb ours b then
            if sparsify o then FOk (do_delete o) TDeleted false
            else if negb (str_eqb ours u) then FOk (do_write o u) TUpdated false
            else FOk AKeep TNone false
          else if str_eqb u b then FOk AKeep TNone false
          else if str_eqb ours u then
            if sparsify o then FOk (do_delete o) TDeleted false else FOk AKeep TNone false
          else
            match merge3 b ours u with
            | None => FErr code_unexpected                (* "git merge-file failed" *)
            | Some (m, conflicted) =>
              if sparsify o && negb conflicted && str_eqb m u
              then FOk (do_delete o) TDeleted conflicted
              else FOk (do_write o m) TUpdated conflicted
            end
        end
      end
    end.

  (* the loop over the sorted listing; an error aborts, keeping what was already written *)
  Fixpoint dir_loop (o : opts) (bl base up : fmap) (todo : files) (st : files) (rep : report)
    : files * (str + report) :=
    match todo with
    | [] => (st, inr rep)
    | (r, ours) :: rest =>
      match rebase_dir_file o (bl r) (base r) ours (up r) with
      | FErr c => (st, inl c)
      | FOk a t cf => dir_loop o bl base up rest (apply_act r a st) (add_rep r t cf rep)
      end
    end.

  (* ---------- overlay/patch/rebase.rs::rebase_overlay_patch_files, one iteration ---------- *)
  Inductive pout :=
  | PErr (code : str)
  | POk (a : act) (artefact : option (rel * content)) (t : tag) (name : rel) (conflicted : bool).

  Definition rebase_patch_file (o : opts) (bl base up : fmap) (rel_patch : rel) (patch : content) : pout :=
    match strip_suffix dot_patch rel_patch with
    | None => POk AKeep None TSkipped rel_patch false
    | Some rt =>
      if negb (valid_relpath rt) then PErr code_config_invalid else
      match bl rt with
      | None => POk AKeep None TSkipped rt false
      | Some expected =>
        match base rt with
        | None => PErr code_unexpected
        | Some b =>
          if negb (str_eqb b expected) then PErr code_baseline_unsupported else
          (* apply_patch_to_base_for_rebase *)
          if negb (utf8_valid b) then PErr code_config_invalid else
          if negb (utf8_valid patch) then PErr code_config_invalid else
          if negb (patch_header_ok rt (utf8_decode patch)) then PErr code_config_invalid else
          match git_apply patch rt b with
          | None => PErr code_config_invalid
          | Some ours =>
            match up rt with
            | None =>
              if dry_run o then POk AKeep None TNone rt true
              else if utf8_valid ours then POk AKeep (Some (rt, markers_deleted ours)) TNone rt true
              else PErr code_unexpected
            | Some u =>
              if negb (utf8_valid b && utf8_valid ours && utf8_valid u) then PErr code_config_invalid else
              match merge3 b ours u with
              | None => PErr code_unexpected
              | Some (m, true) =>
                if dry_run o then POk AKeep None TNone rt true
                else match diff rt u m with
                     | Some p => POk (AWrite p) (Some (rt, m)) TNone rt true
                     | None => POk AKeep (Some (rt, m)) TNone rt true
                     end
              | Some (m, false) =>
                match diff rt u m with
                | None => POk (do_delete o) None TDeleted rt false
                | Some p => POk (do_write o p) None TUpdated rt false
                end
              end
            end
          end
        end
      end
    end.

  Definition write_artefact (a : option (rel * content)) (cf : files) : files :=
    match a with Some (r, c) => set_key r c cf | None => cf end.

  Fixpoint patch_loop (o : opts) (bl base up : fmap) (todo : files) (ps cfs : files) (rep : report)
    : files * files * (str + report) :=
    match todo with
    | [] => (ps, cfs, inr rep)
    | (rp, patch) :: rest =>
      match rebase_patch_file o bl base up rp patch with
      | PErr c => (ps, cfs, inl c)
      | POk a art t name cf =>
        patch_loop o bl base up rest (apply_act rp a ps) (write_artefact art cfs) (add_rep name t cf rep)
      end
    end.

  (* ---------- overlay/rebase/mod.rs::rebase_overlay ---------- *)
  Definition patch_files_of (ov : overlay) : files :=
    filter (fun kc => has_patch_ext (fst kc)) (ov_patches ov).

  Definition refreshed (o : opts) (w : world) (old : option baseline) : option baseline :=
    if dry_run o then old else Some (mkBL (w_up w) (w_rev w) (w_head w)).

  Definition rebase_overlay (o : opts) (w : world) (ov : overlay) : overlay * (str + report) :=
    if negb (ov_exists ov) then (ov, inl code_not_found) else
    match ov_baseline ov with
    | None => (ov, inl code_baseline_missing)
    | Some bl =>
      let has_overrides := negb (nilb (ov_files ov)) in
      let has_patches := negb (nilb (patch_files_of ov)) in
      if has_overrides && has_patches then (ov, inl code_config_invalid) else
      match ov_kind ov with
      | KDir =>
        if has_patches then (ov, inl code_config_invalid) else
        match bl_rev bl with
        | None => (ov, inl code_baseline_unsupported)
        | Some _ =>
          match dir_loop o (bl_files bl) (bl_base bl) (w_up w) (isort entry_leb (ov_files ov))
                         (ov_files ov) empty_report with
          | (fs, inl c) =>
            (mkOv true KDir fs (ov_patches ov) (ov_conflicts ov) (ov_baseline ov), inl c)
          | (fs, inr rep) =>
            (mkOv true KDir fs (ov_patches ov) (ov_conflicts ov) (refreshed o w (ov_baseline ov)),
             inr (sort_report rep))
          end
        end
      | KPatch =>
        if has_overrides then (ov, inl code_config_invalid) else
        match bl_rev bl with
        | None => (ov, inl code_baseline_unsupported)
        | Some _ =>
          match patch_loop o (bl_files bl) (bl_base bl) (w_up w) (isort entry_leb (patch_files_of ov))
                           (ov_patches ov) (ov_conflicts ov) empty_report with
          | (ps, cfs, inl c) =>
            (mkOv true KPatch (ov_files ov) ps cfs (ov_baseline ov), inl c)
          | (ps, cfs, inr rep) =>
            (mkOv true KPatch (ov_files ov) ps cfs (refreshed o w (ov_baseline ov)),
             inr (sort_report rep))
          end
        end
      end
    end.

  (* ---------- cli/commands/overlay.rs, OverlayCommands::Rebase ---------- *)
  Inductive cmd_out :=
  | CErr (code : str)
  | CConflict (cs : list rel) (r : report)   (* E_OVERLAY_REBASE_CONFLICT; details: conflicts, summary *)
  | COk (r : report).

  Definition overlay_rebase_cmd (json yes : bool) (o : opts) (w : world) (ov : overlay)
    : overlay * cmd_out :=
    if json && negb yes && negb (dry_run o) then (ov, CErr code_confirm_required) else
    match rebase_overlay o w ov with
    | (ov', inl c) => (ov', CErr c)
    | (ov', inr rep) =>
      if negb (nilb (conflicts rep)) then (ov', CConflict (conflicts rep) rep)
      else (ov', COk rep)
    end.

  (* ---------- materialisation: overlay over upstream (overlay/mod.rs::compose_module_tree with
     one layer; fs::copy_tree twice for dir overlays, patch/mod.rs::apply_patch_overlays) ---------- *)
  Definition materialize_dir (ovf : files) (up : fmap) : fmap :=
    fun r => match lookup r ovf with Some c => Some c | None => up r end.

  Definition set_out (r : rel) (c : content) (out : fmap) : fmap :=
    fun x => if str_eqb r x then Some c else out x.

  Fixpoint compose_patch_loop (todo : files) (out : fmap) : str + fmap :=
    match todo with
    | [] => inr out
    | (rp, patch) :: rest =>
      match strip_suffix dot_patch rp with
      | None => compose_patch_loop rest out
      | Some rt =>
        if negb (valid_relpath rt) then inl code_config_invalid else
        match out rt with
        | None => inl code_config_invalid                 (* patch target is missing *)
        | Some target =>
          if negb (utf8_valid target) then inl code_config_invalid else
          if negb (utf8_valid patch) then inl code_config_invalid else
          if negb (patch_header_ok rt (utf8_decode patch)) then inl code_config_invalid else
          match git_apply patch rt target with
          | None => inl code_patch_apply_failed
          | Some c => compose_patch_loop rest (set_out rt c out)
          end
        end
      end
    end.

  Definition materialize (ov : overlay) (up : fmap) : str + fmap :=
    if negb (ov_exists ov) then inr up else
    let has_overrides := negb (nilb (ov_files ov)) in
    let has_patches := negb (nilb (patch_files_of ov)) in
    if has_overrides && has_patches then inl code_config_invalid else
    match ov_kind ov with
    | KDir => if has_patches then inl code_config_invalid else inr (materialize_dir (ov_files ov) up)
    | KPatch => if has_overrides then inl code_config_invalid
                else compose_patch_loop (isort entry_leb (patch_files_of ov)) up
    end.

  (* ---------- histories: a rebase command after each upstream update ---------- *)
  Fixpoint run_cmds (steps : list (bool * bool * opts * world)) (ov : overlay)
    : list (overlay * cmd_out) :=
    match steps with
    | [] => []
    | (json, yes, o, w) :: rest =>
      let r := overlay_rebase_cmd json yes o w ov in
      r :: run_cmds rest (fst r)
    end.
End Oracles.
