(* Model/Machine.v — the two path components that do not come from a module id:
   the machine id (src/machine.rs normalize_machine_id, detect_machine_id; src/engine.rs Engine::load's
   --machine override) and the project id (src/project.rs compute_project_id).  Definitions only;
   proofs in Proofs/MachineP.v.

   str::to_lowercase is modelled on code points.  Only what the result can observe matters: every
   character outside [A-Za-z0-9_-] becomes (part of) one '-', so of the Unicode lowercase mapping
   the model keeps the ASCII letters and the non-ASCII characters whose lowercase form contains an
   ASCII character (Gen.Tables.lower_into_ascii, recomputed on every run: U+0130 and U+212A); every
   other character is left as it is — whatever str::to_lowercase makes of it stays non-ASCII. *)
From AP Require Import Base.Str.
From AP Require Gen.Tables.
Open Scope N_scope.

Fixpoint lookup_lower (tab : list (N * list N)) (c : N) : option (list N) :=
  match tab with
  | [] => None
  | (k, v) :: r => if k =? c then Some v else lookup_lower r c
  end.

Definition lower1 (c : N) : list N :=
  if is_ascii_upper c then [c + 32]
  else match lookup_lower Gen.Tables.lower_into_ascii c with
       | Some v => v
       | None => [c]
       end.

Definition to_lowercase (x : str) : str := flat_map lower1 x.

(* the `ok` test of normalize_machine_id *)
Definition mid_ok (c : N) : bool := is_ascii_alnum c || (c =? 45) || (c =? 95).

(* the loop: kept characters, one '-' per run of others ([last_dash] also set by a literal '-') *)
Fixpoint norm_go (last_dash : bool) (x : str) : str :=
  match x with
  | [] => []
  | c :: r =>
    if mid_ok c then c :: norm_go (c =? 45) r
    else if last_dash then norm_go true r
    else 45 :: norm_go true r
  end.

Definition is_dash (c : N) : bool := c =? 45.

Definition normalize_machine_id (x : str) : str :=
  trim_matches is_dash (norm_go false (to_lowercase (trim x))).

Definition c_unknown : str := [117; 110; 107; 110; 111; 119; 110].   (* "unknown" *)

(* detect_machine_id: [cands] = the values of AGENTPACK_MACHINE_ID, HOSTNAME, COMPUTERNAME that are
   set (and valid Unicode), then the output of `hostname` if it ran: the first whose normal form is
   not empty, else "unknown" *)
Fixpoint detect_machine_id (cands : list str) : str :=
  match cands with
  | [] => c_unknown
  | v :: r => let n := normalize_machine_id v in
              if is_empty n then detect_machine_id r else n
  end.

(* Engine::load *)
Definition engine_machine_id (override : option str) (cands : list str) : str :=
  match override with
  | Some m => let n := normalize_machine_id m in
              if is_empty n then detect_machine_id cands else n
  | None => detect_machine_id cands
  end.

(* compute_project_id: 16 hex digits of SHA-256 of the basis (normalised origin URL, or the
   canonical project root) *)
Definition project_id (sha : str -> str) (basis : str) : str := firstn 16 (sha basis).

(* a path component that stays where it is put: not empty, not "." or "..", no separator; and made
   of [a-z0-9_-] only *)
Definition is_mid_char (c : N) : bool := is_ascii_lower c || is_ascii_digit c || (c =? 45) || (c =? 95).
Definition safe_component (v : str) : bool :=
  negb (is_empty v) && negb (str_eqb v [46]) && negb (str_eqb v [46; 46])
  && negb (mem_char 47 v) && negb (mem_char 92 v) && negb (mem_char 0 v).
