(* Model/Overlay.v — composition of a module tree from upstream + overlay layers.
   Mirrors src/overlay/mod.rs::compose_module_tree, src/overlay/patch/mod.rs
   (list_patch_files, apply_patch_overlays, validate_patch_text_matches_file),
   src/overlay/layout/{mod.rs::read_overlay_meta, util.rs::validate_posix_relpath, join_posix},
   src/fs.rs::{copy_tree, list_files}, and the layer order of src/engine.rs::materialize_module.
   Definitions only; proofs in Proofs/OverlayP.v.

   A directory tree is the list of its regular files, keyed by the path relative to the tree root
   (component list).  `git apply` is a Section variable [apply_patch patch_text target_text]
   (None = non-zero exit); JSON parsing of .agentpack/overlay.json is not modelled (its outcome is
   the field [l_meta]). *)
From AP Require Import Base.Str Base.Sorting.
Open Scope N_scope.

Definition rpath := list str.

Inductive content :=
| Text (t : str)            (* valid UTF-8 *)
| Raw (b : list N).         (* bytes that are not valid UTF-8 *)

Definition files := list (rpath * content).

Definition is_empty_list {A} (l : list A) : bool := match l with [] => true | _ => false end.

Fixpoint rpath_eqb (a b : rpath) : bool :=
  match a, b with
  | [], [] => true
  | x :: a', y :: b' => str_eqb x y && rpath_eqb a' b'
  | _, _ => false
  end.

Fixpoint get (r : rpath) (t : files) : option content :=
  match t with
  | [] => None
  | (k, c) :: rest => if rpath_eqb k r then Some c else get r rest
  end.

(* ---------- metadata components ---------- *)

Definition dot_agentpack : str := [46;97;103;101;110;116;112;97;99;107].   (* ".agentpack" *)
Definition dot_git : str := [46;103;105;116].                               (* ".git" *)
Definition c_patches : str := [112;97;116;99;104;101;115].                  (* "patches" *)

Definition meta_comp (c : str) : bool := str_eqb c dot_agentpack || str_eqb c dot_git.
Definition is_meta (r : rpath) : bool := existsb meta_comp r.

(* ---------- fs::copy_tree (filter on the path RELATIVE to the source root) ---------- *)

Fixpoint proper_prefix (a b : rpath) : bool :=
  match a, b with
  | [], _ :: _ => true
  | x :: a', y :: b' => str_eqb x y && proper_prefix a' b'
  | _, _ => false
  end.

(* copying to out/<r> fails (plain I/O error) when <r> is an existing directory or when a parent
   of <r> is an existing file *)
Definition conflicts (r : rpath) (out : files) : bool :=
  existsb (fun e => proper_prefix r (fst e) || proper_prefix (fst e) r) out.

(* None = I/O error.  The first entry of [src] for a path is the one that ends up on top. *)
Fixpoint copy_tree (src out : files) : option files :=
  match src with
  | [] => Some out
  | (r, c) :: rest =>
    match copy_tree rest out with
    | None => None
    | Some o =>
      if is_meta r then Some o
      else if conflicts r o then None
      else Some ((r, c) :: o)
    end
  end.

(* ---------- fs::list_files: regular files whose path RELATIVE to the walked root has no
   .agentpack / .git component (since the fix of DESIGN F10, commit a2bce3b; before it the filter
   looked at the absolute path and listed nothing below ~/.agentpack) ---------- *)

Definition list_files (t : files) : files := filter (fun e => negb (is_meta (fst e))) t.

(* ---------- patch::list_patch_files ---------- *)

(* Path::extension of a file name: the part after the last '.', unless there is no '.', the name
   is "..", or the last '.' is the first character. *)
Fixpoint span_dot (x : str) : str * option str :=      (* (before first '.', after it) *)
  match x with
  | [] => ([], None)
  | c :: r => if c =? 46 then ([], Some r)
              else let '(a, b) := span_dot r in (c :: a, b)
  end.

Definition extension (name : str) : option str :=
  if str_eqb name [46; 46] then None
  else match span_dot (rev name) with
       | (_, None) => None
       | (after_rev, Some before_rev) =>
         if is_empty before_rev then None else Some (rev after_rev)
       end.

Definition lit_patch : str := [112;97;116;99;104].                 (* "patch" *)
Definition lit_dot_patch : str := [46;112;97;116;99;104].          (* ".patch" *)

Definition ext_is_patch (name : str) : bool :=
  match extension name with
  | Some e => str_eqb (map ascii_lower e) lit_patch        (* eq_ignore_ascii_case("patch") *)
  | None => false
  end.

Fixpoint strip_rprefix (p r : rpath) : option rpath :=
  match p, r with
  | [], _ => Some r
  | a :: p', b :: r' => if str_eqb a b then strip_rprefix p' r' else None
  | _ :: _, [] => None
  end.

Definition patches_root : rpath := [dot_agentpack; c_patches].

(* PathBuf ordering: component-wise, components as byte strings *)
Fixpoint rpath_compare (a b : rpath) : comparison :=
  match a, b with
  | [], [] => Eq
  | [], _ => Lt
  | _, [] => Gt
  | x :: a', y :: b' =>
    match str_compare x y with
    | Eq => rpath_compare a' b'
    | c => c
    end
  end.

Definition entry_leb (a b : rpath * content) : bool :=
  match rpath_compare (fst a) (fst b) with Gt => false | _ => true end.

(* files below .agentpack/patches whose extension is "patch" (any case), keyed by the path
   relative to the patches root, sorted *)
Definition patch_entries (t : files) : files :=
  isort entry_leb
    (flat_map (fun e => match strip_rprefix patches_root (fst e) with
                        | Some (x :: rest) =>
                          if ext_is_patch (last (x :: rest) []) then [(x :: rest, snd e)] else []
                        | _ => []
                        end) t).

(* ---------- layout::util ---------- *)

Definition slash : str := [47].

Definition validate_posix_relpath (p : str) : bool :=
  negb (is_empty p) && negb (starts_with slash p)
  && forallb (fun seg => negb (is_empty seg) && negb (str_eqb seg [46]) && negb (str_eqb seg [46; 46]))
             (split_on 47 p).

(* ---------- patch::validate_patch_text_matches_file ---------- *)

Definition lit_old : str := [45;45;45;32].                  (* "--- " *)
Definition lit_new : str := [43;43;43;32].                  (* "+++ " *)
Definition lit_devnull : str := [47;100;101;118;47;110;117;108;108].   (* "/dev/null" *)
Definition lit_binary : str := [71;73;84;32;98;105;110;97;114;121;32;112;97;116;99;104]. (* "GIT binary patch" *)
Definition lit_a : str := [97;47].                          (* "a/" *)
Definition lit_b : str := [98;47].                          (* "b/" *)

(* for line in lines: if strip_prefix("--- ") .. else if strip_prefix("+++ ") .. *)
Fixpoint header_lines (ls : list str) : list str * list str :=
  match ls with
  | [] => ([], [])
  | l :: r =>
    let '(o, n) := header_lines r in
    match strip_prefix lit_old l with
    | Some rest => (rest :: o, n)
    | None => match strip_prefix lit_new l with
              | Some rest => (o, rest :: n)
              | None => (o, n)
              end
    end
  end.

Definition parse_header_path (v : str) : str :=
  match split_whitespace v with [] => [] | p :: _ => p end.

Definition strip_ab_prefix (p : str) : str :=
  match strip_prefix lit_a p with
  | Some r => r
  | None => match strip_prefix lit_b p with Some r => r | None => p end
  end.

Inductive hdr := HBinary | HCount | HDevNull | HMismatch | HOk.

Definition header_check (patch_text expected : str) : hdr :=
  if contains lit_binary patch_text then HBinary
  else match header_lines (lines patch_text) with
       | ([o], [n]) =>
         let op := parse_header_path o in
         let np := parse_header_path n in
         if str_eqb op lit_devnull || str_eqb np lit_devnull then HDevNull
         else if str_eqb (strip_ab_prefix op) expected && str_eqb (strip_ab_prefix np) expected then HOk
         else HMismatch
       | _ => HCount
       end.

(* Known class K13c: the text carries git extended-header sections beyond the one ---/+++ pair
   that header_check looks at (a second "diff --git" section, or one placed after the "---" line).
   Such sections (rename/copy/mode/empty-file create or delete) have no ---/+++ lines, pass
   header_check, and make `git apply` touch files other than the patch's own target. *)
Definition lit_diffgit : str := [100;105;102;102;32;45;45;103;105;116;32].   (* "diff --git " *)

Fixpoint count_diffgit (ls : list str) : N :=
  match ls with
  | [] => 0
  | l :: r => (if starts_with lit_diffgit l then 1 else 0) + count_diffgit r
  end.

Fixpoint split_at_old (ls : list str) : list str * list str :=   (* before / from the first "--- " line *)
  match ls with
  | [] => ([], [])
  | l :: r => if starts_with lit_old l then ([], ls)
              else let '(a, b) := split_at_old r in (l :: a, b)
  end.

Definition single_section (patch_text : str) : bool :=
  let '(pre, post) := split_at_old (lines patch_text) in
  (count_diffgit pre <=? 1) && (count_diffgit post =? 0).

(* ---------- results ---------- *)

Inductive err := EConfigInvalid | EPatchApplyFailed | EUnexpected.

Inductive res (A : Type) :=
| Ok (a : A)
| Err (e : err).
Arguments Ok {A} a.
Arguments Err {A} e.

Inductive okind := KDir | KPatch.
Inductive ometa := MAbsent | MKind (k : okind) | MInvalid.   (* .agentpack/overlay.json *)

Record layer := mkLayer {
  l_exists : bool;        (* overlay.dir.exists() *)
  l_meta : ometa;
  l_files : files         (* every regular file below the overlay dir, path relative to it *)
}.

Definition no_layer : layer := mkLayer false MAbsent [].

Section WithGit.
  (* `git -c core.autocrlf=false apply --whitespace=nowarn <patch>` on the target file *)
  Variable apply_patch : str -> str -> option str.

  (* rel_patch.to_string_lossy().replace('\\', "/") *)
  Definition patch_posix (rel : rpath) : str := replace_char 92 47 (join slash rel).

  (* one iteration of the loop in apply_patch_overlays *)
  Definition patch_step (e : rpath * content) (out : files) : res files :=
    match strip_suffix lit_dot_patch (patch_posix (fst e)) with
    | None => Ok out                                        (* `continue` *)
    | Some rel_target =>
      if negb (validate_posix_relpath rel_target) then Err EConfigInvalid
      else
        let target := split_on 47 rel_target in             (* join_posix *)
        match get target out with
        | None => Err EConfigInvalid                         (* patch target is missing *)
        | Some (Raw _) => Err EConfigInvalid                 (* only UTF-8 text files *)
        | Some (Text tx) =>
          match snd e with
          | Raw _ => Err EConfigInvalid                      (* patch file is not UTF-8 *)
          | Text pt =>
            match header_check pt rel_target with
            | HOk =>
              match apply_patch pt tx with
              | None => Err EPatchApplyFailed
              | Some t' => Ok ((target, Text t') :: out)
              end
            | _ => Err EConfigInvalid
            end
          end
        end
    end.

  Fixpoint apply_patches (ps : files) (out : files) : res files :=
    match ps with
    | [] => Ok out
    | e :: rest =>
      match patch_step e out with
      | Ok o => apply_patches rest o
      | Err c => Err c
      end
    end.

  Definition layer_kind (l : layer) : okind :=
    match l_meta l with MKind k => k | _ => KDir end.

  (* body of the `for overlay in overlays` loop of compose_module_tree *)
  Definition apply_layer (l : layer) (out : files) : res files :=
    if negb (l_exists l) then Ok out
    else match l_meta l with
         | MInvalid => Err EConfigInvalid
         | _ =>
           let has_overrides := negb (is_empty_list (list_files (l_files l))) in
           let patches := patch_entries (l_files l) in
           let has_patches := negb (is_empty_list patches) in
           if has_overrides && has_patches then Err EConfigInvalid
           else match layer_kind l with
                | KDir =>
                  if has_patches then Err EConfigInvalid
                  else match copy_tree (l_files l) out with
                       | Some o => Ok o
                       | None => Err EUnexpected
                       end
                | KPatch =>
                  if has_overrides then Err EConfigInvalid
                  else apply_patches patches out
                end
         end.

  Fixpoint apply_layers (ls : list layer) (out : files) : res files :=
    match ls with
    | [] => Ok out
    | l :: rest =>
      match apply_layer l out with
      | Ok o => apply_layers rest o
      | Err c => Err c
      end
    end.

  (* compose_module_tree: upstream first, then the layers in the order given
     (materialize_module passes [global; machine; project]) *)
  Definition compose (upstream : files) (layers : list layer) : res files :=
    match copy_tree upstream [] with
    | None => Err EUnexpected
    | Some o => apply_layers layers o
    end.
End WithGit.
