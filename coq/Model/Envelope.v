(* Model/Envelope.v — the single exit path of `--json` invocations and the MCP result wrappers.

   Mirrors: src/output.rs (JsonEnvelope::ok / with_command_meta), src/cli/dispatch.rs (run),
   src/cli/json.rs (print_anyhow_error), src/user_error.rs (find_user_error,
   anyhow_error_parts_for_envelope, add_default_reason_code_and_next_actions), src/paths.rs
   (path_to_posix_string) and src/mcp/tools/envelope.rs (envelope_from_anyhow_error,
   envelope_error, tool_result_from_envelope, tool_result_from_user_error, tool_result_unexpected;
   rmcp's CallToolResult::structured_error).  JSON values are kept structurally (serde is not
   modelled); objects are association lists read by key (serde_json::Map is a BTreeMap: key order is
   not observable through lookups).  No proofs here (Proofs/EnvelopeP.v). *)
From AP Require Import Base.Str.
From AP Require Gen.Tables.
Open Scope N_scope.

Inductive json :=
| JNull | JBool (b : bool) | JNum (n : N) | JStr (x : str)
| JArr (l : list json) | JObj (m : list (str * json)).

Fixpoint obj_get (k : str) (m : list (str * json)) : option json :=
  match m with
  | [] => None
  | (k', v) :: r => if str_eqb k' k then Some v else obj_get k r
  end.

Definition has_key (k : str) (m : list (str * json)) : bool :=
  match obj_get k m with Some _ => true | None => false end.

(* map.entry(k).or_insert(v) *)
Definition or_insert (k : str) (v : json) (m : list (str * json)) : list (str * json) :=
  if has_key k m then m else m ++ [(k, v)].

(* ---------- errors ---------- *)

Record uerr := mkU { u_code : str; u_message : str; u_details : option json }.

(* one link of an anyhow chain: a UserError or any other error / context message *)
Inductive link := LUser (u : uerr) | LOther (msg : str).

(* outermost context first, root cause last; never empty *)
Definition chain := (link * list link)%type.

Definition link_msg (l : link) : str :=
  match l with LUser u => u_message u | LOther m => m end.

(* err.chain().find_map(|e| e.downcast_ref::<UserError>()) *)
Fixpoint find_user (ls : list link) : option uerr :=
  match ls with
  | [] => None
  | LUser u :: _ => Some u
  | LOther _ :: r => find_user r
  end.
Definition find_user_error (c : chain) : option uerr := find_user (fst c :: snd c).

Fixpoint assoc {A} (k : str) (t : list (str * A)) : option A :=
  match t with
  | [] => None
  | (k', v) :: r => if str_eqb k' k then Some v else assoc k r
  end.

Definition k_reason : str := s "reason_code".
Definition k_actions : str := s "next_actions".

(* add_default_reason_code_and_next_actions; the match arms are Gen.Tables.default_guidance *)
Definition add_default (code : str) (details : option json) : option json :=
  match assoc code Gen.Tables.default_guidance with
  | None => details
  | Some (rc, acts) =>
    match details with
    | None => Some (JObj [(k_reason, JStr rc); (k_actions, JArr (map JStr acts))])
    | Some (JObj m) =>
      Some (JObj (or_insert k_actions (JArr (map JStr acts)) (or_insert k_reason (JStr rc) m)))
    | Some other => Some other
    end
  end.

Definition e_unexpected : str := s "E_UNEXPECTED".

(* anyhow_error_parts_for_envelope *)
Definition parts (c : chain) : str * str * option json :=
  match find_user_error c with
  | Some u => (u_code u, u_message u, add_default (u_code u) (u_details u))
  | None => (e_unexpected, link_msg (fst c), None)      (* err.to_string() = outermost message *)
  end.

(* ---------- envelope ---------- *)

Record jerror := mkErr { e_code : str; e_message : str; e_details : option json }.

Record envelope := mkEnv {
  schema_version : N; ok : bool; command : str;
  command_id : option str; command_path : option (list str);
  version : str; data : json; warnings : list str; errors : list jerror }.

(* what dispatch knows about the invocation: cli.command_name() and cli.command_path() *)
Record meta := mkMeta { m_command : str; m_path : list str }.
Definition m_id (m : meta) : str := join [32] (m_path m).     (* command_path().join(" ") *)

Definition pkg_version : str := s "0.9.1".   (* env!("CARGO_PKG_VERSION"); not compared *)

Definition envelope_ok (m : meta) (cmd : str) (d : json) (w : list str) : envelope :=
  mkEnv Gen.Tables.json_schema_version true cmd (Some (m_id m)) (Some (m_path m)) pkg_version d w [].

(* print_anyhow_error: JsonEnvelope::ok(command_name, {}) + meta, then ok=false, errors=[one] *)
Definition envelope_err (m : meta) (code msg : str) (det : option json) : envelope :=
  mkEnv Gen.Tables.json_schema_version false (m_command m) (Some (m_id m)) (Some (m_path m))
        pkg_version (JObj []) [] [mkErr code msg det].

(* what run_with returned: the handler printed its success envelope, or an error came back *)
Inductive result :=
| ROk (cmd : str) (d : json) (w : list str)
| RErr (c : chain).

(* dispatch::run in --json mode: exit status and the one document printed on stdout *)
Definition of_result (m : meta) (r : result) : N * envelope :=
  match r with
  | ROk cmd d w => (0, envelope_ok m cmd d w)
  | RErr c => let '(code, msg, det) := parts c in (1, envelope_err m code msg det)
  end.

(* ---------- paths ---------- *)

(* str::replace(from: char, to: &str) *)
Definition replace_char_str (from : N) (to : str) (x : str) : str :=
  flat_map (fun c => if c =? from then to else [c]) x.

(* path_to_posix_string: to_string_lossy().replace('\\', "/") *)
Definition posix (x : str) : str := replace_char_str 92 [47] x.

(* ---------- MCP wrappers ---------- *)

(* CallToolResult: the text content is a serialisation of a JSON value, kept as that value *)
Record tool_result := mkTool { t_text : envelope; t_structured : option envelope; t_is_error : option bool }.

(* tool_result_from_envelope: ok read back from the envelope value *)
Definition tool_result_from_envelope (e : envelope) : tool_result :=
  mkTool e (Some e) (Some (negb (ok e))).

(* rmcp CallToolResult::structured_error(value) *)
Definition structured_error (e : envelope) : tool_result := mkTool e (Some e) (Some true).

(* envelope_error has the same shape as print_anyhow_error's envelope *)
Definition envelope_error := envelope_err.

Definition envelope_from_anyhow_error (m : meta) (c : chain) : envelope :=
  let '(code, msg, det) := parts c in envelope_error m code msg det.

(* the ways a tool call ends *)
Inductive mcp_result :=
| MHandler (r : result)          (* in-process handler returned Ok(envelope) or Err(anyhow) *)
| MUser (u : uerr)               (* tool_result_from_user_error (confirm-token refusals): details as given *)
| MUnexpected (msg : str).       (* tool_result_unexpected (join / serialisation errors) *)

Definition mcp_envelope (m : meta) (r : mcp_result) : envelope :=
  match r with
  | MHandler (ROk cmd d w) => envelope_ok m cmd d w
  | MHandler (RErr c) => envelope_from_anyhow_error m c
  | MUser u => envelope_error m (u_code u) (u_message u) (u_details u)
  | MUnexpected msg => envelope_error m e_unexpected msg None
  end.

Definition mcp_tool_result (m : meta) (r : mcp_result) : tool_result :=
  match r with
  | MHandler _ => tool_result_from_envelope (mcp_envelope m r)
  | MUser _ | MUnexpected _ => structured_error (mcp_envelope m r)
  end.

(* ---------- table helpers ---------- *)

Definition registry : list str := Gen.Tables.registry_error_codes.
Definition subset (a b : list str) : bool := forallb (fun x => mem_str x b) a.
Definition set_eqb (a b : list str) : bool := subset a b && subset b a.

(* guidance documented for a code with concrete values (docs/SPEC.md) *)
Definition spec_guidance_of (code : str) : option (str * list str) := assoc code Gen.Tables.spec_guidance.
