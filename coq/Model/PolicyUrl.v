(* Model/PolicyUrl.v — C20, git-remote allowlist.  Definitions only (proofs in Proofs/PolicyUrlP.v).

   Part 1 mirrors src/policy_allowlist.rs (as fixed by the F9d commit): normalize_git_remote_for_policy,
   remote_matches_allowlist, is_dot_segment.
   Part 2 is the REFERENCE DECOMPOSITION of a remote spelling (scheme, user-info up to the LAST '@' of
   the authority, host, port, path segments; scp-like form), written from git's/curl's/ssh's point
   of view, sharing no code with part 1 beyond Base.Str. *)
From AP Require Import Base.Str.
Open Scope N_scope.

(* ================================================================================================ *)
(* Part 1 — the model of the Rust code                                                                 *)
(* ================================================================================================ *)

(* String::to_lowercase, per character.  Covered alphabet: ASCII, Latin-1, Greek and Cyrillic
   capitals, U+0130 (two code points), the Kelvin / Angstrom / Ohm signs; every other code point
   is left unchanged.  NOT modelled: the context rule for a word-final capital sigma (U+03A3) and
   cased letters outside these blocks — the generators stay inside the covered alphabet. *)
Definition lower_char (c : N) : str :=
  if (65 <=? c) && (c <=? 90) then [c + 32]
  else if c <? 192 then [c]
  else if (c <=? 222) && negb (c =? 215) then [c + 32]
  else if c =? 304 then [105; 775]
  else if (913 <=? c) && (c <=? 939) && negb (c =? 930) then [c + 32]
  else if (1024 <=? c) && (c <=? 1039) then [c + 80]
  else if (1040 <=? c) && (c <=? 1071) then [c + 32]
  else if c =? 8486 then [969]
  else if c =? 8490 then [107]
  else if c =? 8491 then [229]
  else [c].

Definition to_lower (x : str) : str := flat_map lower_char x.

(* str::split_once_c(char) / rsplit_once(char) / split_at(find(char).unwrap_or(len)) *)
Fixpoint split_once_c (c : N) (x : str) : option (str * str) :=
  match x with
  | [] => None
  | a :: r =>
    if a =? c then Some ([], r)
    else match split_once_c c r with
         | Some (h, t) => Some (a :: h, t)
         | None => None
         end
  end.

Fixpoint rsplit_once (c : N) (x : str) : option (str * str) :=
  match x with
  | [] => None
  | a :: r =>
    match rsplit_once c r with
    | Some (h, t) => Some (a :: h, t)
    | None => if a =? c then Some ([], r) else None
    end
  end.

Fixpoint span_until (c : N) (x : str) : str * str :=          (* (before the first c, from that c on) *)
  match x with
  | [] => ([], [])
  | a :: r => if a =? c then ([], x) else let (h, t) := span_until c r in (a :: h, t)
  end.

Definition dot_git : str := s ".git".
Definition pre_url (url : str) : str := trim_end_str dot_git (trim url).

Definition p_git_at : str := s "git@".
Definition p_https : str := s "https://".
Definition p_http : str := s "http://".
Definition p_ssh : str := s "ssh://".

(* fn normalize_git_remote_for_policy *)
Definition normalize_core (u : str) : str :=
  match strip_prefix p_git_at u with
  | Some rest =>
    match split_once_c 58 rest with
    | Some (host, path) => if negb (mem_char 47 host) then host ++ 47 :: path else rest
    | None => rest
    end
  | None =>
    match strip_prefix p_https u with
    | Some rest => rest
    | None =>
      match strip_prefix p_http u with
      | Some rest => rest
      | None =>
        match strip_prefix p_ssh u with
        | Some rest =>
          let (authority, path) := span_until 47 rest in
          let host := match rsplit_once 64 authority with Some (_, h) => h | None => authority end in
          host ++ path
        | None => u
        end
      end
    end
  end.

Definition normalize (url : str) : str :=
  to_lower (trim_start_matches (N.eqb 47) (normalize_core (pre_url url))).

(* fn is_dot_segment / remote_matches_allowlist *)
Definition dot_segments : list str :=
  [s "."; s ".."; s "%2e"; s ".%2e"; s "%2e."; s "%2e%2e"].
Definition is_dot_segment (seg : str) : bool := mem_str seg dot_segments.

Definition is_seg_delim (c : N) : bool := (c =? 47) || (c =? 63) || (c =? 35).

Fixpoint split_pred (f : N -> bool) (x : str) : list str :=
  match x with
  | [] => [[]]
  | a :: r =>
    if f a then [] :: split_pred f r
    else match split_pred f r with
         | h :: t => (a :: h) :: t
         | [] => [[a]]
         end
  end.

Definition matches (remote allow : str) : bool :=
  if is_empty allow then false
  else if existsb is_dot_segment (split_pred is_seg_delim remote) then false
  else if str_eqb remote allow then true
  else if negb (starts_with allow remote) then false
  else if ends_with [47] allow then true
  else match nth_error remote (length allow) with
       | Some 47 => true
       | _ => false
       end.

(* the allowlist decision of lint_supply_chain_policy for one remote *)
Definition remote_allowed (url : str) (allow_entries : list str) : bool :=
  existsb (fun a => matches (normalize url) (normalize a)) allow_entries.

(* ================================================================================================ *)
(* Part 2 — the reference decomposition                                                                *)
(* ================================================================================================ *)

Inductive url_form := FUrl | FScp | FBare.

Record ref_url := {
  r_form : url_form;
  r_scheme : str;              (* FUrl only, as written *)
  r_userinfo : option str;     (* text before the LAST '@' of the authority *)
  r_host : str;                (* as written; compared case-insensitively *)
  r_port : option str;
  r_path : str                 (* what follows the authority: empty or starting with '/', '?' or '#' *)
}.

Definition scheme_start (c : N) : bool := is_ascii_upper c || is_ascii_lower c.
Definition scheme_char (c : N) : bool :=
  scheme_start c || is_ascii_digit c || (c =? 43) || (c =? 45) || (c =? 46).

Fixpoint take_chars (f : N -> bool) (x : str) : str :=
  match x with
  | [] => []
  | c :: r => if f c then c :: take_chars f r else []
  end.

(* `scheme://rest`: a scheme is a letter followed by letters, digits, '+', '-', '.' (RFC 3986) *)
Definition ref_split_scheme (t : str) : option (str * str) :=
  let sc := take_chars scheme_char t in
  match sc with
  | c :: _ =>
    if scheme_start c then
      match strip_prefix (s "://") (drop_while scheme_char t) with
      | Some rest => Some (sc, rest)
      | None => None
      end
    else None
  | [] => None
  end.

(* [user-info@]host[:port] — user-info ends at the LAST '@' (it may itself contain '@' and ':') *)
Fixpoint after_last (c : N) (x : str) : str :=
  match x with
  | [] => []
  | a :: r => if mem_char c r then after_last c r else if a =? c then r else x
  end.

Fixpoint before_last (c : N) (x : str) : option str :=       (* None: no c at all *)
  match x with
  | [] => None
  | a :: r =>
    match before_last c r with
    | Some h => Some (a :: h)
    | None => if a =? c then Some [] else None
    end
  end.

Definition ref_authority (form : url_form) (scheme authority rest : str) : option ref_url :=
  let hostport := after_last 64 authority in
  let host := take_chars (fun c => negb (c =? 58)) hostport in
  let port := match drop_while (fun c => negb (c =? 58)) hostport with
              | _ :: p => Some p
              | [] => None
              end in
  match host with
  | [] => None                                                   (* no host: not a remote *)
  | _ =>
    match port with
    | Some p => if forallb is_ascii_digit p
                then Some (Build_ref_url form scheme (before_last 64 authority) host port rest)
                else None
    | None => Some (Build_ref_url form scheme (before_last 64 authority) host None rest)
    end
  end.

Definition is_ssh_scheme (sc : str) : bool := str_eqb (to_lower sc) (s "ssh").

Definition not_slash (c : N) : bool := negb (c =? 47).
Definition not_delim (c : N) : bool := negb ((c =? 47) || (c =? 63) || (c =? 35)).

Definition ref_parse (url : str) : option ref_url :=
  let t := trim_end_str (s ".git") (trim url) in      (* surrounding blanks and a trailing .git are not significant *)
  match ref_split_scheme t with
  | Some (sc, rest) =>
    (* ssh hands `user@host` to ssh(1) as is: the authority ends at the first '/'.  Every other
       scheme follows RFC 3986: the authority ends at the first '/', '?' or '#'. *)
    let stop := if is_ssh_scheme sc then not_slash else not_delim in
    ref_authority FUrl sc (take_chars stop rest) (drop_while stop rest)
  | None =>
    (* git: "scp-like" when there is a ':' with no '/' before it *)
    let head := take_chars (fun c => negb (c =? 58)) t in
    match drop_while (fun c => negb (c =? 58)) t with
    | _ :: path =>
      if mem_char 47 head then
        ref_authority FBare [] (take_chars not_delim t) (drop_while not_delim t)
      else
        match ref_authority FScp [] head (47 :: path) with
        | Some d => match r_port d with None => Some d | Some _ => None end
        | None => None
        end
    | [] => ref_authority FBare [] (take_chars not_delim t) (drop_while not_delim t)
    end
  end.

(* path (and query) segments: the non-empty pieces between '/', '?' and '#' *)
Definition ref_segments (d : ref_url) : list str :=
  filter (fun p => negb (is_empty p)) (split_pred (fun c => negb (not_delim c)) (r_path d)).

(* a dot segment, literal or percent-encoded in either case *)
Definition ref_dot_spellings : list str :=
  [s "."; s "%2e"; s "%2E";
   s ".."; s ".%2e"; s ".%2E"; s "%2e."; s "%2E."; s "%2e%2e"; s "%2e%2E"; s "%2E%2e"; s "%2E%2E"].
Definition ref_is_dot (seg : str) : bool := mem_str seg ref_dot_spellings.

(* An allowlist entry names a host and a path prefix: `host[/org[/...]]`, optionally written as an
   https/http/ssh URL or as `git@host:org`.  It carries no port, no query/fragment, no user-info
   (other than the conventional one of the ssh spellings). *)
Definition ref_allow (a : str) : option ref_url :=
  match ref_parse a with
  | None => None
  | Some d =>
    let plain := negb (mem_char 63 (r_host d)) && negb (mem_char 35 (r_host d))
                 && negb (mem_char 63 (r_path d)) && negb (mem_char 35 (r_path d)) in
    let no_port := match r_port d with None => true | Some _ => false end in
    let user_ok :=
      match r_form d with
      | FBare => match r_userinfo d with None => true | Some _ => false end
      | FScp => match r_userinfo d with Some u => str_eqb u (s "git") | None => false end
      | FUrl =>
        if str_eqb (r_scheme d) (s "ssh") then true
        else if str_eqb (r_scheme d) (s "https") || str_eqb (r_scheme d) (s "http")
             then match r_userinfo d with None => true | Some _ => false end
             else false
      end in
    let scheme_ok :=
      match r_form d with
      | FUrl => str_eqb (r_scheme d) (s "ssh") || str_eqb (r_scheme d) (s "https") || str_eqb (r_scheme d) (s "http")
      | _ => true
      end in
    if plain && no_port && user_ok && scheme_ok then Some d else None
  end.

Fixpoint is_prefix (a b : list str) : bool :=
  match a, b with
  | [], _ => true
  | x :: a', y :: b' => str_eqb x y && is_prefix a' b'
  | _ :: _, [] => false
  end.

(* the reference verdict: same host (case-insensitively), the entry's segments are a prefix of the
   remote's on a segment boundary, no dot segment, no port, and user-info only in the ssh spellings *)
Definition ref_under (du da : ref_url) : bool :=
  str_eqb (to_lower (r_host du)) (to_lower (r_host da))
  && is_prefix (map to_lower (ref_segments da)) (map to_lower (ref_segments du))
  && negb (existsb ref_is_dot (ref_segments du))
  && (match r_port du with None => true | Some _ => false end)
  && (match r_userinfo du with
      | None => true
      | Some _ => match r_form du with
                  | FUrl => is_ssh_scheme (r_scheme du) | FScp => true | FBare => true
                  end
      end).
