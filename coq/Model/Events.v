(* Model/Events.v — the event-log reader (src/events.rs read_events_with_warnings), the score
   tally and ranking (src/cli/commands/score.rs), and the append-only writer algebra.
   JSON parsing itself is not modelled: a raw line carries the parse result as data supplied by
   the harness (which generates the line from that data, so it is known by construction). *)
From AP Require Import Base.Str Base.Sorting.
From AP Require Gen.Tables.
Open Scope N_scope.

(* ---- reader ---- *)

Record parsed := { p_version : N; p_module : option str; p_success : option bool;
                   p_at : str;
                   (* fallbacks read from the embedded "event" object *)
                   p_ev_module : option str; p_ev_success : option bool }.

Inductive raw_line :=
| RInvalidUtf8                      (* BufRead::lines yields Err *)
| RText (t : str) (parse : option parsed).   (* serde_json::from_str(trimmed) result *)

Inductive line_class := LIo | LEmpty | LMalformed | LUnsupported | LOk (p : parsed).

Definition classify (l : raw_line) : line_class :=
  match l with
  | RInvalidUtf8 => LIo
  | RText t parse =>
    if is_empty (trim t) then LEmpty
    else match parse with
         | None => LMalformed
         | Some p => if p_version p =? Gen.Tables.events_schema_version then LOk p else LUnsupported
         end
  end.

Record stats := { lines_total : N; lines_empty : N; records_ok : N; skipped_total : N;
                  skipped_io : N; skipped_malformed : N; skipped_unsupported : N }.

Definition stats0 : stats := Build_stats 0 0 0 0 0 0 0.

Definition step_stats (st : stats) (c : line_class) : stats :=
  let st := Build_stats (lines_total st + 1) (lines_empty st) (records_ok st) (skipped_total st)
                        (skipped_io st) (skipped_malformed st) (skipped_unsupported st) in
  match c with
  | LIo => Build_stats (lines_total st) (lines_empty st) (records_ok st) (skipped_total st + 1)
                       (skipped_io st + 1) (skipped_malformed st) (skipped_unsupported st)
  | LEmpty => Build_stats (lines_total st) (lines_empty st + 1) (records_ok st) (skipped_total st)
                       (skipped_io st) (skipped_malformed st) (skipped_unsupported st)
  | LMalformed => Build_stats (lines_total st) (lines_empty st) (records_ok st) (skipped_total st + 1)
                       (skipped_io st) (skipped_malformed st + 1) (skipped_unsupported st)
  | LUnsupported => Build_stats (lines_total st) (lines_empty st) (records_ok st) (skipped_total st + 1)
                       (skipped_io st) (skipped_malformed st) (skipped_unsupported st + 1)
  | LOk _ => Build_stats (lines_total st) (lines_empty st) (records_ok st + 1) (skipped_total st)
                       (skipped_io st) (skipped_malformed st) (skipped_unsupported st)
  end.

Definition read_stats (ls : list raw_line) : stats := fold_left step_stats (map classify ls) stats0.

Definition events_of (ls : list raw_line) : list parsed :=
  flat_map (fun l => match classify l with LOk p => [p] | _ => [] end) ls.

(* ---- score ---- *)

Record score := { sc_id : str; sc_total : N; sc_fail : N; sc_last : option str }.

Definition evt_module (p : parsed) : option str :=
  match p_module p with Some m => Some m | None => p_ev_module p end.
Definition evt_success (p : parsed) : bool :=
  match p_success p with
  | Some b => b
  | None => match p_ev_success p with Some b => b | None => true end
  end.

Fixpoint tally_add (m : str) (ok : bool) (at_ : str) (l : list score) : list score :=
  match l with
  | [] => [Build_score m 1 (if ok then 0 else 1) (Some at_)]
  | sc :: r =>
    if str_eqb (sc_id sc) m then
      Build_score m (sc_total sc + 1) (if ok then sc_fail sc else sc_fail sc + 1)
                  (match sc_last sc with
                   | None => Some at_
                   | Some prev => if str_ltb prev at_ then Some at_ else Some prev
                   end) :: r
    else sc :: tally_add m ok at_ r
  end.

Definition tally_step (l : list score) (p : parsed) : list score :=
  match evt_module p with
  | None => l
  | Some m => tally_add m (evt_success p) (p_at p) l
  end.

Fixpoint ensure_module (m : str) (l : list score) : list score :=
  match l with
  | [] => [Build_score m 0 0 None]
  | sc :: r => if str_eqb (sc_id sc) m then l else sc :: ensure_module m r
  end.

Definition tally (evts : list parsed) (manifest_modules : list str) : list score :=
  fold_left (fun l m => ensure_module m l) manifest_modules (fold_left tally_step evts []).

(* cmp_failure_rate: u64 inputs, products in u128 (the wrap is written out; Proofs/EventsP.v shows
   it is never hit for inputs < 2^64). *)
Definition two64 : N := 18446744073709551616.
Definition two128 : N := two64 * two64.

Definition cmp_rate (a_fail a_total b_fail b_total : N) : comparison :=
  match a_total =? 0, b_total =? 0 with
  | true, true => Eq
  | true, false => Gt
  | false, true => Lt
  | false, false =>
    let left := (a_fail * b_total) mod two128 in
    let right := (b_fail * a_total) mod two128 in
    right ?= left
  end.

Definition score_cmp (a b : score) : comparison :=
  match cmp_rate (sc_fail a) (sc_total a) (sc_fail b) (sc_total b) with
  | Eq => str_compare (sc_id a) (sc_id b)
  | c => c
  end.

Definition score_leb (a b : score) : bool :=
  match score_cmp a b with Gt => false | _ => true end.

Definition rank (l : list score) : list score := isort score_leb l.

Definition score_cmd (ls : list raw_line) (manifest_modules : list str) : stats * list score :=
  (read_stats ls, rank (tally (events_of ls) manifest_modules)).

(* ---- writers: each [record] appends one whole line with a single O_APPEND write ---- *)

(* A schedule is the order in which writers get to perform their (atomic) append.  Writer [i]
   appends the next line of its queue. *)
Fixpoint run_schedule (queues : list (list str)) (sched : list nat) (log : list str)
  : list (list str) * list str :=
  match sched with
  | [] => (queues, log)
  | i :: rest =>
    match nth_error queues i with
    | Some (l :: q) =>
      run_schedule (firstn i queues ++ q :: skipn (S i) queues) rest (log ++ [l])
    | _ => run_schedule queues rest log     (* writer has nothing left: no-op *)
    end
  end.
