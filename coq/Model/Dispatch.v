(* Model/Dispatch.v — the confirmation guard of every CLI command and MCP mutating tool.

   Each command handler is mirrored as a straight-line program of steps in the order in which the
   Rust handler executes them: steps that only read and may fail, early successful returns (dry
   run / nothing to do), the `--json` without `--yes` guard (with the literal passed at that guard
   site), the point where the report (plan / candidates / missing list) is computed, and writes.
   The interpreter [run] executes the steps in order, so a write placed before a guard shows up as
   an effect of a refused invocation.

   Mirrors: src/cli/util.rs (require_yes_for_json_mutation), src/cli/args.rs (command_path),
   src/cli/commands/{init,import,add,remove,lock,fetch,update,doctor,remote,sync,record,overlay,
   policy,bootstrap,deploy,rollback,evolve}.rs, src/handlers/{deploy,rollback,evolve}.rs and
   src/mcp/tools/{deploy_apply,rollback,evolve_propose,evolve_restore}.rs.
   No proofs here (Proofs/DispatchP.v). *)
From AP Require Import Base.Str.
From AP Require Gen.Tables.
Open Scope N_scope.

(* ---------- invocation flags and the world facts that decide conditional writers ---------- *)

Record facts := mkFacts {
  (* global flags *)
  f_json : bool; f_yes : bool; f_dry : bool;
  (* command flags *)
  f_apply : bool;        (* deploy --apply / import --apply *)
  f_fix : bool;          (* doctor --fix *)
  f_guided : bool;       (* init --guided *)
  f_lock : bool; f_fetch : bool; f_nolock : bool; f_nofetch : bool;   (* update *)
  (* world facts *)
  w_pre_ok : bool;       (* the read-only steps before the decision succeed (Engine::load, render, plan, scans) *)
  w_tty : bool;          (* stdin and stdout are terminals *)
  w_cfg_exists : bool;   (* agentpack.yaml exists (init --guided refuses to overwrite) *)
  w_plan_nonempty : bool;      (* deploy plan has changes *)
  w_manifest_missing : bool;   (* a used root lacks its target manifest *)
  w_adopt_blocked : bool;      (* plan has adopt_update changes and --adopt was not given *)
  w_boot_nonempty : bool;      (* bootstrap plan has changes *)
  w_missing_outputs : bool;    (* evolve restore: some desired output is missing on disk *)
  w_drift : bool;              (* evolve propose: some proposeable drifted output *)
  w_lockfile : bool;           (* agentpack.lock.json exists *)
  w_has_creates : bool;        (* import plan has create items *)
  w_git_repo : bool;           (* config repo has .git *)
  w_git_dirty : bool;          (* config repo working tree is dirty *)
  w_body_writes : bool         (* the handler body after its guard has something to write and gets to write it *)
}.

Definition with_yes (f : facts) : facts :=
  mkFacts (f_json f) true (f_dry f) (f_apply f) (f_fix f) (f_guided f) (f_lock f) (f_fetch f)
          (f_nolock f) (f_nofetch f) (w_pre_ok f) (w_tty f) (w_cfg_exists f) (w_plan_nonempty f)
          (w_manifest_missing f) (w_adopt_blocked f) (w_boot_nonempty f) (w_missing_outputs f)
          (w_drift f) (w_lockfile f) (w_has_creates f) (w_git_repo f) (w_git_dirty f) (w_body_writes f).

Definition with_dry (d : bool) (f : facts) : facts :=
  mkFacts (f_json f) (f_yes f) d (f_apply f) (f_fix f) (f_guided f) (f_lock f) (f_fetch f)
          (f_nolock f) (f_nofetch f) (w_pre_ok f) (w_tty f) (w_cfg_exists f) (w_plan_nonempty f)
          (w_manifest_missing f) (w_adopt_blocked f) (w_boot_nonempty f) (w_missing_outputs f)
          (w_drift f) (w_lockfile f) (w_has_creates f) (w_git_repo f) (w_git_dirty f) (w_body_writes f).

(* ---------- steps ---------- *)

(* where a write lands *)
Inductive wclass := WConfigRepo | WTargets | WState | WCache | WGit | WLogs | WProject.

(* which report a handler computes (from the world only: no flag is consulted) *)
Inductive rtag := RPlan | RImportPlan | RCandidates | RMissing | RRebase.

Inductive step :=
| SFail (c : facts -> bool) (code : str)      (* a read-only step that fails when [c] holds *)
| SDone (c : facts -> bool)                   (* early successful return when [c] holds *)
| SGuard (c : facts -> bool) (lit : str)      (* json && !yes && c  =>  E_CONFIRM_REQUIRED naming [lit] *)
| SReport (t : rtag)                          (* the report is computed here *)
| SWrite (c : facts -> bool) (w : list wclass).   (* writes when [c] holds *)

Inductive outcome := ODone | ORefused (lit : str) | OFailed (code : str).

Record result := mkRes { r_out : outcome; r_effects : list wclass; r_reports : list rtag }.

Fixpoint run (p : list step) (f : facts) : result :=
  match p with
  | [] => mkRes ODone [] []
  | SFail c code :: r => if c f then mkRes (OFailed code) [] [] else run r f
  | SDone c :: r => if c f then mkRes ODone [] [] else run r f
  | SGuard c lit :: r =>
    if f_json f && negb (f_yes f) && c f then mkRes (ORefused lit) [] [] else run r f
  | SReport t :: r => let x := run r f in mkRes (r_out x) (r_effects x) (t :: r_reports x)
  | SWrite c w :: r =>
    if c f then let x := run r f in mkRes (r_out x) (w ++ r_effects x) (r_reports x) else run r f
  end.

(* ---------- the handlers ---------- *)

Definition T (_ : facts) : bool := true.

(* update.rs: do_lock = !lockfile_exists; --lock sets, --no-lock clears (last); do_fetch likewise *)
Definition do_lock (f : facts) : bool :=
  if f_nolock f then false else if f_lock f then true else negb (w_lockfile f).
Definition do_fetch (f : facts) : bool := negb (f_nofetch f).

Definition will_apply (f : facts) : bool := f_apply f && negb (f_dry f).

Definition E (x : string) : str := s x.

Definition unconditional (lit : string) (w : list wclass) : list step :=
  [SGuard T (s lit); SWrite w_body_writes w].

Definition p_init : list step :=
  [SFail (fun f => f_guided f && negb (w_tty f)) (E "E_TTY_REQUIRED");
   SFail (fun f => f_guided f && w_cfg_exists f) (E "E_CONFIG_INVALID");
   SGuard T (s "init");
   SWrite w_body_writes [WConfigRepo; WGit; WTargets; WState]].

Definition p_import : list step :=
  [SGuard will_apply (s "import --apply");
   SFail (fun f => negb (w_pre_ok f)) (E "E_CONFIG_MISSING");
   SReport RImportPlan;
   SWrite (fun f => will_apply f && w_has_creates f && w_body_writes f) [WConfigRepo]].

Definition p_doctor : list step :=
  [SGuard f_fix (s "doctor --fix");
   SFail (fun f => negb (w_pre_ok f)) (E "E_CONFIG_MISSING");
   SWrite (fun f => f_fix f && w_body_writes f) [WProject]].

Definition p_update : list step :=
  [SFail (fun f => do_fetch f && negb (do_lock f) && negb (w_lockfile f)) (E "E_UNEXPECTED");
   SGuard (fun f => do_lock f || do_fetch f) (s "update");
   SWrite (fun f => do_lock f && w_body_writes f) [WConfigRepo; WCache];
   SWrite (fun f => do_fetch f && w_body_writes f) [WCache]].

Definition p_overlay_rebase : list step :=
  [SGuard (fun f => negb (f_dry f)) (s "overlay rebase");
   SFail (fun f => negb (w_pre_ok f)) (E "E_CONFIG_MISSING");
   SReport RRebase;
   SWrite (fun f => negb (f_dry f) && w_body_writes f) [WConfigRepo]].

(* cli/commands/deploy.rs + handlers/deploy.rs::deploy_apply_in (ConfirmationStyle::JsonYes) *)
Definition p_deploy : list step :=
  [SFail (fun f => negb (w_pre_ok f)) (E "E_CONFIG_MISSING");
   SReport RPlan;
   SDone (fun f => negb (will_apply f));
   SGuard T (s "deploy --apply");
   SFail w_adopt_blocked (E "E_ADOPT_CONFIRM_REQUIRED");
   SDone (fun f => negb (w_plan_nonempty f || w_manifest_missing f));
   SWrite T [WTargets; WState]].

Definition p_bootstrap : list step :=
  [SFail (fun f => negb (w_pre_ok f)) (E "E_CONFIG_MISSING");
   SReport RPlan;
   SDone f_dry;
   SDone (fun f => negb (w_boot_nonempty f));
   SGuard T (s "bootstrap");
   SWrite T [WTargets; WState]].

Definition p_evolve_propose : list step :=
  [SFail (fun f => negb (w_pre_ok f)) (E "E_CONFIG_MISSING");
   SReport RCandidates;
   SDone (fun f => negb (w_drift f));
   SDone f_dry;
   SGuard T (s "evolve propose");
   SFail (fun f => negb (w_git_repo f)) (E "E_GIT_REPO_REQUIRED");
   SFail w_git_dirty (E "E_GIT_WORKTREE_DIRTY");
   SWrite T [WGit; WConfigRepo]].

Definition p_evolve_restore : list step :=
  [SFail (fun f => negb (w_pre_ok f)) (E "E_CONFIG_MISSING");
   SReport RMissing;
   SDone (fun f => negb (w_missing_outputs f));
   SGuard (fun f => negb (f_dry f)) (s "evolve restore");
   SWrite (fun f => negb (f_dry f)) [WTargets]].

(* base command (clap subcommand path joined by a space) -> handler program *)
Definition table : list (str * list step) :=
  [(s "init", p_init);
   (s "import", p_import);
   (s "add", unconditional "add" [WConfigRepo]);
   (s "remove", unconditional "remove" [WConfigRepo]);
   (s "lock", unconditional "lock" [WConfigRepo; WCache]);   (* resolving git sources fills the cache *)
   (s "fetch", unconditional "fetch" [WCache]);
   (s "update", p_update);
   (s "deploy", p_deploy);
   (s "rollback", unconditional "rollback" [WTargets; WState]);
   (s "bootstrap", p_bootstrap);
   (s "doctor", p_doctor);
   (s "overlay edit", unconditional "overlay edit" [WConfigRepo]);
   (s "overlay rebase", p_overlay_rebase);
   (s "remote set", unconditional "remote set" [WGit]);
   (s "sync", unconditional "sync" [WGit; WConfigRepo]);
   (s "record", unconditional "record" [WLogs]);
   (s "evolve propose", p_evolve_propose);
   (s "evolve restore", p_evolve_restore);
   (s "policy lock", unconditional "policy lock" [WConfigRepo; WCache])].

Fixpoint lookup (k : str) (t : list (str * list step)) : option (list step) :=
  match t with
  | [] => None
  | (k', p) :: r => if str_eqb k' k then Some p else lookup k r
  end.

(* commands without an entry have no guard and no write step: plan, diff, preview, status, ... *)
Definition prog_of (base : str) : list step :=
  match lookup base table with Some p => p | None => [] end.

(* ---------- command ids (cli/args.rs command_path / command_id) ---------- *)

Definition command_path (base : str) (f : facts) : list str :=
  let toks := split_on 32 base in
  if str_eqb base (s "deploy") || str_eqb base (s "import") then
    if will_apply f then toks ++ [s "--apply"] else toks
  else if str_eqb base (s "doctor") then
    if f_fix f then toks ++ [s "--fix"] else toks
  else toks.

Definition cmd_id (base : str) (f : facts) : str := join [32] (command_path base f).

(* the catalogue: ids from command_path in source; bases are the ids without a flag suffix *)
Definition catalogue : list str := Gen.Tables.catalogue_ids.
Definition is_base (id : str) : bool := negb (contains (s " --") id).
Definition bases : list str := filter is_base catalogue.

(* ---------- the observables ---------- *)

Inductive refusal := ConfirmRequired (command : str).

Definition exec (base : str) (f : facts) : result := run (prog_of base) f.

Definition guard (base : str) (f : facts) : option refusal :=
  match r_out (exec base f) with ORefused lit => Some (ConfirmRequired lit) | _ => None end.

Definition effects (base : str) (f : facts) : list wclass := r_effects (exec base f).
Definition reports (base : str) (f : facts) : list rtag := r_reports (exec base f).

(* "the same invocation with --yes would write" *)
Definition would_write (base : str) (f : facts) : bool :=
  match effects base (with_yes f) with [] => false | _ => true end.

(* every literal passed at a guard site of the table *)
Definition step_lits (p : list step) : list str :=
  flat_map (fun st => match st with SGuard _ l => [l] | _ => [] end) p.
Definition guard_lits : list str := flat_map (fun e => step_lits (snd e)) table.

(* ---------- MCP mutating tools: same handlers, json = true, yes from the arguments ---------- *)

(* tool name -> base command; deploy_apply always carries --apply *)
Definition mcp_base (tool : str) : option str :=
  if str_eqb tool (s "deploy_apply") then Some (s "deploy")
  else if str_eqb tool (s "rollback") then Some (s "rollback")
  else if str_eqb tool (s "evolve_propose") then Some (s "evolve propose")
  else if str_eqb tool (s "evolve_restore") then Some (s "evolve restore")
  else None.

(* the facts an MCP call presents to the handler: world facts [w], yes and dry_run from arguments *)
Definition mcp_facts (yes dry : bool) (w : facts) : facts :=
  mkFacts true yes dry true false false false false false false
          (w_pre_ok w) false (w_cfg_exists w) (w_plan_nonempty w) (w_manifest_missing w)
          (w_adopt_blocked w) (w_boot_nonempty w) (w_missing_outputs w) (w_drift w) (w_lockfile w)
          (w_has_creates w) (w_git_repo w) (w_git_dirty w) (w_body_writes w).

(* the call as far as it is decided by the handler: for deploy_apply with yes && !dry_run the
   confirm-token machine (Model/Token.v, C11) runs first and is not repeated here *)
Definition mcp_exec (tool : str) (yes dry : bool) (w : facts) : option result :=
  match mcp_base tool with
  | Some b => Some (exec b (mcp_facts yes dry w))
  | None => None
  end.

(* ---------- small helpers for the correspondence check ---------- *)

Definition wclass_code (w : wclass) : N :=
  match w with WConfigRepo => 0 | WTargets => 1 | WState => 2 | WCache => 3 | WGit => 4 | WLogs => 5 | WProject => 6 end.

Definition outcome_kind (o : outcome) : N :=
  match o with ODone => 0 | ORefused _ => 1 | OFailed _ => 2 end.
