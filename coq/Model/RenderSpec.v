(* Model/RenderSpec.v — the DOCUMENTED mapping as a declarative relation, written from
   docs/reference/targets.md and docs/SPEC.md (§1.1 Module, §1.3 Profile, §4.5 merge/conflict, §5 target
   adapters), independently of the adapters of Model/Render.v:

     [selected]      who a profile selects            (SPEC 1.3 + 1.1 "enabled", "tags")
     [permitted]     module `targets:` restriction    (SPEC 1.1: "restrict to specific targets; default all")
     [target_on]     configured target kept by --target
     [doc_rules]     per target, the table "option (default, required scope) -> directory -> kind of
                     output" transcribed from the per-target sections of targets.md; the (default,
                     scope) pairs are the [doc_opt_*] constants that tools/gen_tables.py parses out of
                     targets.md on every run (NOT the ones read from the Rust source)
     [rule_output]   what each kind of rule produces for a selected module

   Shared with the model are only the leaf formatting functions that the docs name but do not spell
   out (skill_name "derived from the module id", module_fs_key, the cursor front matter, the section
   markers, the ".prompt.md" rule, get_bool's reading of an option value, codex_home resolution) and
   the path primitives of Base/PathR.v.  No proofs here. *)
From AP Require Import Base.Str Base.PathR Gen.Tables Model.Render.
Open Scope N_scope.

Section Spec.
  Variables (c : cfg) (e : env) (prof filt : str).

  (* SPEC 1.3: include_tags / include_modules / exclude_modules; 1.1: enabled *)
  Definition selected (m : module) : Prop :=
    In m (c_modules c) /\ m_enabled m = true /\
    exists p, find_profile c prof = Some p /\ ~ In (m_id m) (p_exclude p) /\
              ((exists t, In t (m_tags m) /\ In t (p_tags p)) \/ In (m_id m) (p_include p)).

  Definition permitted (tn : str) (m : module) : Prop := m_targets m = [] \/ In tn (m_targets m).

  Definition target_on (t : tcfg) : Prop :=
    In t (c_targets c) /\ (filt = s "all" \/ filt = t_name t).

  (* "default <d> (requires <scope> scope)" *)
  Definition scope_allows (sc : scope) (project : bool) : Prop :=
    if project then sc = SProject \/ sc = SBoth else sc = SUser \/ sc = SBoth.
  Definition opt_on (t : tcfg) (name : str) (doc : bool * bool) : Prop :=
    scope_allows (t_scope t) (snd doc) /\ get_bool (t_opts t) name (fst doc) = true.

  (* the files a module ships: its tree without .git / .agentpack directories *)
  Definition ships (m : module) (f : file) : Prop :=
    In f (m_files m) /\ forall x, In x (f_rel f) -> ~ In x copy_tree_ignored.

  Inductive rule :=
  | RSkills (opt : str) (doc : bool * bool) (dir : str)                                  (* <dir>/<skill_name>/... *)
  | RSingle (ty : mtype) (opt : str) (doc : bool * bool) (dir : str) (rename : str -> str) (* <dir>/<file name> *)
  | RCursor (opt : str) (doc : bool * bool) (dir : str)                                  (* <dir>/<module_fs_key>.mdc *)
  | RAgg (opt : str) (doc : bool * bool) (dir : str) (fname sep : str).                   (* one aggregated file *)

  Definition rule_opt (r : rule) : str * (bool * bool) :=
    match r with
    | RSkills o d _ | RSingle _ o d _ _ | RCursor o d _ | RAgg o d _ _ _ => (o, d)
    end.

  Definition same (n : str) : str := n.
  Definition tilde (x : str) : str := push (e_home e) x.          (* "~/x" *)
  Definition proj (x : str) : str := push (e_project e) x.        (* "<project_root>/x" *)

  (* targets.md §1 codex, §2 claude_code, §3 cursor, §4 vscode, §5 jetbrains, §8 zed *)
  Definition doc_rules (t : tcfg) : list rule :=
    let n := t_name t in
    if str_eqb n (s "codex") then
      let home := codex_home e (t_opts t) in
      [ RAgg (s "write_agents_global") doc_opt_codex_write_agents_global home (s "AGENTS.md") agg_sep_codex;
        RAgg (s "write_agents_repo_root") doc_opt_codex_write_agents_repo_root (e_project e) (s "AGENTS.md") agg_sep_codex;
        RSingle TPrompt (s "write_user_prompts") doc_opt_codex_write_user_prompts (push home (s "prompts")) same;
        RSkills (s "write_user_skills") doc_opt_codex_write_user_skills (push home (s "skills"));
        RSkills (s "write_repo_skills") doc_opt_codex_write_repo_skills (proj (s ".codex/skills")) ]
    else if str_eqb n (s "claude_code") then
      [ RSingle TCommand (s "write_user_commands") doc_opt_claude_code_write_user_commands (tilde (s ".claude/commands")) same;
        RSingle TCommand (s "write_repo_commands") doc_opt_claude_code_write_repo_commands (proj (s ".claude/commands")) same;
        RSkills (s "write_user_skills") doc_opt_claude_code_write_user_skills (tilde (s ".claude/skills"));
        RSkills (s "write_repo_skills") doc_opt_claude_code_write_repo_skills (proj (s ".claude/skills")) ]
    else if str_eqb n (s "cursor") then
      [ RCursor (s "write_rules") doc_opt_cursor_write_rules (proj (s ".cursor/rules")) ]
    else if str_eqb n (s "vscode") then
      [ RAgg (s "write_instructions") doc_opt_vscode_write_instructions (proj (s ".github")) (s "copilot-instructions.md") agg_sep_vscode;
        RSingle TPrompt (s "write_prompts") doc_opt_vscode_write_prompts (push (proj (s ".github")) (s "prompts")) vscode_prompt_name ]
    else if str_eqb n (s "jetbrains") then
      [ RAgg (s "write_guidelines") doc_opt_jetbrains_write_guidelines (proj (s ".junie")) (s "guidelines.md") agg_sep_jetbrains ]
    else if str_eqb n (s "zed") then
      [ RAgg (s "write_rules") doc_opt_zed_write_rules (e_project e) (s ".rules") agg_sep_zed ]
    else [].

  Definition out_key (t : tcfg) (dir : str) (segs : list str) : key :=
    (t_name t, components (fold_left push segs dir)).

  Definition last_name (f : file) : str := last (f_rel f) [].

  (* the parts of an aggregated instructions file: (id, AGENTS.md bytes) of every selected, permitted
     instructions module, in id order *)
  Definition is_part (t : tcfg) (p : str * list N) : Prop :=
    exists m f, selected m /\ m_type m = TInstructions /\ permitted (t_name t) m /\ ships m f /\
                f_rel f = [s "AGENTS.md"] /\ p = (m_id m, f_bytes f).
  Definition agg_parts (t : tcfg) (parts : list (str * list N)) : Prop :=
    Sorted.StronglySorted (fun a b => str_compare (fst a) (fst b) = Lt) parts /\ forall p, In p parts <-> is_part t p.

  Inductive rule_output (t : tcfg) : rule -> key -> list N -> Prop :=
  | O_skill opt doc dir m f :
      selected m -> m_type m = TSkill -> permitted (t_name t) m -> ships m f ->
      rule_output t (RSkills opt doc dir) (out_key t dir [skill_name m; rel_string f]) (f_bytes f)
  | O_single ty opt doc dir rename m f :
      selected m -> m_type m = ty -> permitted (t_name t) m -> ships m f ->
      rule_output t (RSingle ty opt doc dir rename) (out_key t dir [rename (last_name f)]) (f_bytes f)
  | O_cursor opt doc dir m f :
      selected m -> m_type m = TInstructions -> permitted (t_name t) m -> ships m f -> f_rel f = [s "AGENTS.md"] ->
      rule_output t (RCursor opt doc dir) (out_key t dir [fs_key m ++ s ".mdc"]) (cursor_rule_bytes m (f_bytes f))
  | O_agg opt doc dir fname sep parts :
      parts <> [] -> agg_parts t parts ->
      rule_output t (RAgg opt doc dir fname sep) (out_key t dir [fname]) (combine sep parts).

  (* the documented desired state *)
  Definition spec_output (k : key) (b : list N) : Prop :=
    exists t r, target_on t /\ In r (doc_rules t) /\ opt_on t (fst (rule_opt r)) (snd (rule_opt r)) /\ rule_output t r k b.

End Spec.
