(* Model/Lock.v — src/lockfile.rs (hash_tree, generate_lockfile), the hash enforcement of
   src/cli/commands/{fetch,update}.rs, src/git.rs::resolve_git_ref (the hex shortcut) and
   src/overlay/layout/mod.rs::resolve_upstream_module_root (locked commit preferred).
   Definitions only; lemmas in Proofs/LockP.v.

   SHA-256 never runs here: [sha] (bytes of a file -> 64 lowercase hex digits) and [sha_text]
   (the text handed to the module hasher -> hex) are Section variables; theorems name the
   injectivity they need as explicit premises.  Git and the file system are oracles too.

   File names.  A name is a [str]; items below 0x110000 are the scalar values of the well-formed
   UTF-8 parts of the OS name, an item >= 0x110000 stands for one maximal ill-formed byte
   sequence (what [to_string_lossy] turns into one U+FFFD).  A relative path is the non-empty
   list of its components (WalkDir yields them; no component contains '/'). *)
From AP Require Import Base.Str Base.Sorting.
Open Scope N_scope.

(* ---------- u64::to_string ---------- *)

Fixpoint uint_str (u : Decimal.uint) : str :=
  match u with
  | Decimal.Nil => []
  | Decimal.D0 r => 48 :: uint_str r
  | Decimal.D1 r => 49 :: uint_str r
  | Decimal.D2 r => 50 :: uint_str r
  | Decimal.D3 r => 51 :: uint_str r
  | Decimal.D4 r => 52 :: uint_str r
  | Decimal.D5 r => 53 :: uint_str r
  | Decimal.D6 r => 54 :: uint_str r
  | Decimal.D7 r => 55 :: uint_str r
  | Decimal.D8 r => 56 :: uint_str r
  | Decimal.D9 r => 57 :: uint_str r
  end.

Definition dec (n : N) : str := uint_str (N.to_uint n).

(* ---------- the manifest fed to the module hasher ---------- *)

Record entry := { e_path : str; e_sha : str; e_size : N }.

(* hasher.update(path); update("\n"); update(sha256); update("\n"); update(bytes.to_string()); update("\n") *)
Definition encode_entry (e : entry) : str :=
  e_path e ++ 10 :: e_sha e ++ 10 :: dec (e_size e) ++ [10].

Fixpoint encode_tree (l : list entry) : str :=
  match l with
  | [] => []
  | e :: r => encode_entry e ++ encode_tree r
  end.

Definition is_sha256_hex (x : str) : bool := (N.of_nat (length x) =? 64) && forallb is_hex_lower x.

(* ---------- path rendering ---------- *)

Definition is_scalar (c : N) : bool := c <? 1114112.
Definition lossy_char (c : N) : N := if is_scalar c then c else 65533.
Definition to_string_lossy (x : str) : str := map lossy_char x.

Definition dotgit : str := [46; 103; 105; 116].
Definition has_git (p : list str) : bool := existsb (str_eqb dotgit) p.

(* e.path().strip_prefix(root).to_string_lossy().replace('\\', "/") *)
Definition render_rel (rel : list str) : str :=
  replace_char 92 47 (to_string_lossy (join [47] rel)).

(* root.file_name().and_then(to_str).unwrap_or("file") — no lossy conversion, no replace *)
Definition file_name_str (name : str) : str :=
  if forallb is_scalar name then name else [102; 105; 108; 101].

Definition file := (list str * list N)%type.        (* relative components, bytes *)

Inductive node :=
| NFile (name : str) (content : list N)            (* root.is_file() *)
| NDir (files : list file).                        (* regular files below root, in walk order *)

Definition entry_leb (a b : entry) : bool := str_leb (e_path a) (e_path b).

(* ---------- manifest / lockfile data ---------- *)

Inductive source :=
| SLocal (path : str)
| SGit (url ref subdir : str) (shallow : bool)
| SInvalid.

Record module := { m_id : str; m_type : str; m_enabled : bool; m_source : source }.

Inductive rsource :=
| RLocal (path : str)
| RGit (url commit subdir : str).

Record locked := { l_id : str; l_type : str; l_source : rsource; l_version : str;
                   l_sha : str; l_files : list entry }.

Inductive fetch_result :=
| FetchOk (verified : N)
| FetchMismatch (id expected got : str)
| FetchCheckoutError (id : str).

Inductive update_result :=
| UErrLockfileMissing                       (* do_fetch && !do_lock && !exists *)
| UErrGenerate                              (* generate_lockfile failed: nothing written *)
| UErrLoad                                  (* existing lockfile unreadable *)
| UDone (written : option (list locked)) (fetched : option fetch_result).

Inductive upstream :=
| UpLocal (path : str)
| UpGit (url commit subdir : str)
| UpError.

Section HashTree.
  Variable sha : list N -> str.
  Variable sha_text : str -> str.

  Definition size_of (c : list N) : N := N.of_nat (length c).

  Definition entry_of (f : file) : entry :=
    Build_entry (render_rel (fst f)) (sha (snd f)) (size_of (snd f)).

  (* `e.path().components().any(|c| c == ".git")` — on the path INCLUDING the root's own
     components (the walk yields root-prefixed paths) *)
  Definition visible (root : list str) (f : file) : bool := negb (has_git (root ++ fst f)).

  (* files.sort_by(|a, b| a.path.cmp(&b.path)): stable; the insertion sort is stable too *)
  Definition hash_tree_entries (root : list str) (files : list file) : list entry :=
    isort entry_leb (map entry_of (filter (visible root) files)).

  Definition hash_tree (root : list str) (n : node) : list entry :=
    match n with
    | NFile name c => [Build_entry (file_name_str name) (sha c) (size_of c)]
    | NDir files => hash_tree_entries root files
    end.

  Definition module_hash (root : list str) (n : node) : str :=
    sha_text (encode_tree (hash_tree root n)).

  (* ---------- generate_lockfile ---------- *)


  (* world oracles *)
  Variable fs_local : str -> option (list str * node).
      (* manifest local path p  |->  components of repo_root.join(p) and what is there *)
  Variable ls_remote : str -> str -> option str.
      (* url, ref |-> commit (git ls-remote; peeled tag preferred) *)
  Variable checkout : str -> str -> str -> option (list str * node).
      (* url, commit, subdir |-> module root inside the cached (else freshly cloned) checkout
         AGENTPACK_HOME/cache/git/<sha256(url)>/<commit> *)

  Definition is_ascii_hexdigit (c : N) : bool :=
    is_ascii_digit c || ((97 <=? c) && (c <=? 102)) || ((65 <=? c) && (c <=? 70)).

  (* git.rs is_hex_sha / resolve_git_ref *)
  Definition is_hex_sha (x : str) : bool :=
    (N.of_nat (length x) =? 40) && forallb is_ascii_hexdigit x.

  Definition resolve_commit (url ref : str) : option str :=
    if is_hex_sha ref then Some ref else ls_remote url ref.

  Definition local_str : str := [108; 111; 99; 97; 108].

  Definition lock_module (m : module) : option locked :=
    match m_source m with
    | SLocal p =>
      match fs_local p with
      | Some (root, n) =>
        Some (Build_locked (m_id m) (m_type m) (RLocal (replace_char 92 47 p)) local_str
                           (module_hash root n) (hash_tree root n))
      | None => None
      end
    | SGit url ref subdir _ =>
      match resolve_commit url ref with
      | Some commit =>
        match checkout url commit subdir with
        | Some (root, n) =>
          Some (Build_locked (m_id m) (m_type m) (RGit url commit subdir) commit
                             (module_hash root n) (hash_tree root n))
        | None => None
        end
      | None => None
      end
    | SInvalid => None
    end.

  Fixpoint lock_all (ms : list module) : option (list locked) :=
    match ms with
    | [] => Some []
    | m :: r =>
      if m_enabled m then
        match lock_module m with
        | Some lm => match lock_all r with Some lr => Some (lm :: lr) | None => None end
        | None => None
        end
      else lock_all r
    end.

  Definition locked_leb (a b : locked) : bool := str_leb (l_id a) (l_id b).

  (* locked_modules.sort_by(|a, b| a.id.cmp(&b.id)) *)
  Definition generate_lockfile (ms : list module) : option (list locked) :=
    match lock_all ms with
    | Some l => Some (isort locked_leb l)
    | None => None
    end.

  (* ---------- fetch / update: hash enforcement ---------- *)


  Fixpoint fetch_loop (ms : list locked) (n : N) : fetch_result :=
    match ms with
    | [] => FetchOk n
    | m :: r =>
      match l_source m with
      | RLocal _ => fetch_loop r n
      | RGit url commit subdir =>
        match checkout url commit subdir with
        | None => FetchCheckoutError (l_id m)
        | Some (root, nd) =>
          let h := module_hash root nd in
          if str_eqb h (l_sha m) then fetch_loop r (n + 1)
          else FetchMismatch (l_id m) (l_sha m) h
        end
      end
    end.

  Definition fetch (lock : list locked) : fetch_result := fetch_loop lock 0.

  (* update.rs flag resolution: returns (do_lock, do_fetch) *)
  Definition update_flags (lockfile_exists lock fetch no_lock no_fetch : bool) : bool * bool :=
    let do_lock := negb lockfile_exists in
    let do_fetch := true in
    let do_lock := if lock then true else do_lock in
    let do_fetch := if fetch then true else do_fetch in
    let do_lock := if no_lock then false else do_lock in
    let do_fetch := if no_fetch then false else do_fetch in
    (do_lock, do_fetch).


  (* [existing]: None = no lockfile; Some None = present but unloadable; Some (Some l) = loaded *)
  Definition update (existing : option (option (list locked))) (ms : list module)
             (lock fetch_ no_lock no_fetch : bool) : update_result :=
    let ex := match existing with Some _ => true | None => false end in
    let '(do_lock, do_fetch) := update_flags ex lock fetch_ no_lock no_fetch in
    if do_fetch && negb do_lock && negb ex then UErrLockfileMissing
    else
      let gen := if do_lock then Some (generate_lockfile ms) else None in
      match gen with
      | Some None => UErrGenerate
      | _ =>
        let written := match gen with Some (Some l) => Some l | _ => None end in
        if do_fetch then
          match written with
          | Some l => UDone written (Some (fetch l))
          | None =>
            match existing with
            | Some (Some l) => UDone None (Some (fetch l))
            | _ => UErrLoad
            end
          end
        else UDone written None
      end.

  (* ---------- which checkout rendering uses (resolve_upstream_module_root) ---------- *)


  Fixpoint find_locked (id : str) (l : list locked) : option locked :=
    match l with
    | [] => None
    | m :: r => if str_eqb (l_id m) id then Some m else find_locked id r
    end.

  (* [lock]: Lockfile::load(..).ok() *)
  Definition resolve_upstream (lock : option (list locked)) (m : module) : upstream :=
    match m_source m with
    | SLocal p => UpLocal p
    | SInvalid => UpError
    | SGit url ref subdir _ =>
      let fallback :=
        match resolve_commit url ref with
        | Some c => UpGit url c subdir
        | None => UpError
        end in
      match lock with
      | Some l =>
        match find_locked (m_id m) l with
        | Some lm =>
          match l_source lm with
          | RGit lurl lcommit lsubdir => UpGit lurl lcommit lsubdir
          | RLocal _ => fallback
          end
        | None => fallback
        end
      | None => fallback
      end
    end.
End HashTree.
