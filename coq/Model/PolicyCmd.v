(* Model/PolicyCmd.v — C20, command side.  Definitions only (proofs in Proofs/PolicyCmdP.v).

   Part 1 mirrors src/policy.rs (as fixed by the F9 commits) function by function:
     uses_bash_tool, extract_bash_commands, shell_words, extract_agentpack_invocations,
     is_agentpack_token, is_env_assignment, is_shell_separator, skip_global_flags,
     agentpack_command_id, lint_claude_command_dangerous_defaults (the simpler rules are in
     Model/PolicyRules.v).
   Part 2 is the REFERENCE READING of a shell line, written from the shell's / clap's point of view and
   sharing no code with part 1 beyond Base.Str and the generated tables.  *)
From AP Require Import Base.Str Gen.Tables.
Open Scope N_scope.

(* ================================================================================================ *)
(* Part 1 — the model of the Rust code                                                                 *)
(* ================================================================================================ *)

Definition marker_bash : str := s "!bash".
Definition marker_bash_tick : str := s "!`bash`".

(* fn uses_bash_tool *)
Definition uses_bash_tool (md : str) : bool := contains marker_bash md || contains marker_bash_tick md.

(* fn extract_bash_commands: (1-based line number, trimmed line) of every non-blank line that follows
   a line whose trimmed text is a marker, up to the next blank line *)
Definition trim_cr (l : str) : str := trim_end_matches (N.eqb 13) l.

Fixpoint extract_bash_go (in_block : bool) (idx : N) (ls : list str) : list (N * str) :=
  match ls with
  | [] => []
  | raw :: r =>
    let trimmed := trim (trim_cr raw) in
    if in_block then
      if is_empty trimmed then extract_bash_go false (idx + 1) r
      else (idx + 1, trimmed) :: extract_bash_go true (idx + 1) r
    else if str_eqb trimmed marker_bash || str_eqb trimmed marker_bash_tick
      then extract_bash_go true (idx + 1) r
      else extract_bash_go false (idx + 1) r
  end.

Definition extract_bash_commands (md : str) : list (N * str) := extract_bash_go false 0 (lines md).

(* fn shell_words: pad ';' '|' '&' with blanks, then split_whitespace.  The character set is the
   one found in the source (Gen.policy_op_chars). *)
Definition is_op_char (c : N) : bool := existsb (N.eqb c) policy_op_chars.

Definition pad_ops (x : str) : str :=
  flat_map (fun c => if is_op_char c then [32; c; 32] else [c]) x.

Definition shell_words (line : str) : list str := split_whitespace (pad_ops line).

(* fn is_shell_separator *)
Definition is_shell_separator (t : str) : bool := mem_str t shell_separators.

(* str::split_once(char) *)
Fixpoint split_once (c : N) (x : str) : option (str * str) :=
  match x with
  | [] => None
  | a :: r =>
    if a =? c then Some ([], r)
    else match split_once c r with
         | Some (h, t) => Some (a :: h, t)
         | None => None
         end
  end.

(* fn is_env_assignment *)
Definition is_ident_char (c : N) : bool := is_ascii_alnum c || (c =? 95).

Definition is_env_assignment (t : str) : bool :=
  match split_once 61 t with
  | None => false
  | Some (name, _) =>
    negb (is_empty name)
    && negb (match name with c :: _ => is_ascii_digit c | [] => false end)
    && forallb is_ident_char name
  end.

(* fn is_agentpack_token *)
Definition is_quote (c : N) : bool := (c =? 34) || (c =? 39).
Definition agentpack_word : str := s "agentpack".
Definition slash_agentpack : str := s "/agentpack".
Definition bslash_agentpack_exe : str := 92 :: s "agentpack.exe".

Definition is_agentpack_token (t : str) : bool :=
  if is_env_assignment t then false
  else
    let t' := trim_matches is_quote t in
    str_eqb t' agentpack_word || ends_with slash_agentpack t' || ends_with bslash_agentpack_exe t'.

(* fn extract_agentpack_invocations: the two nested while loops.  [fuel] bounds the outer loop; with
   fuel = S (length tokens) it is never exhausted (Proofs: scan_fuel_enough). *)
Fixpoint take_while {A} (f : A -> bool) (l : list A) : list A :=
  match l with
  | [] => []
  | x :: r => if f x then x :: take_while f r else []
  end.

Fixpoint drop_until {A} (f : A -> bool) (l : list A) : list A :=
  match l with
  | [] => []
  | x :: r => if f x then l else drop_until f r
  end.

Definition not_sep (t : str) : bool := negb (is_shell_separator t).

Fixpoint scan_invocations (fuel : nat) (tokens : list str) : list (list str) :=
  match fuel with
  | O => []
  | S f =>
    match tokens with
    | [] => []
    | t :: r =>
      if is_agentpack_token t then
        let argv := take_while not_sep r in
        let rest := drop_until is_shell_separator r in          (* i = end *)
        (match argv with [] => [] | _ => [argv] end) ++ scan_invocations f rest
      else scan_invocations f r
    end
  end.

Definition extract_agentpack_invocations (line : str) : list (list str) :=
  let tokens := shell_words line in
  scan_invocations (S (length tokens)) tokens.

(* fn skip_global_flags(argv, idx) — the index only ever grows, so the model returns the suffix
   argv[idx..] instead of idx ([idx += 2] past the end gives the empty suffix, as argv.get does). *)
Definition dashdash : str := s "--".

Fixpoint skip_global_flags (l : list str) : list str :=
  match l with
  | [] => []
  | t :: r =>
    if str_eqb t dashdash then r
    else if negb (starts_with [45] t) then l
    else if mem_str t policy_flags_with_value then
      match r with [] => [] | _ :: r' => skip_global_flags r' end
    else if mem_str t policy_flags_no_value then skip_global_flags r
    else skip_global_flags r
  end.

(* fn agentpack_command_id *)
Definition w_deploy := s "deploy".
Definition w_doctor := s "doctor".
Definition w_import := s "import".
Definition w_overlay := s "overlay".
Definition w_remote := s "remote".
Definition w_evolve := s "evolve".
Definition w_policy := s "policy".
Definition f_apply := s "--apply".
Definition f_fix := s "--fix".

Definition command_id_of (cmd : str) (rest : list str) : str :=
  let sub := match skip_global_flags rest with [] => None | x :: _ => Some x end in
  if str_eqb cmd w_deploy then (if mem_str f_apply rest then cmd ++ 32 :: f_apply else cmd)
  else if str_eqb cmd w_doctor then (if mem_str f_fix rest then cmd ++ 32 :: f_fix else cmd)
  else if str_eqb cmd w_import then (if mem_str f_apply rest then cmd ++ 32 :: f_apply else cmd)
  else if str_eqb cmd w_overlay || str_eqb cmd w_remote || str_eqb cmd w_evolve || str_eqb cmd w_policy then
    match sub with Some x => cmd ++ 32 :: x | None => cmd end
  else cmd.

Definition agentpack_command_id (argv : list str) : option str :=
  match skip_global_flags argv with
  | [] => None
  | cmd :: rest => Some (command_id_of cmd rest)
  end.

(* fn lint_claude_command_dangerous_defaults: one issue per mutating invocation lacking a flag *)
Definition f_json := s "--json".
Definition f_yes := s "--yes".
Definition has_flag (f : str) (inv : list str) : bool := mem_str f inv.

Definition lint_mutating (argv : list str) : bool :=
  match agentpack_command_id argv with
  | Some id => mem_str id mutating_ids
  | None => false
  end.

Definition inv_issue (argv : list str) : bool :=
  lint_mutating argv && negb (has_flag f_json argv && has_flag f_yes argv).

Definition dangerous_issues (md : str) : list (N * list str) :=
  flat_map (fun lc => map (pair (fst lc)) (filter inv_issue (extract_agentpack_invocations (snd lc))))
           (extract_bash_commands md).


(* ================================================================================================ *)
(* Part 2 — the reference reading (the shell's and clap's point of view)                               *)
(* ================================================================================================ *)

(* 2.1 Which lines are run.  SPEC §4.19 / §6: a command file "uses the bash tool" through a line
   `!bash` (or !`bash`); the non-blank lines directly below it are the shell lines.  Stated without
   a state machine: every run of non-blank lines directly below a marker line. *)
Definition ref_line_text (raw : str) : str := trim raw.
Definition ref_is_marker (raw : str) : bool :=
  let t := ref_line_text raw in str_eqb t (s "!bash") || str_eqb t (s "!`bash`").

Fixpoint ref_run_below (ls : list str) : list str :=        (* the non-blank lines up to the first blank one *)
  match ls with
  | [] => []
  | l :: r => match ref_line_text l with [] => [] | t => t :: ref_run_below r end
  end.

Fixpoint ref_shell_lines_of (ls : list str) : list str :=
  match ls with
  | [] => []
  | l :: r => (if ref_is_marker l then ref_run_below r else []) ++ ref_shell_lines_of r
  end.

Definition ref_shell_lines (md : str) : list str := ref_shell_lines_of (lines md).

(* 2.2 A shell line is a list of simple commands separated by the control operators ; | || & && —
   recognised character by character, so also when glued to a word.  (Quoting, redirections such
   as 2>&1, substitutions and here-documents are outside this reading: an operator character always
   separates.) *)
Definition is_ctl_char (c : N) : bool := (c =? 59) || (c =? 124) || (c =? 38).

Fixpoint split_ctl (x : str) : list str :=
  match x with
  | [] => [[]]
  | c :: r =>
    if is_ctl_char c then [] :: split_ctl r
    else match split_ctl r with
         | h :: t => (c :: h) :: t
         | [] => [[c]]
         end
  end.

Definition ref_simple_commands (line : str) : list (list str) := map split_whitespace (split_ctl line).

(* 2.3 The command word.  Leading NAME=value words are assignments, never the command; the command
   names agentpack when, quotes removed, its last path component is `agentpack` (or, Windows
   spelling, `agentpack.exe` after a backslash).  Whatever precedes it in the simple command
   (sudo, env, time, xargs …) is not interpreted: the first such word starts the invocation. *)
Definition ref_name_start (c : N) : bool := is_ascii_upper c || is_ascii_lower c || (c =? 95).
Definition ref_name_char (c : N) : bool := ref_name_start c || is_ascii_digit c.

Definition ref_is_assignment (w : str) : bool :=
  match w with
  | c :: _ => ref_name_start c && (match drop_while ref_name_char w with 61 :: _ => true | _ => false end)
  | [] => false
  end.

Fixpoint last_component (sep : N) (x : str) : str :=
  match x with
  | [] => []
  | c :: r => if mem_char sep r then last_component sep r else if c =? sep then r else x
  end.

Definition ref_names_agentpack (w : str) : bool :=
  str_eqb (last_component 47 w) (s "agentpack")
  || (mem_char 92 w && str_eqb (last_component 92 w) (s "agentpack.exe")).

Definition ref_command_word (w : str) : bool :=
  negb (ref_is_assignment w) && ref_names_agentpack (trim_matches is_quote w).

Fixpoint ref_invocation (ws : list str) : option (list str) :=
  match ws with
  | [] => None
  | w :: r => if ref_command_word w then (match r with [] => None | _ => Some r end) else ref_invocation r
  end.

Definition ref_invocations_line (line : str) : list (list str) :=
  flat_map (fun ws => match ref_invocation ws with Some a => [a] | None => [] end) (ref_simple_commands line).

Definition ref_invocations (md : str) : list (list str) := flat_map ref_invocations_line (ref_shell_lines md).

(* 2.4 Which command an argv invokes — clap's reading.  Global options (struct Cli in
   src/cli/args.rs, Gen.cli_global_value_flags and Gen.cli_global_bool_flags) may stand before the command word and between a command group
   and its subcommand; those that take a value consume the next word.  `--` ends option parsing and
   clap then accepts no subcommand.  The command words are looked up in the catalogue
   (Cli::command_path, Gen.catalogue_ids): `w1 w2` for a group, `w1 --flag` for a command with a
   mutating variant when that flag follows the command word. *)
Inductive wclass := WPositional | WValueFlag | WFlag | WEndOfOptions.

Definition classify (t : str) : wclass :=
  if str_eqb t (s "--") then WEndOfOptions
  else match t with
       | 45 :: _ => if mem_str t cli_global_value_flags then WValueFlag else WFlag
       | _ => WPositional
       end.

Fixpoint ref_next_word (argv : list str) : option (str * list str) :=
  match argv with
  | [] => None
  | t :: r =>
    match classify t with
    | WPositional => Some (t, r)
    | WEndOfOptions => None
    | WValueFlag => match r with [] => None | _ :: r' => ref_next_word r' end
    | WFlag => ref_next_word r
    end
  end.

Definition id_head (id : str) : str := match split_once 32 id with Some (h, _) => h | None => id end.
Definition id_tail (id : str) : option str := match split_once 32 id with Some (_, t) => Some t | None => None end.

(* groups: catalogue ids `w1 w2` whose second word is not an option *)
Definition group_names : list str :=
  map id_head (filter (fun id => match id_tail id with Some (45 :: _) => false | Some _ => true | None => false end)
                      catalogue_ids).
(* variants: catalogue ids `w1 --flag` *)
Definition variant_table : list (str * str) :=
  flat_map (fun id => match id_tail id with Some (45 :: f) => [(id_head id, 45 :: f)] | _ => [] end) catalogue_ids.

Fixpoint variant_flag (w : str) (tbl : list (str * str)) : option str :=
  match tbl with
  | [] => None
  | (w', f) :: r => if str_eqb w w' then Some f else variant_flag w r
  end.

Definition ref_id (argv : list str) : option str :=
  match ref_next_word argv with
  | None => None
  | Some (w1, after1) =>
    if mem_str w1 group_names then
      match ref_next_word after1 with
      | Some (w2, _) => Some (w1 ++ 32 :: w2)
      | None => Some w1
      end
    else match variant_flag w1 variant_table with
         | Some f => if mem_str f after1 then Some (w1 ++ 32 :: f) else Some w1
         | None => Some w1
         end
  end.

Definition ref_mutating (argv : list str) : bool :=
  match ref_id argv with Some id => mem_str id mutating_ids | None => false end.
