(* Model/Deploy.v — the deploy decision core: target manifests, managed set, plan, adopt check,
   apply, manifest rewrite, snapshot record, rollback.  Mirrors src/target_manifest.rs,
   src/deploy.rs, src/handlers/{read_only,deploy}.rs, src/roots.rs, src/apply.rs, src/state.rs.
   Definitions only (proofs in Proofs/DeployP.v). *)
From AP Require Import Base.Str Base.Sorting Gen.Tables.
Open Scope N_scope.

(* ---------- paths ---------- *)
(* An absolute path is its list of normal components ([Path::components]: empty and "."
   components dropped, ".." kept).  [PathBuf]'s Eq/Ord — hence BTreeMap<TargetPath,_> lookups and
   [strip_prefix] — work on exactly this list. *)
Definition path := list str.

Fixpoint path_eqb (a b : path) : bool :=
  match a, b with
  | [], [] => true
  | x :: a', y :: b' => str_eqb x y && path_eqb a' b'
  | _, _ => false
  end.

Definition dot : str := [46].
Definition dotdot : str := [46; 46].
Definition slash : N := 47.

(* components of a relative string as [Path::new(s).components()] yields them after a join *)
Definition comps (e : str) : list str :=
  filter (fun c => negb (is_empty c) && negb (str_eqb c dot)) (split_on slash e).

Definition is_absolute (e : str) : bool := match e with c :: _ => c =? slash | [] => false end.

(* target_manifest.rs ensure_safe_relative_path *)
Definition safe_rel (e : str) : bool :=
  negb (is_absolute e) && negb (existsb (str_eqb dotdot) (comps e)).

(* root.join(rel) for a relative rel *)
Definition join_rel (root : path) (e : str) : path := root ++ comps e.

Fixpoint is_prefix (r p : path) : bool :=
  match r, p with
  | [], _ => true
  | x :: r', y :: p' => str_eqb x y && is_prefix r' p'
  | _ :: _, [] => false
  end.

Fixpoint strip_root (r p : path) : option path :=
  match r, p with
  | [], _ => Some p
  | x :: r', y :: p' => if str_eqb x y then strip_root r' p' else None
  | _ :: _, [] => None
  end.

(* lexical resolution of ".." (what the kernel would do in the absence of symlinks) *)
Fixpoint lexnorm_acc (acc : path) (p : path) : path :=
  match p with
  | [] => rev acc
  | c :: r => if str_eqb c dotdot then lexnorm_acc (tl acc) r else lexnorm_acc (c :: acc) r
  end.
Definition lexnorm (p : path) : path := lexnorm_acc [] p.

Definition last_comp (p : path) : option str :=
  match rev p with [] => None | c :: _ => Some c end.

(* ---------- targets, roots ---------- *)
Definition tpath := (str * path)%type.
Definition tp_eqb (a b : tpath) : bool := str_eqb (fst a) (fst b) && path_eqb (snd a) (snd b).
Fixpoint mem_tp (x : tpath) (l : list tpath) : bool :=
  match l with [] => false | y :: r => tp_eqb x y || mem_tp x r end.
Fixpoint dedup_tp (l : list tpath) : list tpath :=
  match l with [] => [] | x :: r => if mem_tp x r then dedup_tp r else x :: dedup_tp r end.

Record root := { rtarget : str; rpath : path; rscan : bool }.

(* store.rs sanitize_module_id *)
Definition sanitize_id (x : str) : str :=
  map (fun c => if is_ascii_alnum c || (c =? 45) || (c =? 95) then c else 95) x.

(* target_manifest.rs manifest_filename / is_target_manifest_filename *)
Definition mf_name (t : str) : str := manifest_filename_prefix ++ sanitize_id t ++ manifest_filename_suffix.
Definition is_manifest_name (n : str) : bool :=
  str_eqb n legacy_manifest_filename ||
  (starts_with manifest_filename_prefix n && ends_with manifest_filename_suffix n).
Definition is_manifest_path (p : path) : bool :=
  match last_comp p with Some n => is_manifest_name n | None => false end.
Definition mf_path (r : root) : path := rpath r ++ [mf_name (rtarget r)].
Definition legacy_path (r : root) : path := rpath r ++ [legacy_manifest_filename].

(* roots.rs best_root_idx: same target, root is a prefix, max component count, LAST on ties *)
Fixpoint best_root_from (i : nat) (rs : list root) (t : str) (p : path) (best : option (nat * nat))
  : option (nat * nat) :=
  match rs with
  | [] => best
  | r :: rest =>
    let best' :=
      if str_eqb (rtarget r) t && is_prefix (rpath r) p then
        match best with
        | Some (_, n) => if Nat.leb n (length (rpath r)) then Some (i, length (rpath r)) else best
        | None => Some (i, length (rpath r))
        end
      else best in
    best_root_from (S i) rest t p best'
  end.
Definition best_root_idx (rs : list root) (t : str) (p : path) : option nat :=
  match best_root_from 0 rs t p None with Some (i, _) => Some i | None => None end.

Definition idx_is (o : option nat) (i : nat) : bool :=
  match o with Some j => Nat.eqb i j | None => false end.

(* ---------- file system ---------- *)
(* file contents: opaque bytes identified by a content id (SHA-256 comparisons in the code become
   id comparisons: sound iff SHA-256 is injective on the inputs at hand), or a manifest file kept
   structurally (JSON parsing itself is not modelled). *)
Inductive mfile :=
| Garbage                                            (* unreadable / not JSON / missing fields / bad version type *)
| Parsed (sv : N) (tool : str) (entries : list (str * N)).   (* entries: relpath string, content id *)

Inductive fobj := FBytes (c : N) | FMan (m : mfile).

Definition entry_eqb (a b : str * N) : bool := str_eqb (fst a) (fst b) && (snd a =? snd b).
Fixpoint entries_eqb (a b : list (str * N)) : bool :=
  match a, b with
  | [], [] => true
  | x :: a', y :: b' => entry_eqb x y && entries_eqb a' b'
  | _, _ => false
  end.
Definition mfile_eqb (a b : mfile) : bool :=
  match a, b with
  | Garbage, Garbage => true
  | Parsed v t e, Parsed v' t' e' => (v =? v') && str_eqb t t' && entries_eqb e e'
  | _, _ => false
  end.
Definition fobj_eqb (a b : fobj) : bool :=
  match a, b with
  | FBytes c, FBytes c' => c =? c'
  | FMan m, FMan m' => mfile_eqb m m'
  | _, _ => false
  end.

Definition fs := path -> option fobj.
Definition upd (f : fs) (p : path) (v : option fobj) : fs :=
  fun q => if path_eqb q p then v else f q.
Definition exists_at (f : fs) (p : path) : bool := match f p with Some _ => true | None => false end.

(* ---------- snapshots (state.rs) ---------- *)
Inductive skind := KDeploy | KBootstrap | KRollback | KOther.
Inductive aop := ACreate | AUpdate | ADelete | ARestore | ARDelete.
Record achange := { a_target : str; a_op : aop; a_path : path;
                    a_backup : option fobj;     (* bytes saved under backup/ (pre-image) *)
                    a_after : option fobj }.    (* bytes written (manifests: also saved under state/) *)
Record snapshot := { sn_kind : skind;
                     sn_managed : list (str * path * N);   (* managed_files, bytes in state/ *)
                     sn_changes : list achange;
                     sn_to : option nat;                    (* rolled_back_to, as an index *)
                     sn_state : bool }.                     (* has a state/ tree *)

Record world := { files : fs; snaps : list snapshot }.   (* snaps in id order; index = ordinal *)

Definition kind_dr (k : skind) : bool := match k with KDeploy | KRollback => true | _ => false end.

(* state.rs latest_snapshot(home, ["deploy","rollback"]) — ordinals stand for (mtime, id) order *)
Fixpoint latest_dr (l : list snapshot) : option snapshot :=
  match l with
  | [] => None
  | x :: r => match latest_dr r with
              | Some y => Some y
              | None => if kind_dr (sn_kind x) then Some x else None
              end
  end.

(* deploy.rs load_managed_paths_from_snapshot *)
Definition is_cu (o : aop) : bool := match o with ACreate | AUpdate => true | _ => false end.
Definition snap_managed (x : snapshot) : list tpath :=
  match sn_managed x with
  | _ :: _ => map (fun e => (fst (fst e), snd (fst e))) (sn_managed x)
  | [] => map (fun c => (a_target c, a_path c))
              (filter (fun c => is_cu (a_op c) && negb (is_manifest_path (a_path c))) (sn_changes x))
  end.

(* ---------- managed set (target_manifest.rs, handlers/read_only.rs) ---------- *)
Definition manifest_usable (m : mfile) (t : str) : option (list (str * N)) :=
  match m with
  | Parsed sv tool es =>
    if (sv =? target_manifest_schema_version) && str_eqb tool t then Some es else None
  | Garbage => None
  end.

(* read_target_manifest_soft on the chosen file: preferred name if it exists, else legacy name *)
Definition chosen_manifest (f : fs) (r : root) : option fobj :=
  match f (mf_path r) with
  | Some o => Some o
  | None => f (legacy_path r)
  end.
Definition read_manifest (f : fs) (r : root) : option (list (str * N)) :=
  match chosen_manifest f r with
  | Some (FMan m) => manifest_usable m (rtarget r)
  | _ => None
  end.

Definition root_managed (f : fs) (r : root) : list tpath :=
  match read_manifest f r with
  | None => []
  | Some es => map (fun e => (rtarget r, join_rel (rpath r) (fst e)))
                   (filter (fun e => safe_rel (fst e)) es)
  end.
Definition load_managed (f : fs) (roots : list root) : list tpath := flat_map (root_managed f) roots.

Definition passes (flt : option str) (t : str) : bool :=
  match flt with None => true | Some x => str_eqb t x end.
Definition filter_managed (flt : option str) (m : list tpath) : list tpath :=
  filter (fun tp => passes flt (fst tp)) m.

(* managed_paths_for_plan.  Rust returns Option<set>; [None] and [Some {}] are indistinguishable
   for [plan] (no managed update, no delete), so the model returns the list. *)
(* read_only.rs retain_under_roots: snapshots are shared by every project and configuration using
   this agentpack home; the fallback only considers files under a current root of their target *)
Definition under_roots (roots : list root) (tp : tpath) : bool :=
  existsb (fun r => str_eqb (rtarget r) (fst tp) && is_prefix (rpath r) (snd tp)) roots.

(* a usable manifest, even one that lists nothing, is the record; the snapshot fallback is for
   roots without any usable manifest *)
Definition any_usable (f : fs) (roots : list root) : bool :=
  existsb (fun r => match read_manifest f r with Some _ => true | None => false end) roots.

Definition managed_for_plan (w : world) (roots : list root) (flt : option str) : list tpath :=
  if any_usable (files w) roots then filter_managed flt (load_managed (files w) roots)
  else match latest_dr (snaps w) with
       | Some sn => filter_managed flt (filter (under_roots roots) (snap_managed sn))
       | None => []
       end.

(* ---------- desired state and plan (deploy.rs) ---------- *)
Record dfile := { dtarget : str; dpath : path; dcontent : N; dids : list str }.
Definition dkey (d : dfile) : tpath := (dtarget d, dpath d).
Definition mem_key (tp : tpath) (D : list dfile) : bool := existsb (fun d => tp_eqb tp (dkey d)) D.

Inductive ukind := UManaged | UAdopt.
Inductive pop := PCreate | PUpdate (k : ukind) | PDelete.
Record change := { c_target : str; c_op : pop; c_path : path;
                   c_before : option fobj; c_after : option N }.

Definition plan_desired (f : fs) (M : list tpath) (d : dfile) : list change :=
  match f (dpath d) with
  | None => [Build_change (dtarget d) PCreate (dpath d) None (Some (dcontent d))]
  | Some o =>
    if fobj_eqb o (FBytes (dcontent d)) then []
    else [Build_change (dtarget d) (PUpdate (if mem_tp (dkey d) M then UManaged else UAdopt))
                       (dpath d) (Some o) (Some (dcontent d))]
  end.

Definition plan_managed (f : fs) (D : list dfile) (tp : tpath) : list change :=
  if mem_key tp D then []
  else match f (snd tp) with
       | Some o => [Build_change (fst tp) PDelete (snd tp) (Some o) None]
       | None => []
       end.

(* the path as the string the code sorts by ([to_string_lossy] of an absolute path) *)
Definition render_abs (p : path) : str := flat_map (fun c => slash :: c) p.

(* changes.sort_by((target, path string)) — byte-wise string order *)
Definition change_leb (a b : change) : bool :=
  match str_compare (c_target a) (c_target b) with
  | Lt => true
  | Gt => false
  | Eq => str_leb (render_abs (c_path a)) (render_abs (c_path b))
  end.

Definition plan_unsorted (f : fs) (D : list dfile) (M : list tpath) : list change :=
  flat_map (plan_desired f M) D ++ flat_map (plan_managed f D) (dedup_tp M).

Definition plan (f : fs) (D : list dfile) (M : list tpath) : list change :=
  isort change_leb (plan_unsorted f D M).

(* ---------- apply (apply.rs) ---------- *)
Definition apply_change (f : fs) (c : change) : fs :=
  match c_op c with
  | PDelete => upd f (c_path c) None
  | _ => match c_after c with
         | Some n => upd f (c_path c) (Some (FBytes n))
         | None => f
         end
  end.

Definition applied_of (f : fs) (c : change) : achange :=
  match c_op c with
  | PCreate => Build_achange (c_target c) ACreate (c_path c) None (option_map FBytes (c_after c))
  | PUpdate _ => Build_achange (c_target c) AUpdate (c_path c) (f (c_path c)) (option_map FBytes (c_after c))
  | PDelete => Build_achange (c_target c) ADelete (c_path c) (f (c_path c)) None
  end.

Fixpoint apply_changes (f : fs) (pl : list change) : fs * list achange :=
  match pl with
  | [] => (f, [])
  | c :: r => let '(f', l) := apply_changes (apply_change f c) r in (f', applied_of f c :: l)
  end.

Fixpoint render_rel (cs : list str) : str :=
  match cs with
  | [] => []
  | [a] => a
  | a :: r => a ++ slash :: render_rel r
  end.

Definition rel_of (r : root) (p : path) : str :=
  match strip_root (rpath r) p with Some cs => render_rel cs | None => [] end.

Definition per_root (roots : list root) (D : list dfile) (i : nat) (r : root) : list (str * N) :=
  map (fun d => (rel_of r (dpath d), dcontent d))
      (filter (fun d => idx_is (best_root_idx roots (dtarget d) (dpath d)) i) D).

Definition root_had_changes (roots : list root) (pl : list change) (i : nat) : bool :=
  existsb (fun c => idx_is (best_root_idx roots (c_target c) (c_path c)) i) pl.

Definition new_manifest (r : root) (es : list (str * N)) : fobj :=
  FMan (Parsed target_manifest_schema_version (rtarget r) es).

(* target_manifest.rs legacy_manifest_lists_entries: no preferred-name manifest, and the legacy-named
   one is usable for this target and still lists entries *)
Definition legacy_stale (f : fs) (r : root) : bool :=
  negb (exists_at f (mf_path r)) &&
  match read_manifest f r with Some (_ :: _) => true | _ => false end.

Fixpoint write_manifests_from (i : nat) (rs : list root) (roots : list root) (D : list dfile)
         (pl : list change) (f : fs) : fs * list achange :=
  match rs with
  | [] => (f, [])
  | r :: rest =>
    let es := per_root roots D i r in
    let existed := exists_at f (mf_path r) in
    if existed || negb (match es with [] => true | _ => false end) || root_had_changes roots pl i
       || legacy_stale f r then
      let f1 := upd f (mf_path r) (Some (new_manifest r es)) in
      let '(f2, l) := write_manifests_from (S i) rest roots D pl f1 in
      (f2, Build_achange (rtarget r) (if existed then AUpdate else ACreate) (mf_path r)
                         (f (mf_path r)) (Some (new_manifest r es)) :: l)
    else write_manifests_from (S i) rest roots D pl f
  end.
Definition write_manifests (roots : list root) (D : list dfile) (pl : list change) (f : fs) :=
  write_manifests_from 0 roots roots D pl f.

Definition apply_plan (k : skind) (w : world) (roots : list root) (D : list dfile) (pl : list change)
  : world :=
  let '(f1, l1) := apply_changes (files w) pl in
  let '(f2, l2) := match k with
                   | KDeploy | KBootstrap => write_manifests roots D pl f1
                   | _ => (f1, [])
                   end in
  {| files := f2;
     snaps := snaps w ++ [ {| sn_kind := k;
                              sn_managed := map (fun d => (dtarget d, dpath d, dcontent d)) D;
                              sn_changes := l1 ++ l2; sn_to := None; sn_state := true |} ] |}.

(* ---------- deploy --apply (handlers/deploy.rs) ---------- *)
Inductive style := SJsonYes | SExplicit | SInteractive.
Inductive outcome := OErr (code : str) | ONoChanges | ONeedsConfirmation | OApplied.

Definition code_confirm_required : str :=
  [69;95;67;79;78;70;73;82;77;95;82;69;81;85;73;82;69;68].                 (* E_CONFIRM_REQUIRED *)
Definition code_adopt_required : str :=
  [69;95;65;68;79;80;84;95;67;79;78;70;73;82;77;95;82;69;81;85;73;82;69;68]. (* E_ADOPT_CONFIRM_REQUIRED *)

Definition is_adopt (c : change) : bool :=
  match c_op c with PUpdate UAdopt => true | _ => false end.
Definition has_adopt (pl : list change) : bool := existsb is_adopt pl.

(* target_manifest.rs manifests_missing_for_desired: a used root (one that is the best root of some
   desired file) needs its manifest (re)written when no per-target manifest file exists (a legacy-named
   one is migrated), when it is unusable for the target, or when it does not list exactly the
   root's desired files (relative path, content); an unused root's preferred manifest that still
   lists entries is stale too — the last three cases since /repo commit "a stale or
   unreadable target manifest is rewritten by the next deploy" *)
Definition entries_subset (a b : list (str * N)) : bool :=
  forallb (fun x => existsb (entry_eqb x) b) a.
Definition entries_same (a b : list (str * N)) : bool := entries_subset a b && entries_subset b a.

Fixpoint manifests_missing_from (i : nat) (rs roots : list root) (D : list dfile) (f : fs) : bool :=
  match rs with
  | [] => false
  | r :: rest =>
    (if existsb (fun d => idx_is (best_root_idx roots (dtarget d) (dpath d)) i) D
     then (* a root that holds desired files needs its per-target manifest (a legacy-named one, even an
             exact one, is migrated), usable and listing exactly the root's desired files *)
          match f (mf_path r) with
          | None => true
          | Some _ => match read_manifest f r with
                      | Some es => negb (entries_same es (per_root roots D i r))
                      | None => true
                      end
          end
     else (* a root without desired files: an existing preferred-name manifest that is unusable or
             still lists entries is stale; without one, a legacy-named manifest of this target that
             still lists entries is stale *)
          match f (mf_path r) with
          | Some (FMan m) => match manifest_usable m (rtarget r) with Some [] => false | _ => true end
          | Some (FBytes _) => true
          | None => legacy_stale f r
          end)
    || manifests_missing_from (S i) rest roots D f
  end.
Definition manifests_missing (roots : list root) (D : list dfile) (f : fs) : bool :=
  manifests_missing_from 0 roots roots D f.

Definition needs_confirm_flag (st : style) : bool :=
  match st with SInteractive => false | _ => true end.

Definition deploy_apply_in (st : style) (confirmed adopt : bool) (w : world) (roots : list root)
           (D : list dfile) (pl : list change) : outcome * world :=
  if needs_confirm_flag st && negb confirmed then (OErr code_confirm_required, w)
  else if has_adopt pl && negb adopt then (OErr code_adopt_required, w)
  else if (match pl with [] => true | _ => false end) && negb (manifests_missing roots D (files w))
       then (ONoChanges, w)
  else if negb confirmed then (ONeedsConfirmation, w)
  else (OApplied, apply_plan KDeploy w roots D pl).

(* the whole command: D and roots are the render result for the selected targets *)
Definition deploy_cmd (st : style) (confirmed adopt : bool) (flt : option str) (w : world)
           (roots : list root) (D : list dfile) : list change * (outcome * world) :=
  let pl := plan (files w) D (managed_for_plan w roots flt) in
  (pl, deploy_apply_in st confirmed adopt w roots D pl).

(* bootstrap: plans with no managed set, applies adopt updates, kind "bootstrap" *)
Definition bootstrap_cmd (w : world) (roots : list root) (D : list dfile) : list change * world :=
  let pl := plan (files w) D [] in
  match pl with
  | [] => (pl, w)
  | _ => (pl, apply_plan KBootstrap w roots D pl)
  end.

(* evolve restore: writes exactly the desired files whose stat says NotFound (handlers/evolve.rs) *)
Definition restore_cmd (f : fs) (D : list dfile) : fs :=
  fold_left (fun g d => match g (dpath d) with
                        | None => upd g (dpath d) (Some (FBytes (dcontent d)))
                        | Some _ => g
                        end) D f.

(* import --apply: refuses as a whole when any destination exists (cli/commands/import.rs) *)
Definition import_apply (f : fs) (dests : list (path * N)) : option fs :=
  if existsb (fun d => exists_at f (fst d)) dests then None
  else Some (fold_left (fun g d => upd g (fst d) (Some (FBytes (snd d)))) dests f).

(* ---------- rollback (apply.rs rollback, state.rs list_snapshots) ---------- *)
(* head replay over id-ordered records *)
Fixpoint head_from (i : nat) (l : list snapshot) (head : option nat) : option nat :=
  match l with
  | [] => head
  | x :: r =>
    head_from (S i) r
      (match sn_kind x with
       | KDeploy | KBootstrap => Some i
       | KRollback => match sn_to x with Some t => Some t | None => head end
       | KOther => head
       end)
  end.
Definition head_of (l : list snapshot) : option nat := head_from 0 l None.

Definition mem_tpc (tp : tpath) (l : list (str * path * N)) : bool :=
  existsb (fun e => tp_eqb tp (fst (fst e), snd (fst e))) l.

Definition restore_managed (f : fs) (l : list (str * path * N)) : fs :=
  fold_left (fun g e => upd g (snd (fst e)) (Some (FBytes (snd e)))) l f.
Definition restore_manifests (f : fs) (l : list achange) : fs :=
  fold_left (fun g c => if is_manifest_path (a_path c) && is_cu (a_op c)
                        then match a_after c with Some o => upd g (a_path c) (Some o) | None => g end
                        else g) l f.
Definition delete_unlisted (f : fs) (cur tgt : list (str * path * N)) : fs :=
  fold_left (fun g e => if mem_tpc (fst (fst e), snd (fst e)) tgt then g else upd g (snd (fst e)) None) cur f.

Inductive rb_result := RbErr | RbOk.

(* state-tree branch only (every snapshot written by this version has a state tree) *)
Definition rollback (w : world) (id : nat) : rb_result * world :=
  match nth_error (snaps w) id with
  | None => (RbErr, w)
  | Some tgt =>
    match sn_kind tgt with
    | KRollback => (RbErr, w)
    | _ =>
      match head_of (snaps w) with
      | None => (RbErr, w)
      | Some h =>
        match nth_error (snaps w) h with
        | None => (RbErr, w)
        | Some cur =>
          if sn_state tgt then
            let f1 := restore_managed (files w) (sn_managed tgt) in
            let f2 := restore_manifests f1 (sn_changes tgt) in
            let f3 := delete_unlisted f2 (sn_managed cur) (sn_managed tgt) in
            (RbOk, {| files := f3;
                      snaps := snaps w ++ [ {| sn_kind := KRollback; sn_managed := sn_managed tgt;
                                               sn_changes := []; sn_to := Some id; sn_state := false |} ] |})
          else (RbErr, w)
        end
      end
    end
  end.

(* ---------- dry-run wrappers (cli/commands/deploy.rs run, handlers/evolve.rs evolve_restore_in) ---------- *)
(* will_apply = apply && !dry_run; the change list is computed before and independently of it *)
Definition deploy_cli (json yes apply dry adopt : bool) (flt : option str) (w : world)
           (roots : list root) (D : list dfile) : list change * option outcome * world :=
  let pl := plan (files w) D (managed_for_plan w roots flt) in
  if apply && negb dry then
    let '(out, w') := deploy_apply_in (if json then SJsonYes else SInteractive) yes adopt w roots D pl in
    (pl, Some out, w')
  else (pl, None, w).

(* evolve restore: the reported items are the desired files whose path is missing *)
Definition restore_items (f : fs) (D : list dfile) : list dfile :=
  filter (fun d => negb (exists_at f (dpath d))) D.
Definition restore_cli (dry : bool) (f : fs) (D : list dfile) : list dfile * fs :=
  (restore_items f D, if dry then f else restore_cmd f D).
