(* Model/Markers.v — per-module section markers in aggregated instruction files, the aggregation the
   targets perform, and the capture decision of `evolve propose` for such files.

   Mirrors (function by function, same order of checks):
     src/markers.rs            format_module_section, parse_module_sections (+ parse_start_marker)
     src/targets/{codex,vscode,jetbrains,zed}.rs   "instructions_parts" → combined bytes
     src/targets/cursor.rs     one rule file per instructions module (generated front matter)
     src/targets/vscode.rs     prompt file naming (`*.prompt.md`)
     src/handlers/evolve.rs    try_propose_marked_instructions_sections, module_rel_path_for_output,
                               the per-output decision of evolve_propose_in
   Definitions only; proofs are in Proofs/MarkersP.v.  The two marker strings and the per-target
   join separators come from Gen/Tables.v (re-read from the Rust source on every run). *)
From AP Require Import Base.Str Gen.Tables.
Open Scope N_scope.

(* ------------------------------------------------------------------ format_module_section *)

Definition nl : N := 10.
Definition start_close : str := [32; 45; 45; 62; 10].      (* " -->\n" *)
Definition arrow_close : str := [45; 45; 62].              (* "-->" *)

(* out = PREFIX + id + " -->\n" + content + ("\n" unless content.ends_with('\n')) + END *)
Definition format_section (id content : str) : str :=
  marker_start_prefix ++ id ++ start_close ++ content
    ++ (if ends_with [nl] content then [] else [nl]) ++ marker_end.

(* ------------------------------------------------------------------ parse_module_sections *)

(* fn parse_start_marker(line) -> Option<String> *)
Definition parse_start_marker (line : str) : option str :=
  let trimmed := trim line in
  if negb (starts_with marker_start_prefix trimmed) then None
  else if negb (ends_with arrow_close trimmed) then None
  else match strip_prefix marker_start_prefix trimmed with
       | None => None
       | Some a =>
         match strip_suffix arrow_close a with
         | None => None
         | Some b => let raw := trim b in if is_empty raw then None else Some raw
         end
       end.

Inductive perr :=
| ErrDuplicate (id : str)        (* "duplicate module section: {id}" *)
| ErrNested                      (* "nested module section marker" *)
| ErrUnterminated (id : str).    (* "unterminated module section for {id}" *)

Inductive pres :=
| POk (sections : list (str * str))
| PErr (e : perr).

Fixpoint lookup (k : str) (l : list (str * str)) : option str :=
  match l with
  | [] => None
  | (k', v) :: r => if str_eqb k k' then Some v else lookup k r
  end.

Definition has_key (k : str) (l : list (str * str)) : bool :=
  match lookup k l with Some _ => true | None => false end.

(* The BTreeMap<String,String> is kept as an association list in order of insertion; an insertion
   of a key already present is the `ensure!` failure, so keys are pairwise distinct and the map is
   fully described by [lookup].  (The iteration order of the BTreeMap is never observed: its only
   consumer, try_propose_marked_instructions_sections, walks the desired file's module_ids.) *)
Definition pstate := (list (str * str) * option (str * str))%type.

(* body of the `for line in text.split_inclusive('\n')` loop *)
Definition step (st : pstate) (line : str) : pstate + perr :=
  let '(secs, cur) := st in
  match cur with
  | Some (id, buf) =>
    if str_eqb (trim line) marker_end then
      if has_key id secs then inr (ErrDuplicate id)
      else inl (secs ++ [(id, buf)], None)
    else
      match parse_start_marker line with
      | Some _ => inr ErrNested
      | None => inl (secs, Some (id, buf ++ line))
      end
  | None =>
    match parse_start_marker line with
    | Some id => inl (secs, Some (id, []))
    | None => inl (secs, None)
    end
  end.

Fixpoint run_lines (st : pstate) (ls : list str) : pstate + perr :=
  match ls with
  | [] => inl st
  | l :: r => match step st l with
              | inl st' => run_lines st' r
              | inr e => inr e
              end
  end.

Definition parse_sections (text : str) : pres :=
  match run_lines ([], None) (split_inclusive_nl text) with
  | inr e => PErr e
  | inl (_, Some (id, _)) => PErr (ErrUnterminated id)
  | inl (secs, None) => POk secs
  end.

(* ------------------------------------------------------------------ aggregation (targets) *)

(* `parts` = (module id, text of AGENTS.md) in module-id order; markers only when > 1 part. *)
Definition aggregate (sep : str) (parts : list (str * str)) : str :=
  join sep (map (fun p => format_section (fst p) (snd p)) parts).

Definition render_instructions (sep : str) (parts : list (str * str)) : str :=
  if (1 <? N.of_nat (length parts)) then aggregate sep parts
  else join sep (map snd parts).

Definition sep_of_target (t : str) : option str := lookup t instructions_join_seps.

(* A section with an arbitrary body between the markers (what a user edit of the deployed file
   produces): format_section id t = raw_section id (ensure_nl t). *)
Definition raw_section (id body : str) : str :=
  marker_start_prefix ++ id ++ start_close ++ body ++ marker_end.

Definition aggregate_raw (sep : str) (parts : list (str * str)) : str :=
  join sep (map (fun p => raw_section (fst p) (snd p)) parts).

Definition ensure_nl (t : str) : str := if ends_with [nl] t then t else t ++ [nl].

(* ------------------------------------------------------------------ side conditions (decidable) *)

(* a line the parser would take for a marker *)
Definition marker_like (line : str) : bool :=
  str_eqb (trim line) marker_end
  || match parse_start_marker line with Some _ => true | None => false end.

Definition is_start_marker (line : str) : bool :=
  match parse_start_marker line with Some _ => true | None => false end.

(* K17a: some line of the text (as stored, i.e. with its final newline) is marker-like *)
Definition text_ok (t : str) : bool :=
  forallb (fun l => negb (marker_like l)) (split_inclusive_nl (ensure_nl t)).
Definition K17a (t : str) : bool := negb (text_ok t).

(* K17b: the text does not end with a newline (it comes back with one) *)
Definition K17b (t : str) : bool := negb (ends_with [nl] t).

(* K17h: the id cannot be read back: contains a newline, has leading/trailing Unicode white space,
   or is empty *)
Definition id_ok (id : str) : bool :=
  negb (mem_char nl id) && str_eqb (trim id) id && negb (is_empty id).
Definition K17h (id : str) : bool := negb (id_ok id).

(* a section body as found on disk: empty, or newline-terminated; no marker-like line *)
Definition body_ok (b : str) : bool :=
  (is_empty b || ends_with [nl] b)
  && forallb (fun l => negb (marker_like l)) (split_inclusive_nl b).
(* K17f: the user emptied the section *)
Definition K17f (b : str) : bool := is_empty b.

(* the separator: starts with the newline that terminates the END marker line; the rest is empty or
   newline-terminated and contains no start-marker line *)
Definition sep_ok (sep : str) : bool :=
  match sep with
  | c :: tail =>
    (c =? nl) && (is_empty tail || ends_with [nl] tail)
    && forallb (fun l => negb (is_start_marker l)) (split_inclusive_nl tail)
  | [] => false
  end.

(* The file is exactly the marked aggregation of its own sections, for the expected module ids:
   nothing outside the section bodies differs from what the renderer writes.  K17g = negation. *)
Fixpoint ids_eqb (a b : list str) : bool :=
  match a, b with
  | [], [] => true
  | x :: a', y :: b' => str_eqb x y && ids_eqb a' b'
  | _, _ => false
  end.

Definition canonical (sep : str) (ids : list str) (file : str) : bool :=
  match parse_sections file with
  | POk a => str_eqb (aggregate_raw sep a) file && ids_eqb (map fst a) ids
  | PErr _ => false
  end.

(* ------------------------------------------------------------------ evolve propose: capture *)

Definition is_nil {A} (l : list A) : bool := match l with [] => true | _ => false end.

(* try_propose_marked_instructions_sections(desired_bytes, actual_bytes, module_ids).
   The two `windows(..).any(..)` byte searches are substring tests for an ASCII needle (UTF-8 is
   self-synchronising, so searching code points is the same); invalid UTF-8 in either file is the
   `Err(_) => return Ok(None)` arm and is not represented (texts here are decoded strings). *)
Definition capture (desired actual : str) (module_ids : list str) : option (list (str * str)) :=
  if negb (contains marker_start_prefix desired) then None
  else if negb (contains marker_start_prefix actual) then None
  else match parse_sections desired with
       | PErr _ => None
       | POk d =>
         match parse_sections actual with
         | PErr _ => None
         | POk a =>
           if existsb (fun id => negb (has_key id d) || negb (has_key id a)) module_ids then None
           else
             let out := flat_map (fun id =>
                           match lookup id d, lookup id a with
                           | Some dt, Some at_ => if str_eqb dt at_ then [] else [(id, at_)]
                           | _, _ => []
                           end) module_ids in
             if is_nil out then None else Some out
         end
       end.

(* Per-output decision of evolve_propose_in (the loop body over the desired state), for one
   desired file with its module_ids and the bytes found on disk (None = file missing).
   Not represented: the module filter, read errors other than NotFound, and the de-duplication of
   identical section edits seen in several aggregated outputs (first output wins; a conflicting
   later one is reported as a warning). *)
Inductive decision :=
| NotDrifted
| SkipMissing                              (* skipped, reason "missing" *)
| SkipMultiModule                          (* skipped, reason "multi_module_output" *)
| Candidates (c : list (str * str)).       (* (module id, bytes to write into its overlay) *)

Definition decide (desired : str) (module_ids : list str) (actual : option str) : decision :=
  match actual with
  | Some a =>
    if str_eqb a desired then NotDrifted
    else match module_ids with
         | [m] => Candidates [(m, a)]
         | _ => match capture desired a module_ids with
                | Some c => Candidates c
                | None => SkipMultiModule
                end
         end
  | None => SkipMissing
  end.

(* The proposal branch: the captured bytes become <overlay dir>/AGENTS.md of that module, i.e. the
   module's text at the next render (dir overlay in the chosen scope; a patch overlay there is
   class K17e and makes the next render fail — see the end-to-end stream). *)
Definition apply_capture (parts out : list (str * str)) : list (str * str) :=
  map (fun p => (fst p, match lookup (fst p) out with Some a => a | None => snd p end)) parts.

(* ------------------------------------------------------------------ module_rel_path_for_output *)

Inductive mtype := TInstructions | TPrompt | TCommand | TSkill.

Definition agents_md : str := [65;71;69;78;84;83;46;109;100].     (* "AGENTS.md" *)
Definition dotdot : str := [46;46].
Definition slash : N := 47.

(* Path::file_name on a Unix path: last component after dropping empty and "." components;
   None when there is none or it is "..". *)
Definition file_name (p : str) : option str :=
  match rev (filter (fun c => negb (is_empty c) && negb (str_eqb c [46])) (split_on slash p)) with
  | [] => None
  | c :: _ => if str_eqb c dotdot then None else Some c
  end.

(* str::split_once(c) *)
Fixpoint split_once (c : N) (x : str) : option (str * str) :=
  match x with
  | [] => None
  | a :: r =>
    if a =? c then Some ([], r)
    else match split_once c r with
         | Some (h, t) => Some (a :: h, t)
         | None => None
         end
  end.

(* [rel] = output path relative to the best root of its target (None when strip_prefix fails or no
   root matches); [skill_name] = module_name_from_id(module_id). *)
Definition module_rel_for_output (ty : mtype) (skill_name : str) (out_path : str)
           (rel : option str) : option str :=
  match ty with
  | TInstructions => Some agents_md
  | TPrompt | TCommand => file_name out_path
  | TSkill =>
    match rel with
    | None => None
    | Some rel_str =>
      match split_once slash rel_str with
      | None => Some rel_str
      | Some (first, rest) =>
        if str_eqb first skill_name && negb (is_empty rest) then Some rest else Some rel_str
      end
    end
  end.

(* ------------------------------------------------------------------ single-module outputs *)

(* targets/cursor.rs: header (front matter generated from the module id) + body, newline-terminated.
   [hdr] = "---\ndescription: <json string>\nglobs: []\nalwaysApply: true\n---\n\n". *)
Definition cursor_header (description_json : str) : str :=
  [45;45;45;10] ++ [100;101;115;99;114;105;112;116;105;111;110;58;32] ++ description_json
  ++ [10] ++ [103;108;111;98;115;58;32;91;93;10]
  ++ [97;108;119;97;121;115;65;112;112;108;121;58;32;116;114;117;101;10] ++ [45;45;45;10;10].

Definition cursor_rule (hdr body : str) : str :=
  let out := hdr ++ body in if ends_with [nl] out then out else out ++ [nl].

(* targets/vscode.rs: name of the deployed prompt file *)
Definition dot_md : str := [46;109;100].
Definition dot_prompt_md : str := [46;112;114;111;109;112;116;46;109;100].
Definition vscode_prompt_name (name : str) : str :=
  if ends_with dot_prompt_md name then name
  else match strip_suffix dot_md name with
       | Some stem => stem ++ dot_prompt_md
       | None => name ++ dot_prompt_md
       end.

(* a materialised module directory as (relative file name, content); a dir overlay file replaces
   the file of the same name or is added *)
Fixpoint upsert (files : list (str * str)) (name content : str) : list (str * str) :=
  match files with
  | [] => [(name, content)]
  | (n, c) :: r => if str_eqb n name then (n, content) :: r else (n, c) :: upsert r name content
  end.

(* validate.rs require_single_markdown_file (prompt / command modules) *)
Definition valid_single_md (files : list (str * str)) : bool :=
  match files with
  | [(n, _)] => ends_with dot_md n
  | _ => false
  end.

(* vscode prompt output of a valid prompt module: (deployed name, bytes) *)
Definition vscode_prompt_out (files : list (str * str)) : option (str * str) :=
  match files with
  | [(n, c)] => if ends_with dot_md n then Some (vscode_prompt_name n, c) else None
  | _ => None
  end.
(* K17d: the module's file is not already named *.prompt.md *)
Definition K17d (src_name : str) : bool := negb (ends_with dot_prompt_md src_name).
