(* Model/Crash.v — the sequence of mutating filesystem operations of deploy --apply
   (apply.rs::apply_plan, write_target_manifests, store_snapshot_state_files, state.rs::save,
   fs.rs::write_atomic_impl) and its execution up to an arbitrary crash point.  Definitions only. *)
From AP Require Import Base.Str Base.Sorting Gen.Tables Model.Deploy.
Open Scope N_scope.

(* where an operation happens: a target-side path, or a class of agentpack-home path (real names
   there are snapshot ids and hashes) *)
Inductive label :=
| LT (p : path)                    (* a file in a target root (deployed file or manifest) *)
| LDir (p : path)                  (* a directory in a target root *)
| LSnapDir | LBackupRoot | LStateRoot
| LBackupDir (t : str) | LStateDir (t : str)
| LState (t : str) (p : path)      (* the state copy of target path p *)
| LRecord.                         (* the snapshot record <id>.json *)

Inductive step :=
| KMk (l : label)                  (* create_dir_all *)
| KTmpC (l : label)                (* temp file created next to the destination *)
| KTmpW (l : label)                (* bytes written to the temp file *)
| KRen (l : label) (o : fobj)      (* temp file renamed over the destination *)
| KBackup (p : path)               (* copy of target path p into the snapshot's backup dir *)
| KRemove (p : path).              (* remove_file *)

Definition parent (p : path) : path := removelast p.

(* fs.rs write_atomic_impl: four fault points *)
Definition write_atomic_steps (dir file : label) (o : fobj) : list step :=
  [KMk dir; KTmpC file; KTmpW file; KRen file o].

Fixpoint change_steps (f : fs) (pl : list change) : list step :=
  match pl with
  | [] => []
  | c :: r =>
    (match c_op c with
     | PCreate => []
     | _ => if exists_at f (c_path c) then [KMk (LBackupDir (c_target c)); KBackup (c_path c)] else []
     end)
    ++ (match c_op c with
        | PDelete => if exists_at f (c_path c) then [KRemove (c_path c)] else []
        | _ => match c_after c with
               | Some n => write_atomic_steps (LDir (parent (c_path c))) (LT (c_path c)) (FBytes n)
               | None => []
               end
        end)
    ++ change_steps (apply_change f c) r
  end.

Fixpoint manifest_steps (i : nat) (rs roots : list root) (D : list dfile) (pl : list change) (f : fs)
  : list step :=
  match rs with
  | [] => []
  | r :: rest =>
    let es := per_root roots D i r in
    let existed := exists_at f (mf_path r) in
    if existed || negb (match es with [] => true | _ => false end) || root_had_changes roots pl i
       || legacy_stale f r then
      (if existed then [KMk (LBackupDir (rtarget r)); KBackup (mf_path r)] else [])
      ++ write_atomic_steps (LDir (rpath r)) (LT (mf_path r)) (new_manifest r es)
      ++ write_atomic_steps (LStateDir (rtarget r)) (LState (rtarget r) (mf_path r)) (new_manifest r es)
      ++ manifest_steps (S i) rest roots D pl (upd f (mf_path r) (Some (new_manifest r es)))
    else manifest_steps (S i) rest roots D pl f
  end.

Definition state_steps (D : list dfile) : list step :=
  flat_map (fun d => write_atomic_steps (LStateDir (dtarget d)) (LState (dtarget d) (dpath d)) (FBytes (dcontent d))) D.

Definition record_content : fobj := FBytes 0.

Definition steps_of_apply (f : fs) (roots : list root) (D : list dfile) (pl : list change) : list step :=
  [KMk LSnapDir; KMk LBackupRoot; KMk LStateRoot]
  ++ change_steps f pl
  ++ manifest_steps 0 roots roots D pl (fold_left apply_change pl f)
  ++ state_steps D
  ++ write_atomic_steps LSnapDir LRecord record_content.

(* ---------- execution ---------- *)
Record cstate := { cfiles : fs;
                   cbackup : path -> option fobj;          (* pre-images saved under backup/ *)
                   cstatef : list (str * path * fobj);     (* state files written *)
                   crecord : bool }.                        (* snapshot record visible *)

Definition exec (s : cstate) (k : step) : cstate :=
  match k with
  | KRen (LT p) o => {| cfiles := upd (cfiles s) p (Some o); cbackup := cbackup s; cstatef := cstatef s; crecord := crecord s |}
  | KRen (LState t p) o => {| cfiles := cfiles s; cbackup := cbackup s; cstatef := (t, p, o) :: cstatef s; crecord := crecord s |}
  | KRen LRecord _ => {| cfiles := cfiles s; cbackup := cbackup s; cstatef := cstatef s; crecord := true |}
  | KBackup p => {| cfiles := cfiles s; cbackup := upd (cbackup s) p (cfiles s p); cstatef := cstatef s; crecord := crecord s |}
  | KRemove p => {| cfiles := upd (cfiles s) p None; cbackup := cbackup s; cstatef := cstatef s; crecord := crecord s |}
  | _ => s
  end.

Definition run (steps : list step) (s : cstate) : cstate := fold_left exec steps s.
Definition init_state (f : fs) : cstate := {| cfiles := f; cbackup := fun _ => None; cstatef := []; crecord := false |}.

(* the world after a crash (or an injected I/O error) at fault point k: the first k operations
   were performed (k counts from 0: the k-th point itself is not) *)
Definition run_prefix (k : nat) (steps : list step) (s : cstate) : cstate := run (firstn k steps) s.

(* the trace the fault hook records: (kind, label) per point *)
Definition kind_code (k : step) : N :=
  match k with KMk _ => 0 | KTmpC _ => 1 | KTmpW _ => 2 | KRen _ _ => 3 | KBackup _ => 4 | KRemove _ => 5 end.

(* ---------- rollback (apply.rs::rollback, state-tree branch) ---------- *)
(* restores of the chosen snapshot's managed files, then of the manifests it wrote, then the
   deletes of what the head records beyond it, then the rollback record *)
Definition restore_steps (l : list (str * path * N)) : list step :=
  flat_map (fun e => write_atomic_steps (LDir (parent (snd (fst e)))) (LT (snd (fst e))) (FBytes (snd e))) l.

Definition manifest_restore_steps (l : list achange) : list step :=
  flat_map (fun c => if is_manifest_path (a_path c) && is_cu (a_op c)
                     then match a_after c with
                          | Some o => write_atomic_steps (LDir (parent (a_path c))) (LT (a_path c)) o
                          | None => []
                          end
                     else []) l.

Fixpoint delete_steps (f : fs) (cur tgt : list (str * path * N)) : list step :=
  match cur with
  | [] => []
  | e :: r =>
    if mem_tpc (fst (fst e), snd (fst e)) tgt then delete_steps f r tgt
    else if exists_at f (snd (fst e)) then KRemove (snd (fst e)) :: delete_steps (upd f (snd (fst e)) None) r tgt
    else delete_steps f r tgt
  end.

Definition steps_of_rollback (f : fs) (tgt cur : snapshot) : list step :=
  restore_steps (sn_managed tgt)
  ++ manifest_restore_steps (sn_changes tgt)
  ++ delete_steps (restore_manifests (restore_managed f (sn_managed tgt)) (sn_changes tgt)) (sn_managed cur) (sn_managed tgt)
  ++ [KMk LSnapDir] ++ write_atomic_steps LSnapDir LRecord record_content.
