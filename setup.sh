#!/bin/bash
# Build the framework from files on disk only (offline): Coq development, hooked agentpack, harness.
set -e
cd "$(dirname "$0")"
export CARGO_NET_OFFLINE=true
mkdir -p .build evidence
python3 tools/gen_tables.py /repo coq/Gen/Tables.v
TARGETS="$(for p in $(cat claims/READY); do echo Props/$p.vo; done) $(ls coq/Corr/*.v | sed 's#^coq/##; s#\.v$#.vo#')"
(cd coq && COQ_TIMEOUT=1400 ./mk.sh $TARGETS) 2>&1 | grep -v '^COQ\|Closed under the global context' || true
for p in $(cat claims/READY); do test -f coq/Props/$p.vo || { echo "setup: coq/Props/$p.vo not built"; exit 1; }; done
(cd /repo && RUSTFLAGS="--cfg agentpack_verif" CARGO_TARGET_DIR=/verif/.build/target cargo build --offline --quiet)
cp /repo/Cargo.lock harness/rs/Cargo.lock
(cd harness/rs && RUSTFLAGS="--cfg agentpack_verif" CARGO_TARGET_DIR=/verif/.build/target cargo build --offline --quiet)
echo setup-ok
