// avh — line-oriented JSON driver exposing agentpack library functions (and the
// cfg(agentpack_verif) wrappers) to the Python correspondence harness.
use std::io::{BufRead, Write};
use std::path::{Path, PathBuf};

use agentpack::deploy::{DesiredState, ManagedPaths, TargetPath};
use agentpack::paths::AgentpackHome;
use agentpack::targets::TargetRoot;
use agentpack::verif_hooks as vh;
use serde_json::{json, Value};

fn s(v: &Value, k: &str) -> String {
    v.get(k).and_then(|x| x.as_str()).unwrap_or("").to_string()
}
fn opt_s(v: &Value) -> Option<String> {
    v.as_str().map(|x| x.to_string())
}
fn u(v: &Value, k: &str) -> u64 {
    v.get(k).and_then(|x| x.as_u64()).unwrap_or(0)
}
fn bytes_of(v: &Value) -> Vec<u8> {
    // {"hex": "..."} or plain string
    if let Some(h) = v.get("hex").and_then(|x| x.as_str()) {
        hex::decode(h).unwrap_or_default()
    } else {
        v.as_str().unwrap_or("").as_bytes().to_vec()
    }
}
fn str_of(v: &Value, k: &str) -> String {
    // string field that may be given as {"hex":..} for exotic (but valid UTF-8) content
    match v.get(k) {
        Some(x) if x.is_object() => String::from_utf8_lossy(&bytes_of(x)).to_string(),
        Some(x) => x.as_str().unwrap_or("").to_string(),
        None => String::new(),
    }
}

fn home_of(root: &str) -> AgentpackHome {
    let root = PathBuf::from(root);
    let state_dir = root.join("state");
    AgentpackHome {
        repo_dir: root.join("repo"),
        cache_dir: root.join("cache"),
        state_dir: state_dir.clone(),
        snapshots_dir: state_dir.join("snapshots"),
        logs_dir: state_dir.join("logs"),
        root,
    }
}

fn roots_of(v: &Value) -> Vec<TargetRoot> {
    v.as_array()
        .map(|a| {
            a.iter()
                .map(|r| TargetRoot {
                    target: s(r, "target"),
                    root: PathBuf::from(s(r, "root")),
                    scan_extras: r.get("scan_extras").and_then(|x| x.as_bool()).unwrap_or(false),
                })
                .collect()
        })
        .unwrap_or_default()
}

fn desired_of(v: &Value) -> anyhow::Result<DesiredState> {
    let mut d = DesiredState::new();
    if let Some(a) = v.as_array() {
        for f in a {
            let ids: Vec<String> = f
                .get("module_ids")
                .and_then(|x| x.as_array())
                .map(|a| a.iter().filter_map(opt_s).collect())
                .unwrap_or_default();
            agentpack::deploy::insert_desired_file(
                &mut d,
                s(f, "target"),
                PathBuf::from(s(f, "path")),
                bytes_of(f.get("bytes").unwrap_or(&Value::Null)),
                ids,
            )?;
        }
    }
    Ok(d)
}

fn managed_of(v: &Value) -> Option<ManagedPaths> {
    v.as_array().map(|a| {
        a.iter()
            .map(|m| TargetPath {
                target: s(m, "target"),
                path: PathBuf::from(s(m, "path")),
            })
            .collect()
    })
}

fn err_json(e: &anyhow::Error) -> Value {
    let code = e
        .chain()
        .find_map(|c| c.downcast_ref::<agentpack::user_error::UserError>())
        .map(|u| u.code.clone());
    json!({"err": format!("{e:#}"), "code": code})
}

fn plan_json(p: &agentpack::deploy::PlanResult) -> Value {
    serde_json::to_value(p).unwrap_or(Value::Null)
}

fn binding_of(v: &Value) -> [Option<String>; 4] {
    let a = v.as_array().cloned().unwrap_or_default();
    let g = |i: usize| a.get(i).and_then(opt_s);
    [g(0), g(1), g(2), g(3)]
}

fn handle(req: &Value) -> Value {
    let op = s(req, "op");
    match op.as_str() {
        "ping" => json!({"ok": true}),
        "cmp_rate" => {
            let out: Vec<i32> = req["cases"]
                .as_array()
                .map(|cs| {
                    cs.iter()
                        .map(|c| {
                            let g = |i: usize| c[i].as_u64().unwrap_or(0);
                            vh::cmp_failure_rate(g(0), g(1), g(2), g(3))
                        })
                        .collect()
                })
                .unwrap_or_default();
            json!({"out": out})
        }
        "token_ops" => {
            let ops: Vec<vh::TokenOp> = req["ops"]
                .as_array()
                .map(|a| {
                    a.iter()
                        .map(|o| match s(o, "k").as_str() {
                            "insert" => vh::TokenOp::Insert {
                                token: s(o, "token"),
                                binding: binding_of(&o["binding"]),
                                plan_hash: s(o, "plan_hash"),
                                now_ms: u(o, "now_ms"),
                            },
                            "validate" => vh::TokenOp::Validate {
                                token: s(o, "token"),
                                binding: binding_of(&o["binding"]),
                                now_ms: u(o, "now_ms"),
                            },
                            _ => vh::TokenOp::Consume { token: s(o, "token") },
                        })
                        .collect()
                })
                .unwrap_or_default();
            let res = vh::run_token_ops(&ops);
            let out: Vec<Value> = res
                .into_iter()
                .map(|(r, keys)| {
                    let r = match r {
                        vh::TokenOut::Unit => json!({"unit": true}),
                        vh::TokenOut::Ok(h) => json!({"ok": h}),
                        vh::TokenOut::Err(c) => json!({"err": c}),
                    };
                    json!({"r": r, "keys": keys})
                })
                .collect();
            json!({"out": out, "ttl_ms": agentpack::mcp::verif_token::ttl_ms()})
        }
        "compose" => {
            // overlay::compose_module_tree at library level (C13): {id, upstream, layers:[{scope,dir}], out}
            let layers_v: Vec<(String, PathBuf)> = req["layers"]
                .as_array()
                .map(|a| a.iter().map(|l| (s(l, "scope"), PathBuf::from(s(l, "dir")))).collect())
                .unwrap_or_default();
            let layers: Vec<agentpack::overlay::OverlayLayer> = layers_v
                .iter()
                .map(|(sc, d)| agentpack::overlay::OverlayLayer { scope: sc.as_str(), dir: d.as_path() })
                .collect();
            match agentpack::overlay::compose_module_tree(
                &str_of(req, "id"),
                Path::new(&s(req, "upstream")),
                &layers,
                Path::new(&s(req, "out")),
            ) {
                Ok(()) => json!({"ok": true}),
                Err(e) => err_json(&e),
            }
        }
        "fs_key" => json!({"out": agentpack::ids::module_fs_key(&str_of(req, "id"))}),
        "sanitize" => json!({"out": agentpack::ids::sanitize_fs_component(&str_of(req, "s"))}),
        "machine_norm" => json!({"out": agentpack::machine::normalize_machine_id(&str_of(req, "s"))}),
        "legacy_safe" => json!({"out": agentpack::ids::is_safe_legacy_path_component(&str_of(req, "s"))}),
        "markers_format" => {
            json!({"out": agentpack::markers::format_module_section(&str_of(req, "id"), &str_of(req, "content"))})
        }
        "markers_parse" => match agentpack::markers::parse_module_sections(&str_of(req, "text")) {
            Ok(m) => json!({"ok": m}),
            Err(e) => json!({"err": format!("{e:#}")}),
        },
        "bash_cmds" => json!({"out": vh::extract_bash_commands(&str_of(req, "md"))}),
        "invocations" => json!({"out": vh::extract_agentpack_invocations(&str_of(req, "line"))}),
        "command_id" => {
            let argv: Vec<String> = req["argv"]
                .as_array()
                .map(|a| a.iter().filter_map(opt_s).collect())
                .unwrap_or_default();
            json!({"out": vh::agentpack_command_id(&argv)})
        }
        "mutating_ids" => json!({"out": vh::mutating_command_ids()}),
        "url_norm" => json!({"out": vh::normalize_git_remote_for_policy(&str_of(req, "url"))}),
        "url_match" => {
            json!({"out": vh::remote_matches_allowlist(&str_of(req, "remote"), &str_of(req, "allow"))})
        }
        "safe_rel" => json!({"out": vh::ensure_safe_relative_path(&str_of(req, "p"))}),
        "best_root" => {
            let roots = roots_of(&req["roots"]);
            json!({"out": vh::best_root_idx(&roots, &s(req, "target"), Path::new(&s(req, "path")))})
        }
        "read_manifest_soft" => {
            json!({"out": vh::read_target_manifest_soft_ok(Path::new(&s(req, "path")), &s(req, "target"))})
        }
        "managed_from_manifests" => {
            let roots = roots_of(&req["roots"]);
            match agentpack::target_manifest::load_managed_paths_from_manifests(&roots) {
                Ok(m) => {
                    let v: Vec<Value> = m
                        .managed_paths
                        .iter()
                        .map(|tp| json!({"target": tp.target, "path": tp.path.to_string_lossy()}))
                        .collect();
                    json!({"ok": v, "warnings": m.warnings.len()})
                }
                Err(e) => err_json(&e),
            }
        }
        "manifests_missing" => {
            let roots = roots_of(&req["roots"]);
            match desired_of(&req["desired"]) {
                Ok(d) => json!({"out": vh::manifests_missing_for_desired(&roots, &d)}),
                Err(e) => err_json(&e),
            }
        }
        "insert_desired" => match desired_of(&req["desired"]) {
            Ok(d) => {
                let v: Vec<Value> = d
                    .iter()
                    .map(|(tp, f)| {
                        json!({"target": tp.target, "path": tp.path.to_string_lossy(),
                               "hex": hex::encode(&f.bytes), "module_ids": f.module_ids})
                    })
                    .collect();
                json!({"ok": v})
            }
            Err(e) => err_json(&e),
        },
        "plan" => {
            let d = match desired_of(&req["desired"]) {
                Ok(d) => d,
                Err(e) => return err_json(&e),
            };
            let managed = managed_of(&req["managed"]);
            match agentpack::deploy::plan(&d, managed.as_ref()) {
                Ok(p) => json!({"ok": plan_json(&p)}),
                Err(e) => err_json(&e),
            }
        }
        "apply" => {
            // plan + apply_plan in one go (managed given explicitly or loaded from manifests)
            let home = home_of(&s(req, "home"));
            let roots = roots_of(&req["roots"]);
            let d = match desired_of(&req["desired"]) {
                Ok(d) => d,
                Err(e) => return err_json(&e),
            };
            let managed = if req.get("managed_from_manifests").and_then(|x| x.as_bool()).unwrap_or(false) {
                match agentpack::target_manifest::load_managed_paths_from_manifests(&roots) {
                    Ok(m) => Some(m.managed_paths),
                    Err(e) => return err_json(&e),
                }
            } else {
                managed_of(&req["managed"])
            };
            let plan = match agentpack::deploy::plan(&d, managed.as_ref()) {
                Ok(p) => p,
                Err(e) => return err_json(&e),
            };
            let kind = {
                let k = s(req, "kind");
                if k.is_empty() { "deploy".to_string() } else { k }
            };
            vh::reset_points();
            match agentpack::apply::apply_plan(&home, &kind, &plan, &d, None, &roots) {
                Ok(snap) => json!({"ok": {"plan": plan_json(&plan), "snapshot": serde_json::to_value(&snap).unwrap_or(Value::Null)}}),
                Err(e) => {
                    let mut v = err_json(&e);
                    v["plan"] = plan_json(&plan);
                    v
                }
            }
        }
        "rollback" => {
            let home = home_of(&s(req, "home"));
            vh::reset_points();
            match agentpack::apply::rollback(&home, &s(req, "id")) {
                Ok(snap) => json!({"ok": serde_json::to_value(&snap).unwrap_or(Value::Null)}),
                Err(e) => err_json(&e),
            }
        }
        "tui_apply" => {
            // TUI apply core (process env / cwd select the world)
            let repo = req.get("repo").and_then(|x| x.as_str()).map(PathBuf::from);
            let machine = req.get("machine").and_then(|x| x.as_str()).map(|x| x.to_string());
            let adopt = req.get("adopt").and_then(|x| x.as_bool()).unwrap_or(false);
            let confirmed = req.get("confirmed").and_then(|x| x.as_bool()).unwrap_or(false);
            let profile = { let p = s(req, "profile"); if p.is_empty() { "default".to_string() } else { p } };
            let target = { let t = s(req, "target"); if t.is_empty() { "all".to_string() } else { t } };
            match agentpack::tui_apply::apply_from_tui(repo.as_deref(), machine.as_deref(), &profile, &target, adopt, confirmed) {
                Ok(agentpack::tui_apply::ApplyOutcome::Applied { snapshot_id }) => json!({"ok": "applied", "snapshot_id": snapshot_id}),
                Ok(agentpack::tui_apply::ApplyOutcome::NoChanges) => json!({"ok": "no_changes"}),
                Err(e) => err_json(&e),
            }
        }
        "latest_snapshot" => {
            let home = home_of(&s(req, "home"));
            match agentpack::state::latest_snapshot(&home, &["deploy", "rollback"]) {
                Ok(sn) => json!({"ok": sn.map(|x| serde_json::to_value(&x).unwrap_or(Value::Null))}),
                Err(e) => err_json(&e),
            }
        }
        // C18: the same with the path given as raw bytes (hex), for file names that are not valid UTF-8
        "hash_tree_hex" => {
            use std::os::unix::ffi::OsStrExt;
            let raw = hex::decode(s(req, "dir_hex")).unwrap_or_default();
            let path = PathBuf::from(std::ffi::OsStr::from_bytes(&raw));
            match agentpack::lockfile::hash_tree(&path) {
                Ok((files, h)) => {
                    let fv: Vec<Value> = files
                        .iter()
                        .map(|f| json!({"path": f.path, "sha256": f.sha256, "bytes": f.bytes}))
                        .collect();
                    json!({"ok": {"files": fv, "sha256": h}})
                }
                Err(e) => err_json(&e),
            }
        }
        "hash_tree" => match agentpack::lockfile::hash_tree(Path::new(&s(req, "dir"))) {
            Ok((files, h)) => {
                let fv: Vec<Value> = files
                    .iter()
                    .map(|f| json!({"path": f.path, "sha256": f.sha256, "bytes": f.bytes}))
                    .collect();
                json!({"ok": {"files": fv, "sha256": h}})
            }
            Err(e) => err_json(&e),
        },
        "list_files" => match agentpack::fs::list_files(Path::new(&s(req, "dir"))) {
            Ok(v) => json!({"ok": v.iter().map(|p| p.to_string_lossy().to_string()).collect::<Vec<_>>()}),
            Err(e) => err_json(&e),
        },
        "policy_lint" => match agentpack::policy::lint(Path::new(&s(req, "root"))) {
            Ok(r) => json!({"ok": serde_json::to_value(&r).unwrap_or(Value::Null)}),
            Err(e) => err_json(&e),
        },
        _ => json!({"err": format!("unknown op {op}")}),
    }
}

fn main() {
    let stdin = std::io::stdin();
    let stdout = std::io::stdout();
    let mut out = stdout.lock();
    for line in stdin.lock().lines() {
        let Ok(line) = line else { break };
        if line.trim().is_empty() {
            continue;
        }
        let resp = match serde_json::from_str::<Value>(&line) {
            Ok(req) => match std::panic::catch_unwind(|| handle(&req)) {
                Ok(v) => v,
                Err(_) => json!({"panic": true}),
            },
            Err(e) => json!({"err": format!("bad request: {e}")}),
        };
        let _ = writeln!(out, "{}", resp);
        let _ = out.flush();
    }
}
