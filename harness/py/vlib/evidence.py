import os, json, time
from .common import *

def write_evidence(prop, tier, seed, coverage, assumptions, wall_s, violations):
    os.makedirs(EVIDENCE, exist_ok=True)
    doc = {'property_id': prop, 'tier': tier, 'seed': seed, 'level': 'proof',
           'coverage': coverage, 'assumptions': assumptions, 'wall_s': round(wall_s, 2),
           'violations': violations}
    tmp = os.path.join(EVIDENCE, prop + '.json.tmp')
    with open(tmp, 'w') as f:
        json.dump(doc, f, indent=1, sort_keys=True, default=str)
        f.write('\n')
    os.replace(tmp, os.path.join(EVIDENCE, prop + '.json'))
