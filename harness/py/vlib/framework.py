"""Per-property check context: proof phase, correspondence batches, oracle violations, evidence."""
import os, sys, json, time, random, traceback
from .common import *
from . import build, coqrun, evidence

KNOWN_FILE = os.path.join(VERIF, 'known_findings.json')
REPLAYS = os.path.join(VERIF, 'replays')

def load_known():
    try:
        return json.load(open(KNOWN_FILE))['findings']
    except FileNotFoundError:
        return []

class Ctx:
    def __init__(self, prop, tier, seed, replay=None):
        self.prop = prop; self.tier = tier; self.seed = seed; self.replay = replay
        self.rng = random.Random((seed, prop).__repr__())
        self.t0 = time.time()
        self.obligations = []       # dicts {name, kind, ok, detail}
        self.violations = []        # dicts {what, replay, no_input}
        self.known_hits = []        # strings
        self.samples = []
        self.streams = {}           # stream -> {evaluations, nontrivial_keys:set, dist:{}}
        self.trusted = []
        self.assumption_lines = {}
        self.notes = []
        self.scratch = new_scratch(prop)
        self.known = [k for k in load_known() if k.get('property') == prop]
        self.logf = open(os.path.join(BUILD, 'log_%s.txt' % prop), 'w')
    # ---- logging
    def log(self, msg):
        line = '[%s %6.1fs] %s' % (self.prop, time.time() - self.t0, msg)
        print(line, file=sys.stderr); self.logf.write(line + '\n'); self.logf.flush()
    # ---- proof phase
    def proof_phase(self, extra_targets=(), clean=False):
        ok, out = build.gen_tables(self.log)
        self.obligations.append({'name': 'Gen/Tables.v regenerated from /repo source', 'kind': 'table', 'ok': ok,
                                 'detail': '' if ok else out[-1500:]})
        if not ok:
            self.proof_broken('Gen.Tables (translator anchor missing)', out[-1500:])
            return False
        targets = ['Props/%s.vo' % self.prop] + list(extra_targets)
        if self.tier == 'thorough':
            clean = True
        ok, out = build.coq_make(targets, self.log, clean=clean)
        names = build.theorem_names(self.prop)
        if not ok:
            # which file / lemma broke
            import re
            m = re.search(r'File "\./([^"]+)", line (\d+)', out)
            where = '%s:%s' % (m.group(1), m.group(2)) if m else 'unknown'
            for nm in names:
                self.obligations.append({'name': nm, 'kind': 'theorem', 'ok': False, 'detail': 'build failed at ' + where})
            self.proof_broken('coq build failed at ' + where, out[-2500:])
            return False
        bad = build.audit_sources(targets)
        self.closure = build.closure_files(targets)
        self.obligations.append({'name': 'source audit (no Admitted/Axiom/Parameter/... in the %d files of the closure)' % len(self.closure), 'kind': 'audit',
                                 'ok': not bad, 'detail': '; '.join(bad[:5])})
        if bad:
            self.proof_broken('forbidden construct in Coq development', '\n'.join(bad))
            return False
        ass = build.print_assumptions(self.prop, self.log)
        self.assumption_lines = ass
        allok = True
        for nm in names:
            axs = [a for a in ass.get(nm, ['<missing>']) if a not in build.ALLOWED_AXIOMS]
            self.obligations.append({'name': nm, 'kind': 'theorem', 'ok': not axs,
                                     'detail': 'Closed under the global context' if not ass.get(nm) else 'axioms: ' + ', '.join(ass.get(nm))})
            if axs:
                allok = False
                self.proof_broken('theorem %s depends on unlisted axioms %s' % (nm, axs), '')
        if self.tier == 'thorough':
            self.coqchk()
        return allok
    def coqchk(self):
        t0 = time.time()
        p = run(['coqchk', '-o', '-silent', '-Q', COQ, 'AP', 'AP.Props.%s' % self.prop], cwd=COQ, timeout=3000)
        out = p.stdout.decode('utf-8', 'replace') + p.stderr.decode('utf-8', 'replace')
        ok = p.returncode == 0 and ('Axioms: <none>' in out or 'Axioms:' not in out)
        self.obligations.append({'name': 'coqchk -o AP.Props.%s' % self.prop, 'kind': 'coqchk', 'ok': ok,
                                 'detail': ' '.join(out.split())[-400:]})
        self.log('coqchk rc=%d %.1fs' % (p.returncode, time.time() - t0))
        if not ok:
            self.proof_broken('coqchk rejected or reports axioms', out[-2000:])
    def proof_broken(self, what, detail):
        self.pending_broken = getattr(self, 'pending_broken', [])
        self.pending_broken.append({'what': what, 'detail': detail})
    # ---- correspondence
    def stream(self, name):
        return self.streams.setdefault(name, {'evaluations': 0, 'keys': set(), 'dist': {}})
    def count(self, stream, key=None, nontrivial=True, tags=()):
        st = self.stream(stream)
        st['evaluations'] += 1
        if nontrivial and key is not None:
            st['keys'].add(key if isinstance(key, (str, int, tuple)) else repr(key))
        for t in tags:
            st['dist'][t] = st['dist'].get(t, 0) + 1
    def corr(self, stream, header, check_fn, case_type, cases, shard_chars=coqrun.SAFE_MAX_LIT):
        """cases: list of (coq_term, python_case_object).  Returns list of failing python objects."""
        if not cases:
            return []
        if getattr(self, 'pending_broken', None):
            # the Coq development (or a regenerated table) no longer builds: the model cannot be evaluated;
            # the broken obligation itself is reported as a violation by finish(), the oracle streams still run
            self.obligations.append({'name': 'corr %s: %d cases NOT evaluated (Coq closure does not build)' % (stream, len(cases)),
                                     'kind': 'corr', 'ok': False, 'detail': self.pending_broken[0]['what']})
            return []
        wd = os.path.join(self.scratch, 'coq_' + stream)
        failing, nshards = coqrun.eval_cases(wd, header, check_fn, case_type, [c[0] for c in cases],
                                             shard_chars=shard_chars, log=self.log)
        self.obligations.append({'name': 'corr %s: forallb %s over %d cases (%d coqc shards)' % (stream, check_fn, len(cases), nshards),
                                 'kind': 'corr', 'ok': not failing,
                                 'detail': '' if not failing else '%d disagreeing cases, first index %d' % (len(failing), failing[0])})
        out = []
        for i in failing:
            obj = dict(cases[i][1]) if isinstance(cases[i][1], dict) else {'case': cases[i][1]}
            obj['coq_header'] = header; obj['coq_check'] = check_fn; obj['coq_type'] = case_type; obj['coq_term'] = cases[i][0]
            out.append(obj)
        return out
    def measure(self, stream, name, header, fn, case_type, cases, target='Corr/Check_Premises.vo', shard_chars=coqrun.SAFE_MAX_LIT):
        """a measurement, not a verdict: on how many of the observed cases does the boolean Coq function fn hold
        (used for: the decidable hypotheses of a theorem hold on this observed history)"""
        if not cases or getattr(self, 'pending_broken', None):
            return
        ok, out = build.coq_make([target], self.log)
        bad = build.audit_sources([target]) if ok else ['build failed']
        if not ok or bad:
            self.notes.append('premise measurement %s/%s skipped: %s' % (stream, name, (bad or [out[-200:]])[0]))
            return
        wd = os.path.join(self.scratch, 'coq_m_%s_%s' % (stream, name))
        failing, nshards = coqrun.eval_cases(wd, header, fn, case_type, [c[0] for c in cases], shard_chars=shard_chars, log=self.log)
        if not hasattr(self, 'premise_cov'): self.premise_cov = {}
        self.premise_cov.setdefault(stream, {})[name] = {'observed_histories': len(cases), 'hypotheses_hold': len(cases) - len(failing), 'coq_function': fn}
    def sample(self, obj):
        if len(self.samples) < 6:
            self.samples.append(obj)
    # ---- verdicts
    def write_replay(self, obj):
        os.makedirs(REPLAYS, exist_ok=True)
        n = len(os.listdir(REPLAYS))
        path = os.path.join(REPLAYS, '%s-%s-%d.json' % (self.prop, self.seed, n))
        with open(path, 'w') as f:
            json.dump(obj, f, indent=1, default=str)
        return path
    def violation(self, what, replay_obj, no_input=False):
        replay_obj = dict(replay_obj); replay_obj.setdefault('property', self.prop); replay_obj['what'] = what
        replay_obj['seed'] = self.seed
        path = self.write_replay(replay_obj)
        self.violations.append({'what': what, 'replay': path, 'no_input': no_input})
        self.log('VIOLATION candidate: %s -> %s' % (what, path))
    def known_finding(self, kid, what):
        line = 'KNOWN-FINDING: property=%s %s: %s' % (self.prop, kid, what)
        if line not in self.known_hits:
            self.known_hits.append(line)
    def is_known(self, kid):
        return any(k.get('id') == kid and k.get('status') == 'known' for k in self.known)
    def finish(self):
        # a broken proof / correspondence without a concrete failing input still is a violation
        broken = getattr(self, 'pending_broken', [])
        concrete = [v for v in self.violations if not v['no_input']]
        if broken and not concrete:
            for b in broken:
                self.violation('proof obligation no longer checks: ' + b['what'],
                               {'broken': b['what'], 'detail': b['detail']}, no_input=True)
        elif broken:
            for b in broken:
                self.notes.append('also broken: ' + b['what'])
        wall = time.time() - self.t0
        n_ob = len(self.obligations); n_ok = sum(1 for o in self.obligations if o['ok'])
        evals = sum(s['evaluations'] for s in self.streams.values())
        distinct = sum(len(s['keys']) for s in self.streams.values())
        cov = {
            'obligations': n_ob, 'discharged': n_ok,
            'checker_cmd': 'cd /verif/coq && ./mk.sh Props/%s.vo  (coqc 8.16.1 full .vo build; Print Assumptions per theorem; corr batches: coqc -Q . AP cases_*.v with Eval vm_compute)' % self.prop,
            'trusted_base': self.trusted,
            'obligation_list': self.obligations,
            'evaluations': evals, 'distinct_nontrivial': distinct,
            'rule': self.rule if hasattr(self, 'rule') else '',
            'samples': self.samples,
            'streams': {k: {'evaluations': v['evaluations'], 'distinct_nontrivial': len(v['keys']), 'distribution': v['dist']} for k, v in self.streams.items()},
            'traces_validated_against_impl': evals,
            'print_assumptions': {k: (v or ['Closed under the global context']) for k, v in self.assumption_lines.items()},
            'known_findings_reproduced': self.known_hits,
            'theorem_premise_coverage': getattr(self, 'premise_cov', {}),
            'notes': self.notes,
        }
        evidence.write_evidence(self.prop, self.tier, self.seed, cov, self.assumptions if hasattr(self, 'assumptions') else [],
                                wall, len(self.violations))
        for k in self.known_hits:
            print(k)
        for v in self.violations:
            print('VIOLATION property=%s replay=%s%s' % (self.prop, v['replay'], ' no-failing-input-found' if v['no_input'] else ''))
        self.log('done: %d/%d obligations, %d evaluations, %d violations, %.1fs' % (n_ok, n_ob, evals, len(self.violations), wall))
        self.logf.close()
        rm_scratch(self.scratch)
        return 1 if self.violations else 0
