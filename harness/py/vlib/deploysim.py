"""Shared deploy-core streams (C01, C02, C04, C05, C15): world generators, implementation runners
(avh library level; CLI json / human / MCP / TUI level), canonicalisers to Coq terms, and the
independent property oracles evaluated on the implementation's own traces."""
import os, json, hashlib, shutil
from .common import *
from . import coqrun as cq
from .impl import Avh, Sandbox, Mcp
from . import world

HEADER = 'From AP Require Import Corr.Check_Deploy.\nOpen Scope N_scope.\n'
HEADER_PREM = 'From AP Require Import Corr.Check_Deploy Corr.Check_Premises.\nOpen Scope N_scope.\n'
LEGACY = '.agentpack.manifest.json'

def mf_name(t):
    safe = ''.join(c if (c.isascii() and c.isalnum()) or c in '-_' else '_' for c in t)
    return '.agentpack.manifest.%s.json' % safe

def is_manifest_name(n):
    return n == LEGACY or (n.startswith('.agentpack.manifest.') and n.endswith('.json'))

def norm_rel(p):
    """drop empty and '.' components (Path::components), keep '..'"""
    return '/' + '/'.join(c for c in p.split('/') if c not in ('', '.'))

class Ids:
    """bytes <-> content ids (by sha256)"""
    def __init__(self):
        self.by_sha = {}
    def of_bytes(self, b):
        return self.of_sha(hashlib.sha256(b).hexdigest())
    def of_sha(self, sha):
        if sha not in self.by_sha:
            self.by_sha[sha] = len(self.by_sha) + 1
        return self.by_sha[sha]

def classify_manifest(b, ids):
    """bytes of a manifest-named file -> ('G',) | ('P', sv, tool, [(path, id)]) following
    read_target_manifest_soft (serde_json Value, as_u64, then strict from_value)."""
    try:
        txt = b.decode('utf-8')
        v = json.loads(txt)
    except Exception:
        return ('G',)
    if not isinstance(v, dict):
        return ('G',)
    sv = v.get('schema_version')
    if isinstance(sv, bool) or not isinstance(sv, int) or sv < 0 or sv >= 2 ** 64:
        sv = 0
    if sv != 1:
        return ('G',)
    try:
        tool = v['tool']; mf = v['managed_files']; ga = v['generated_at']
        if not isinstance(tool, str) or not isinstance(ga, str) or not isinstance(mf, list):
            return ('G',)
        if 'snapshot_id' in v and v['snapshot_id'] is not None and not isinstance(v['snapshot_id'], str):
            return ('G',)
        es = []
        for e in mf:
            if not isinstance(e, dict) or not isinstance(e['path'], str) or not isinstance(e['sha256'], str):
                return ('G',)
            if 'module_ids' in e and (not isinstance(e['module_ids'], list) or any(not isinstance(x, str) for x in e['module_ids'])):
                return ('G',)
            es.append((e['path'], ids.of_sha(e['sha256'])))
        return ('P', 1, tool, es)
    except (KeyError, TypeError):
        return ('G',)

def fobj_of(path, b, ids):
    if is_manifest_name(os.path.basename(path)):
        return classify_manifest(b, ids)
    return ('B', ids.of_bytes(b))

def c_fobj(o):
    if o[0] == 'B':
        return '(B %d)' % o[1]
    if o[0] == 'G':
        return 'MG'
    return '(MP %d %s %s)' % (o[1], cq.cstr(o[2]), cq.clist([cq.cpair(cq.cstr(p), cq.cN(i)) for p, i in o[3]]))

def c_disk(files, ids):
    """files: relpath -> bytes"""
    return cq.clist([cq.cpair(cq.cstr(p), c_fobj(fobj_of(p, b, ids))) for p, b in sorted(files.items())])

def c_obs_after(universe, files, ids):
    return cq.clist([cq.cpair(cq.cstr(p), cq.copt(fobj_of(p, files[p], ids) if p in files else None, c_fobj))
                     for p in sorted(universe)])

def c_roots(roots):
    return cq.clist(['(R %s %s %s)' % (cq.cstr(r['target']), cq.cstr(r['root']), cq.cbool(r.get('scan_extras', False))) for r in roots])

def c_desired(D, ids):
    return cq.clist(['(DF %s %s %d)' % (cq.cstr(d['target']), cq.cstr(d['path']), ids.of_bytes(d['bytes'])) for d in D])

OPC = {('create', None): 0, ('update', 'managed_update'): 1, ('update', 'adopt_update'): 2, ('delete', None): 3}
def c_obs_plan(changes, relf):
    out = []
    for c in changes:
        k = OPC[(c['op'], c.get('update_kind'))]
        out.append(cq.cpair(cq.cstr(c['target']), cq.cN(k), cq.cstr(relf(c['path']))))
    return cq.clist(out)

def manifest_bytes(tool, entries, sv=1, extra=None, drop=None):
    """entries: list of (path, bytes-or-sha)"""
    mf = []
    for p, b in entries:
        sha = b if isinstance(b, str) else hashlib.sha256(b).hexdigest()
        mf.append({'path': p, 'sha256': sha})
    v = {'schema_version': sv, 'generated_at': '2026-01-01T00:00:00Z', 'tool': tool, 'managed_files': mf}
    if extra:
        v.update(extra)
    if drop:
        for k in drop:
            v.pop(k, None)
    return (json.dumps(v, indent=2) + '\n').encode()

def read_tree(base, skip=()):
    """relpath ('/x/y') -> bytes for regular files under base.  Directory symlinks are not followed; a symlink
    to a regular file counts as a file holding the target's bytes (that is what any reader sees), a dangling
    link as absent."""
    out = {}
    for dp, dns, fns in os.walk(base, followlinks=False):
        dns[:] = [d for d in dns if os.path.join(dp, d) not in skip]
        for fn in fns:
            p = os.path.join(dp, fn)
            if not os.path.isfile(p):
                continue
            with open(p, 'rb') as f:
                out['/' + os.path.relpath(p, base)] = f.read()
    return out

def world_tree(sb):
    """relpath (relative to the sandbox root) -> bytes of every regular file of the user's world:
    HOME and the project dir (not AGENTPACK_HOME, not the project's .git)"""
    gits = tuple(os.path.join(sb.root, d, '.git') for d in os.listdir(sb.root) if d.startswith('project'))
    t = read_tree(sb.root, skip=(sb.aphome, sb.canary) + gits)
    t.pop('/gitconfig', None)
    return t

# ===================================================================== library-level stream (avh)

TARGETS = ['codex', 'claude_code', 'zed']
CONTENTS = [b'alpha\n', b'beta\n', b'gamma', b'', b'\xff\x00bin', b'delta\n' * 3]
NAMES = ['a.md', 'b.md', 'sub/c.md', 'sub/deep/d.txt', 'SKILL.md', 'x y.md', 'ü.md']

def gen_lib_case(rng):
    """returns dict: roots, files (relpath->bytes, incl. manifests), desired, kind, managed_src, tags"""
    tags = []
    layout = rng.choice(['single', 'nested', 'two_targets', 'same_dir_two_targets', 'three'])
    if layout == 'single':
        roots = [{'target': 'codex', 'root': '/r1'}]
    elif layout == 'nested':
        roots = [{'target': 'codex', 'root': '/r1'}, {'target': 'codex', 'root': '/r1/sub'}]
        if rng.random() < 0.3:
            roots.append({'target': 'codex', 'root': '/r1/sub/deep'})
    elif layout == 'two_targets':
        roots = [{'target': 'codex', 'root': '/r1'}, {'target': 'zed', 'root': '/r2'}]
    elif layout == 'same_dir_two_targets':
        roots = [{'target': 'codex', 'root': '/r1'}, {'target': 'claude_code', 'root': '/r1'}]
    else:
        roots = [{'target': 'codex', 'root': '/r1'}, {'target': 'codex', 'root': '/r1/sub'}, {'target': 'zed', 'root': '/r2'},
                 {'target': 'claude_code', 'root': '/r3'}]
    for r in roots:
        r['scan_extras'] = rng.random() < 0.5
    rng.shuffle(roots)
    tags.append('layout:' + layout)
    files = {}
    desired = []
    used = set()
    for r in roots:
        for n in rng.sample(NAMES, rng.randrange(0, 4)):
            p = norm_rel(r['root'] + '/' + n)
            if (r['target'], p) in used:
                continue
            if layout == 'same_dir_two_targets' and any(q == p for _, q in used) and rng.random() < 0.7:
                continue
            used.add((r['target'], p))
            b = rng.choice(CONTENTS)
            desired.append({'target': r['target'], 'path': p, 'bytes': b})
            k = rng.random()
            if k < 0.35:
                pass                                   # absent
            elif k < 0.6:
                files[p] = b; tags.append('disk:equal')
            else:
                files[p] = rng.choice([c for c in CONTENTS if c != b]); tags.append('disk:differs')
    if rng.random() < 0.15 and roots:
        # a desired path outside every root
        desired.append({'target': roots[0]['target'], 'path': '/outside/o.md', 'bytes': b'o'}); tags.append('desired:outside')
    # unrelated user files
    for r in roots:
        for n in rng.sample(['user1.txt', 'sub/user2.txt', 'notes/n.md'], rng.randrange(0, 3)):
            files.setdefault(norm_rel(r['root'] + '/' + n), rng.choice(CONTENTS))
    files['/outside/keep.txt'] = b'keep'
    files['/victim.txt'] = b'victim'
    # manifests
    for r in roots:
        state = rng.choice(['absent', 'absent', 'current', 'current', 'stale', 'hostile', 'garbage', 'foreign', 'badversion',
                            'legacy', 'legacy_foreign', 'both', 'missing_field', 'extra_fields'])
        tags.append('manifest:' + state)
        under = [(p, b) for p, b in files.items() if p.startswith(r['root'] + '/') and not is_manifest_name(os.path.basename(p))]
        rel = lambda p: p[len(r['root']) + 1:]
        own = [(rel(p), b) for p, b in under if rng.random() < 0.7]
        pref = r['root'] + '/' + mf_name(r['target']); leg = r['root'] + '/' + LEGACY
        if state == 'absent':
            continue
        if state == 'current':
            files[pref] = manifest_bytes(r['target'], own)
        elif state == 'stale':
            files[pref] = manifest_bytes(r['target'], own + [('gone.md', b'x'), ('sub/gone2.md', b'y')])
        elif state == 'hostile':
            es = own + [('../victim.txt', b'victim'), ('../../victim.txt', b'victim'), ('/victim.txt', b'victim'),
                        (os.path.relpath('/victim.txt', r['root']), b'victim'), ('./' + (own[0][0] if own else 'a.md'), b'q'),
                        ('sub//c.md', b'q'), ('sub/../user1.txt', b'q'), (mf_name(r['target']), b''),
                        ('..\\victim.txt', b'victim'), ('..\\..\\victim.txt', b'victim'), ('\\victim.txt', b'victim'),
                        (os.path.relpath('/victim.txt', r['root']).replace('/', '\\'), b'victim'), ('sub\\c.md', b'q'),
                        ('~/victim.txt', b'victim'), ('%2e%2e/victim.txt', b'victim'), ('..', b''), ('a.md/..', b''),
                        ('dup.md', b'1'), ('dup.md', b'2')]
            rng.shuffle(es)
            files[pref] = manifest_bytes(r['target'], es[:rng.randrange(1, len(es) + 1)])
        elif state == 'garbage':
            full = manifest_bytes(r['target'], own + [('user1.txt', b'x')])
            files[pref] = rng.choice([b'{', b'not json', b'', b'[1,2]', b'null', b'"x"', manifest_bytes(r['target'], own)[:-9], b'\xff\xfe',
                                      # a complete, well-formed manifest document followed by more bytes (an overwrite in place that
                                      # left the tail of a longer old file, a concatenation): as a whole it is NOT valid JSON
                                      full + b'}', full + b'\n{}', full + b' x', full + b'\n    }\n  ]\n}\n', full + full])
        elif state == 'foreign':
            files[pref] = manifest_bytes(rng.choice([t for t in TARGETS if t != r['target']] + ['junk', '']), own + [('user1.txt', b'x')])
        elif state == 'badversion':
            files[pref] = manifest_bytes(r['target'], own + [('user1.txt', b'x')], sv=rng.choice([0, 2, '1', 1.0, -1, None, True]))
        elif state == 'legacy':
            files[leg] = manifest_bytes(r['target'], own + [('gone.md', b'x')])
        elif state == 'legacy_foreign':
            files[leg] = manifest_bytes(rng.choice([t for t in TARGETS if t != r['target']]), own + [('user1.txt', b'x')])
        elif state == 'both':
            files[pref] = manifest_bytes(r['target'], own[:1])
            files[leg] = manifest_bytes(r['target'], own + [('user1.txt', b'x')])
        elif state == 'missing_field':
            files[pref] = manifest_bytes(r['target'], own + [('user1.txt', b'x')], drop=[rng.choice(['generated_at', 'tool', 'managed_files'])])
        elif state == 'extra_fields':
            files[pref] = manifest_bytes(r['target'], own, extra={'snapshot_id': rng.choice(['123', None]), 'future': {'x': 1}})
    kind = 'bootstrap' if rng.random() < 0.1 else 'deploy'
    msrc = None
    if rng.random() < 0.25:
        pool = [(d['target'], d['path']) for d in desired] + [(r['target'], p) for r in roots for p in files if p.startswith(r['root'] + '/')]
        msrc = rng.sample(pool, min(len(pool), rng.randrange(0, 5)))
        if msrc and rng.random() < 0.3:
            msrc.append(msrc[0])   # duplicate
        tags.append('managed:explicit')
    return {'roots': roots, 'files': files, 'desired': desired, 'kind': kind, 'managed_src': msrc, 'tags': tags}

def materialize(base, files):
    for p, b in files.items():
        world.write(base + p, b)

def run_lib_case(avh, base, case):
    """executes one library-level case under directory base; returns observation dict"""
    shutil.rmtree(base, ignore_errors=True)
    os.makedirs(base)
    materialize(base, case['files'])
    A = lambda p: base + p
    relf = lambda p: norm_rel('/' + os.path.relpath(p, base)) if p.startswith(base) else p
    roots = [{'target': r['target'], 'root': A(r['root']), 'scan_extras': r['scan_extras']} for r in case['roots']]
    for r in roots:
        os.makedirs(r['root'], exist_ok=True)
    des = [{'target': d['target'], 'path': A(d['path']), 'bytes': {'hex': d['bytes'].hex()}} for d in case['desired']]
    om = avh.call({'op': 'managed_from_manifests', 'roots': roots})
    req = {'op': 'apply', 'home': A('/aphome'), 'roots': roots, 'desired': des, 'kind': case['kind']}
    if case['managed_src'] is None:
        req['managed_from_manifests'] = True
    else:
        req['managed'] = [{'target': t, 'path': A(p)} for t, p in case['managed_src']]
    res = avh.call(req)
    after = read_tree(base, skip=(A('/aphome'),))
    obs = {'managed': [(m['target'], relf(m['path'])) for m in om.get('ok', [])] if 'ok' in om else None,
           'res': res, 'after': after, 'relf': relf}
    return obs

def lib_term(case, obs, ids):
    universe = set(case['files']) | set(obs['after']) | {d['path'] for d in case['desired']}
    for r in case['roots']:
        universe.add(r['root'] + '/' + mf_name(r['target'])); universe.add(r['root'] + '/' + LEGACY)
    plan = obs['res']['ok']['plan']['changes']
    relf = obs['relf']
    msrc = case['managed_src']
    return cq.cpair(c_roots(case['roots']), c_disk(case['files'], ids), c_desired(case['desired'], ids),
                    cq.cN(0 if case['kind'] == 'deploy' else 1),
                    cq.copt(msrc, lambda l: cq.clist([cq.cpair(cq.cstr(t), cq.cstr(p)) for t, p in l])),
                    cq.clist([cq.cpair(cq.cstr(t), cq.cstr(p)) for t, p in (obs['managed'] or [])]),
                    c_obs_plan(plan, relf), c_obs_after(universe, obs['after'], ids))

LIB_TYPE = 'lib_case'

# ---- oracle helpers (independent of the Coq model: written from the property text) ----

def accepted_entries(files, roots, ids):
    """harness's own reading of the manifests: {(target, path)} of accepted entries, per the
    property: manifest usable (schema 1, tool = target; preferred name else legacy), entry relative
    without '..'"""
    out = set()
    for r in roots:
        pref = r['root'] + '/' + mf_name(r['target']); leg = r['root'] + '/' + LEGACY
        b = files.get(pref, files.get(leg)) if pref not in files else files[pref]
        if b is None:
            continue
        m = classify_manifest(b, ids)
        if m[0] != 'P' or m[2] != r['target']:
            continue
        for p, _ in m[3]:
            if p.startswith('/'):
                continue
            comps = [c for c in p.split('/') if c not in ('', '.')]
            if '..' in comps:
                continue
            out.add((r['target'], norm_rel(r['root'] + '/' + '/'.join(comps))))
    return out

def any_usable_manifest(files, roots, ids):
    """harness's own reading: does some root of the run have a usable manifest (schema 1, tool = target;
    preferred name else legacy), whatever it lists"""
    for r in roots:
        pref = r['root'] + '/' + mf_name(r['target']); leg = r['root'] + '/' + LEGACY
        b = files[pref] if pref in files else files.get(leg)
        if b is None:
            continue
        m = classify_manifest(b, ids)
        if m[0] == 'P' and m[2] == r['target'] and m[1] == 1:
            return True
    return False

def snapshot_fallback(files, roots, ids, latest_managed):
    """the record used when no root has a usable manifest: latest-snapshot entries under a current root of
    their target; None when manifests decide"""
    if any_usable_manifest(files, roots, ids):
        return None
    return [(t, p) for t, p in (latest_managed or []) if any(r['target'] == t and p.startswith(r['root'] + '/') for r in roots)]

def oracle_lib(case, obs, ids):
    """C02/C04/C05-style predicates on one library-level apply (no adopt gate at this level)."""
    bad = []
    before, after = case['files'], obs['after']
    roots = case['roots']
    if case['managed_src'] is None:
        recorded = accepted_entries(before, roots, ids)
    else:
        recorded = set((t, norm_rel(p)) for t, p in case['managed_src'])
    dkeys = {(d['target'], norm_rel(d['path'])) for d in case['desired']}
    dpaths = {norm_rel(d['path']): d for d in case['desired']}
    mpaths = {r['root'] + '/' + mf_name(r['target']) for r in roots}
    if 'ok' not in obs['res']:
        return bad
    plan = obs['res']['ok']['plan']['changes']
    relf = obs['relf']
    planned = {relf(c['path']): c for c in plan}
    for p in set(before) | set(after):
        if before.get(p) == after.get(p):
            continue
        if p in mpaths:
            continue
        if p not in planned:
            bad.append(('C04', 'path changed outside the announced plan: %s' % p))
            if p in before and p not in after and not any(rp == p for _, rp in recorded):
                bad.append(('C02', 'deleted a file no manifest entry records: %s' % p))
            continue
        c = planned[p]
        if p in before and p not in after:
            if not any(rp == p for _, rp in recorded):
                bad.append(('C02', 'deleted a file no manifest entry records: %s' % p))
            if any(k[1] == p for k in dkeys) and c['op'] == 'delete' and (c['target'], p) in dkeys:
                bad.append(('C02', 'deleted a desired file: %s' % p))
    for p in ('/victim.txt', '/outside/keep.txt'):
        if p not in dpaths and before.get(p) != after.get(p):
            bad.append(('C02', 'file outside every root changed: %s' % p))
    for p in set(before) | set(after):
        # (at library level the desired state is an input and may name a path outside every root; the render
        #  theorems of C03 exclude that for real configurations, so desired paths are not judged here)
        if before.get(p) != after.get(p) and p not in dpaths and not any(p.startswith(r['root'] + '/') for r in roots):
            bad.append(('C03', 'a file outside every target root of this run was created, modified or deleted: %s' % p))
    # every announced change realised (distinct paths)
    paths = [relf(c['path']) for c in plan]
    if len(set(paths)) == len(paths):
        for c in plan:
            p = relf(c['path'])
            if p in mpaths:
                continue
            want = None if c['op'] == 'delete' else c['after_sha256']
            got = hashlib.sha256(after[p]).hexdigest() if p in after else None
            if want != got:
                bad.append(('C04', 'announced %s of %s not realised' % (c['op'], p)))
            bsha = hashlib.sha256(before[p]).hexdigest() if p in before else None
            if c.get('before_sha256') != bsha:
                bad.append(('C04', 'before_sha256 of %s is not the true hash' % p))
    return bad


def run_lib_stream(ctx, n, props, stream='lib_apply'):
    """n library-level cases; oracle violations for the properties in `props` are reported;
    all cases go to Coq (check_lib_apply)."""
    rng = ctx.rng
    base = os.path.join(ctx.scratch, 'lib')
    cases = []
    with Avh() as avh:
        for i in range(n):
            case = gen_lib_case(rng)
            ids = Ids()
            obs = run_lib_case(avh, base, case)
            rec = {'stream': stream, 'index': i, 'case': jsonable_case(case), 'result': summarize_res(obs['res'])}
            if 'ok' not in obs['res']:
                ctx.count(stream, key=('err', obs['res'].get('code')), nontrivial=False, tags=['result:error'])
                # an error is acceptable only if nothing changed on disk
                if obs['after'] != case['files']:
                    ctx.violation('library apply failed but changed the disk', rec)
                continue
            for prop, what in oracle_lib(case, obs, ids):
                if prop in props:
                    ctx.violation(what, rec)
            term = lib_term(case, obs, ids)
            cases.append((term, rec))
            plan = obs['res']['ok']['plan']['changes']
            ops = sorted({c['op'] + ':' + str(c.get('update_kind')) for c in plan})
            ctx.count(stream, key=(tuple(sorted(set(case['tags']))), tuple(ops)), nontrivial=len(plan) > 0,
                      tags=case['tags'] + ['op:' + o for o in ops])
            if i < 2:
                ctx.sample({'stream': stream, 'roots': case['roots'], 'desired': [(d['target'], d['path']) for d in case['desired']],
                            'plan': [(c['op'], c.get('update_kind'), obs['relf'](c['path'])) for c in plan]})
    shutil.rmtree(base, ignore_errors=True)
    failing = ctx.corr(stream, HEADER, 'check_lib_apply', LIB_TYPE, cases, shard_chars=40000)
    for c in failing:
        ctx.violation('model and implementation disagree on managed set / plan / disk after apply (library level)', c, no_input=True)

def jsonable_case(case):
    return {'roots': case['roots'], 'files': {p: b.hex() for p, b in case['files'].items()},
            'desired': [{'target': d['target'], 'path': d['path'], 'hex': d['bytes'].hex()} for d in case['desired']],
            'kind': case['kind'], 'managed_src': case['managed_src'], 'tags': case['tags']}

def summarize_res(res):
    if 'ok' in res:
        return {'plan': [(c['op'], c.get('update_kind'), c['path']) for c in res['ok']['plan']['changes']]}
    return {'err': str(res.get('err'))[:300], 'code': res.get('code')}

# ===================================================================== command-level stream (CLI / MCP / TUI)

PROMPT_TXT = [b'prompt one\n', b'prompt two\n', b'P3', b'prompt four\nline\n', b'']     # incl. a zero-length output
def skill_md(name, body):
    return ('---\nname: %s\ndescription: test skill %s\n---\n\n%s\n' % (name, name, body)).encode()
def command_md(body):
    return ('---\ndescription: "cmd"\n---\n\n%s\n' % body).encode()

class CfgWorld:
    """A restricted configuration family whose desired state is known by construction:
    codex (user scope: AGENTS.md, prompts/, skills/) and optionally claude_code (user commands)."""
    def __init__(self, sb, rng):
        self.sb = sb; self.rng = rng
        self.codex_home = os.path.join(sb.home, 'codex_home')
        self.claude_cmds = os.path.join(sb.home, '.claude', 'commands')
        self.opts = {'write_agents_global': rng.random() < 0.8, 'write_user_prompts': rng.random() < 0.85,
                     'write_user_skills': rng.random() < 0.8}
        self.claude = rng.random() < 0.6
        self.zed = rng.random() < 0.35                 # zed target (project scope): <project>/.rules
        self.repo_agents = rng.random() < 0.35         # codex scope both + write_agents_repo_root: <project>/AGENTS.md
        self.vscode = rng.random() < 0.3               # vscode target (project scope): .github/copilot-instructions.md, .github/prompts/*.prompt.md
        self.project = sb.project
        self.modules = []
        for i in range(rng.randrange(0, 3)):
            self.modules.append({'id': 'prompt:p%d' % i, 'type': 'prompt', 'dir': 'modules/prompts/p%d' % i,
                                 'files': {'p%d.md' % i: rng.choice(PROMPT_TXT)}, 'targets': rng.choice([[], ['codex']]), 'enabled': True})
        for i in range(rng.randrange(0, 3)):
            files = {'SKILL.md': skill_md('s%d' % i, rng.choice(['one', 'two']))}
            if rng.random() < 0.6:
                files['ref/r.txt'] = rng.choice([b'r1', b'r2\n', b''])
            self.modules.append({'id': 'skill:s%d' % i, 'type': 'skill', 'dir': 'modules/skills/s%d' % i, 'files': files,
                                 'targets': rng.choice([[], ['codex']]), 'enabled': True})
        if rng.random() < 0.7:
            self.modules.append({'id': 'instructions:base', 'type': 'instructions', 'dir': 'modules/instructions/base',
                                 'files': {'AGENTS.md': rng.choice([b'# rules\n', b'be nice\n'])}, 'targets': rng.choice([[], [], ['codex'], ['zed'], ['codex', 'zed']]), 'enabled': True})
        for i in range(rng.randrange(0, 3)):
            self.modules.append({'id': 'command:c%d' % i, 'type': 'command', 'dir': 'modules/claude-commands/c%d' % i,
                                 'files': {'c%d.md' % i: command_md(rng.choice(['do x', 'do y']))},
                                 'targets': rng.choice([[], ['claude_code']]), 'enabled': True})
    def write(self):
        sb = self.sb
        targets = {'codex': {'mode': 'files', 'scope': 'both' if self.repo_agents else 'user',
                             'options': dict(self.opts, codex_home=self.codex_home, write_agents_repo_root=bool(self.repo_agents), write_repo_skills=False)}}
        if self.claude:
            targets['claude_code'] = {'mode': 'files', 'scope': 'user', 'options': {}}
        if self.zed:
            targets['zed'] = {'mode': 'files', 'scope': 'project', 'options': {}}
        if getattr(self, 'vscode', False):
            targets['vscode'] = {'mode': 'files', 'scope': 'project', 'options': {}}
        mods = []
        for m in self.modules:
            d = os.path.join(sb.repo, m['dir'])
            shutil.rmtree(d, ignore_errors=True)
            for rel, b in m['files'].items():
                world.write(os.path.join(d, rel), b)
            mods.append({'id': m['id'], 'type': m['type'], 'tags': ['base'], 'targets': m['targets'], 'enabled': m['enabled'],
                         'source': {'local_path': {'path': m['dir']}}})
        world.write_config(sb.repo, {'version': 1, 'profiles': {'default': {'include_tags': ['base']}}, 'targets': targets, 'modules': mods})
    def roots(self, flt):
        r = []
        if flt in (None, 'codex'):
            if self.opts['write_agents_global']: r.append({'target': 'codex', 'root': self.codex_home, 'scan_extras': False})
            if self.opts['write_user_prompts']: r.append({'target': 'codex', 'root': self.codex_home + '/prompts', 'scan_extras': True})
            if self.opts['write_user_skills']: r.append({'target': 'codex', 'root': self.codex_home + '/skills', 'scan_extras': True})
            if self.repo_agents: r.append({'target': 'codex', 'root': self.project, 'scan_extras': False})
        if self.zed and flt in (None, 'zed'):
            r.append({'target': 'zed', 'root': self.project, 'scan_extras': False})
        if self.claude and flt in (None, 'claude_code'):
            r.append({'target': 'claude_code', 'root': self.claude_cmds, 'scan_extras': True})
        if getattr(self, 'vscode', False) and flt in (None, 'vscode'):
            r.append({'target': 'vscode', 'root': self.project + '/.github', 'scan_extras': False})
            r.append({'target': 'vscode', 'root': self.project + '/.github/prompts', 'scan_extras': True})
        r.sort(key=lambda x: (x['target'], x['root'].split('/')))      # targets::dedup_roots: sorted by (target, path)
        return r
    def desired(self, flt):
        D = []
        for m in self.modules:
            if not m['enabled']:
                continue
            for_codex = (not m['targets'] or 'codex' in m['targets']) and flt in (None, 'codex')
            for_claude = self.claude and (not m['targets'] or 'claude_code' in m['targets']) and flt in (None, 'claude_code')
            for_vscode = getattr(self, 'vscode', False) and (not m['targets'] or 'vscode' in m['targets']) and flt in (None, 'vscode')
            if m['type'] == 'prompt' and for_vscode:
                (fn, b), = m['files'].items()
                name = fn if fn.endswith('.prompt.md') else (fn[:-3] + '.prompt.md' if fn.endswith('.md') else fn + '.prompt.md')
                D.append({'target': 'vscode', 'path': self.project + '/.github/prompts/' + name, 'bytes': b})
            if m['type'] == 'instructions' and for_vscode:
                D.append({'target': 'vscode', 'path': self.project + '/.github/copilot-instructions.md', 'bytes': m['files']['AGENTS.md']})
            if m['type'] == 'prompt' and for_codex and self.opts['write_user_prompts']:
                (fn, b), = m['files'].items()
                D.append({'target': 'codex', 'path': self.codex_home + '/prompts/' + fn, 'bytes': b})
            elif m['type'] == 'skill' and for_codex and self.opts['write_user_skills']:
                for rel, b in m['files'].items():
                    D.append({'target': 'codex', 'path': self.codex_home + '/skills/' + m['id'].split(':', 1)[1] + '/' + rel, 'bytes': b})
            elif m['type'] == 'instructions':
                if for_codex and self.opts['write_agents_global']:
                    D.append({'target': 'codex', 'path': self.codex_home + '/AGENTS.md', 'bytes': m['files']['AGENTS.md']})
                if for_codex and self.repo_agents:
                    D.append({'target': 'codex', 'path': self.project + '/AGENTS.md', 'bytes': m['files']['AGENTS.md']})
                if self.zed and (not m['targets'] or 'zed' in m['targets']) and flt in (None, 'zed'):
                    D.append({'target': 'zed', 'path': self.project + '/.rules', 'bytes': m['files']['AGENTS.md']})
            elif m['type'] == 'command' and for_claude:
                (fn, b), = m['files'].items()
                D.append({'target': 'claude_code', 'path': self.claude_cmds + '/' + fn, 'bytes': b})
        return D
    # ---- edits
    def add_skill(self, name, enabled=True, extra=True):
        self.opts['write_user_skills'] = True
        files = {'SKILL.md': skill_md(name, 'one')}
        if extra: files['ref/r.txt'] = b'r1'
        self.modules.append({'id': 'skill:' + name, 'type': 'skill', 'dir': 'modules/skills/' + name, 'files': files, 'targets': [], 'enabled': enabled})
    def add_prompt(self):
        k = len([m for m in self.modules if m['id'].startswith('prompt:n')])
        self.opts['write_user_prompts'] = True
        self.modules.append({'id': 'prompt:n%d' % k, 'type': 'prompt', 'dir': 'modules/prompts/n%d' % k,
                             'files': {'n%d.md' % k: b'new prompt %d\n' % k}, 'targets': [], 'enabled': True})
        return 'add_prompt'
    def move_home(self):
        """options.codex_home now points somewhere else (the old directory keeps its files and manifests)"""
        # sibling directories whose names are string-prefixes / extensions of one another (codex_hom, codex_home,
        # codex_home-old, codex_home2): "under the root" means a prefix of path COMPONENTS, not of the path string
        cur = os.path.basename(self.codex_home)
        cands = [cur[:-1], cur[:-2], cur + '-old', cur + '2', 'elsewhere/' + cur]
        cands = [c for c in cands if len(os.path.basename(c)) >= 3 and not os.path.exists(os.path.join(self.sb.home, c))]
        k = 2
        while os.path.exists(os.path.join(self.sb.home, 'codex_home%d' % k)): k += 1
        name = self.rng.choice(cands) if cands and self.rng.random() < 0.8 else 'codex_home%d' % k
        self.codex_home = os.path.join(self.sb.home, name)
        os.makedirs(self.codex_home)
        return 'move_home'
    def switch_project(self):
        """the same agentpack home and config repo are now used from another project checkout"""
        k = 2
        while os.path.exists(os.path.join(self.sb.root, 'project%d' % k)): k += 1
        self.sb.project = os.path.join(self.sb.root, 'project%d' % k)
        os.makedirs(self.sb.project); self.sb.git_init_project()
        self.project = self.sb.project
        return 'switch_project'
    def edit_config(self):
        rng = self.rng
        k = rng.random()
        if k < 0.35 and self.modules:
            m = rng.choice(self.modules); fn = rng.choice(sorted(m['files']))
            cur = m['files'][fn]
            if rng.random() < 0.25 and cur:
                # an edit that changes line terminators only: LF <-> CRLF, final newline dropped / added (bytes are bytes)
                if b'\r\n' in cur: new = cur.replace(b'\r\n', b'\n')
                elif rng.random() < 0.5 and b'\n' in cur: new = cur.replace(b'\n', b'\r\n')
                elif cur.endswith(b'\n'): new = cur[:-1]
                else: new = cur + b'\n'
                if new != cur and new:
                    m['files'][fn] = new; return 'content_eol'
            if fn == 'SKILL.md':
                m['files'][fn] = skill_md(m['id'].split(':')[1], rng.choice(['one', 'two', 'three']))
            elif m['type'] == 'command':
                m['files'][fn] = command_md(rng.choice(['do x', 'do y', 'do z']))
            else:
                m['files'][fn] = rng.choice(PROMPT_TXT + [b'changed\n'])
            return 'content'
        if k < 0.6 and self.modules:
            m = rng.choice(self.modules); m['enabled'] = not m['enabled']; return 'toggle_enabled'
        if k < 0.8:
            o = rng.choice(sorted(self.opts)); self.opts[o] = not self.opts[o]; return 'toggle_option'
        if k < 0.9 and self.modules:
            self.modules.remove(rng.choice(self.modules)); return 'remove_module'
        return 'none'

def user_edit(rng, cw, flt_hint=None, manifests=True):
    """perturb the target roots like a user would; returns tag"""
    sb = cw.sb
    D = cw.desired(None)
    k = rng.random()
    if k < 0.3 and D:
        d = rng.choice(D)
        world.write(d['path'], rng.choice([d['bytes'], b'user version\n', b'other\n', b''])); return 'collide'
    if k < 0.45:
        tree = world_tree(sb)
        deployed = [p for p in tree if not is_manifest_name(os.path.basename(p))]
        if deployed:
            p = rng.choice(sorted(deployed))
            if rng.random() < 0.5: os.remove(sb.root + p)
            else: world.write(sb.root + p, b'drift\n')
            return 'drift'
    if k < 0.52:
        # the user replaces a deployed (or to-be-deployed) file by a symlink to a file of their own, kept elsewhere
        tree = world_tree(sb)
        cands = sorted({d['path'] for d in D} | {sb.root + p for p in tree if not is_manifest_name(os.path.basename(p)) and '/userfiles/' not in p})
        if cands:
            p = rng.choice(cands)
            own = os.path.join(sb.home, 'userfiles', 'own%d.txt' % rng.randrange(3))
            if rng.random() < 0.8:
                world.write(own, rng.choice([b'my own notes\n', b'keep me\n']))
            elif os.path.lexists(own):
                os.remove(own)          # dangling link
            if os.path.lexists(p): os.remove(p)
            os.makedirs(os.path.dirname(p), exist_ok=True)
            os.symlink(own, p)
            return 'symlink'
    if k < 0.56:
        # user files that tree walkers tend to skip, INSIDE directories agentpack deploys into: version-control metadata of
        # a skill the user tracks on their own, notes under .agentpack/
        dirs = sorted({os.path.dirname(d['path']) for d in D} - {cw.project, cw.project + '/.github'})
        if dirs:
            base = rng.choice(dirs)
            world.write(base + '/' + rng.choice(['.git/config', '.git/HEAD', '.agentpack/notes.md', '.agentpack/x/y.txt']), b'the user\'s own\n')
            return 'hidden_userfile'
    if k < 0.6:
        p = rng.choice([cw.codex_home + '/prompts/mine.md', cw.codex_home + '/notes.txt', cw.codex_home + '/skills/own/SKILL.md',
                        cw.claude_cmds + '/mine.md', cw.project + '/README.md'])
        world.write(p, b'mine\n'); return 'userfile'
    if k < 0.85 and manifests:
        r = rng.choice(cw.roots(None) or [{'target': 'codex', 'root': cw.codex_home}])
        pref = r['root'] + '/' + mf_name(r['target']); leg = r['root'] + '/' + LEGACY
        what = rng.choice(['delete', 'garbage', 'foreign', 'foreign_listing', 'legacy', 'legacy_foreign', 'badversion', 'stale_extra'])
        if what in ('foreign_listing', 'legacy_foreign'):
            # a well-formed manifest of ANOTHER tool (under this root's per-target name, or under the legacy name) that
            # lists what is in the root — the user's files included: it is no record of this target
            other = rng.choice([t for t in ('codex', 'claude_code', 'zed', 'vscode', 'cursor', 'some-other-tool') if t != r['target']])
            under = []
            for dp, dns, fns in os.walk(r['root']):
                if '.git' in dp.split(os.sep): continue
                for fn in fns:
                    q = os.path.join(dp, fn)
                    if not is_manifest_name(fn) and not os.path.islink(q):
                        under.append((os.path.relpath(q, r['root']), open(q, 'rb').read()))
            under = under[:12]
            tgt = pref if what == 'foreign_listing' else leg
            if what == 'legacy_foreign' and os.path.exists(leg):
                return 'none'
            world.write(tgt, manifest_bytes(other, under) if rng.random() < 0.8 else b'{ "tool": 1, nope')
            return 'manifest:' + what
        if what == 'delete':
            for q in (pref, leg):
                if os.path.exists(q): os.remove(q)
        elif what == 'garbage':
            world.write(pref, b'{ nope')
        elif what == 'foreign':
            world.write(pref, manifest_bytes('zed', [('mine.md', b'mine\n')]))
        elif what == 'legacy':
            if os.path.exists(pref):
                os.rename(pref, leg)
            else:
                world.write(leg, manifest_bytes(r['target'], [('mine.md', b'mine\n')]))
        elif what == 'badversion':
            world.write(pref, manifest_bytes(r['target'], [('mine.md', b'mine\n')], sv=2))
        else:
            cur = []
            if os.path.exists(pref):
                m = classify_manifest(open(pref, 'rb').read(), Ids())
                if m[0] == 'P':
                    v = json.load(open(pref)); cur = [(e['path'], e['sha256']) for e in v['managed_files']]
            world.write(pref, manifest_bytes(r['target'], cur + [('mine.md', b'mine\n'), ('../notes.txt', b'x')]))
        return 'manifest:' + what
    return 'none'

ENTRY = ['cli_json', 'cli_json', 'cli_human_yes', 'cli_human_prompt_y', 'cli_human_prompt_n', 'cli_json_noyes', 'mcp', 'tui', 'tui_unconfirmed']

def run_deploy_step(sb, cw, entry, adopt, flt):
    """runs plan --json then the deploy through `entry`; returns (plan_changes, outcome_code, extra)"""
    targ = ['--target', flt] if flt else []
    rc, pdoc, out, err = sb.cli_json(['plan'] + targ)
    extra = {'plan_rc': rc}
    if rc != 0 or not pdoc or not pdoc.get('ok'):
        return None, None, {'plan_error': (pdoc or {}).get('errors', out[:300])}
    plan = pdoc['data']['changes']
    ad = ['--adopt'] if adopt else []
    code = None
    def from_env(doc):
        if doc is None: return None
        if doc.get('ok'):
            return 0 if doc['data'].get('applied') else 1
        c = doc['errors'][0]['code']
        return {'E_CONFIRM_REQUIRED': 3, 'E_ADOPT_CONFIRM_REQUIRED': 4}.get(c, 'err:' + c)
    if entry in ('cli_json', 'cli_json_noyes'):
        rc, doc, out, err = sb.cli_json(['deploy', '--apply'] + ad + targ + ([] if entry == 'cli_json_noyes' else ['--yes']))
        code = from_env(doc); extra['envelope'] = doc
        if doc and doc.get('ok'):
            extra['deploy_changes'] = doc['data'].get('changes')
    elif entry.startswith('cli_human'):
        args = ['deploy', '--apply'] + ad + targ
        inp = None
        if entry == 'cli_human_yes': args.append('--yes')
        elif entry == 'cli_human_prompt_y': inp = b'y\n'
        else: inp = b'n\n'
        p = sb.cli(args, input=inp if inp is not None else b'')
        so = p.stdout.decode('utf-8', 'replace'); se = p.stderr.decode('utf-8', 'replace')
        if p.returncode == 0:
            code = 0 if 'Applied. Snapshot' in so else (1 if 'No changes' in so else (2 if 'Aborted' in so else 'human?'))
        else:
            code = 4 if '--adopt' in se or 'E_ADOPT_CONFIRM_REQUIRED' in se else 'err:human:' + se[-200:]
        extra['human'] = (so[-300:], se[-300:])
    elif entry == 'mcp':
        m = Mcp(sb)
        try:
            a = {}
            if flt: a['target'] = flt
            msg, env1 = m.call('deploy', dict(a))
            if not env1 or not env1.get('ok'):
                code = from_env(env1)
            else:
                tok = env1['data'].get('confirm_token')
                a2 = dict(a, yes=True, adopt=bool(adopt))
                if tok: a2['confirm_token'] = tok
                msg, env2 = m.call('deploy_apply', a2)
                code = from_env(env2); extra['envelope'] = env2
                if env2 and env2.get('ok'):
                    extra['deploy_changes'] = env2['data'].get('changes')
        finally:
            m.close()
    else:
        with Avh(env=sb.env(), cwd=sb.project) as avh:
            r = avh.call({'op': 'tui_apply', 'adopt': bool(adopt), 'confirmed': entry == 'tui', 'target': flt or 'all'})
        if 'ok' in r:
            code = 0 if r['ok'] == 'applied' else 1
        else:
            code = {'E_CONFIRM_REQUIRED': 3, 'E_ADOPT_CONFIRM_REQUIRED': 4}.get(r.get('code'), 'err:%s' % r.get('code'))
        extra['tui'] = r
    return plan, code, extra

STYLE = {'cli_json': (0, True), 'cli_json_noyes': (0, False), 'cli_human_yes': (2, True), 'cli_human_prompt_y': (2, True),
         'cli_human_prompt_n': (2, False), 'mcp': (0, True), 'tui': (1, True), 'tui_unconfirmed': (1, False)}

def snapshots_count(sb):
    d = os.path.join(sb.aphome, 'state', 'snapshots')
    return len([x for x in os.listdir(d) if x.endswith('.json')]) if os.path.isdir(d) else 0

def oracle_step(props, before, after, D, roots, flt, adopt, entry, plan, code, ids, home_prefix_strip, latest_managed, D_all=None, R_all=None):
    """property predicates for one deploy step, from the observed traces only.
    before/after: relpath->bytes (relative to sb.home); D/roots with paths relative likewise."""
    bad = []
    recorded_all = accepted_entries(before, roots, ids)
    fb = snapshot_fallback(before, roots, ids, latest_managed)
    if fb is not None:
        # "when no manifest is usable anywhere, its latest deployment snapshot": only then, and only entries
        # under a current root of their target (the agentpack home, hence its snapshots, is shared by all projects)
        recorded_all = set(fb)
    recorded = {(t, p) for t, p in recorded_all if flt is None or t == flt}
    dkeys = {(d['target'], d['path']): d for d in D}
    mpaths = {r['root'] + '/' + mf_name(r['target']) for r in roots}
    changed = {p for p in set(before) | set(after) if before.get(p) != after.get(p)}
    applied = (code == 0)
    if not applied and changed:
        bad.append(('C01', 'deploy did not apply (outcome %s) but files changed: %s' % (code, sorted(changed)[:3])))
        bad.append(('C04', 'deploy did not apply (outcome %s) but files changed: %s' % (code, sorted(changed)[:3])))
    planned = {}
    for c in plan:
        planned.setdefault(c['path'], []).append(c)
    for p in changed:
        if p in mpaths:
            continue
        rec_here = any(rp == p for _, rp in recorded)
        if not adopt and p in before and not rec_here:
            bad.append(('C01', 'without --adopt an existing unrecorded file changed: %s' % p))
        if p in before and p not in after and not rec_here:
            bad.append(('C02', 'a file no record lists was deleted: %s' % p))
        if p in before and p not in after and any(k[1] == p for k in dkeys):
            bad.append(('C02', 'a desired file was deleted: %s' % p))
        if p not in planned:
            bad.append(('C04', 'changed path not in the announced plan: %s' % p))
        if not any(p.startswith(r['root'] + '/') for r in roots):
            bad.append(('C03', 'a file outside every target root of this run was created, modified or deleted: %s' % p))
        if is_manifest_name(os.path.basename(p)) and p not in mpaths:
            bad.append(('C04', 'a manifest not belonging to a selected root changed: %s' % p))
        if flt is not None:
            # (a recorded file of the selected target may lie in a root that is switched off now — the snapshot
            #  fallback still lists it; what the property forbids is touching ANOTHER target's file or manifest)
            if D_all is not None:
                others = {t for t, q in accepted_entries(before, [r for r in R_all if r['target'] != flt], ids) if q == p}
                others |= {d['target'] for d in D_all if d['path'] == p and d['target'] != flt}
                desired_elsewhere = {d['target'] for d in D_all if d['path'] == p and d['target'] != flt}
                mine = any(k[1] == p for k in dkeys) or (any(q == p for _, q in recorded) and not desired_elsewhere)
                if others and not mine:
                    bad.append(('C04', 'with --target %s a file belonging to target %s was changed or removed: %s' % (flt, sorted(others), p)))
    # unmanaged collision must refuse the whole deploy (when a confirmed entry reached the adopt gate)
    collide = [d for k, d in dkeys.items() if d['path'] in before and before[d['path']] != d['bytes'] and k not in recorded]
    confirmed_or_interactive = STYLE[entry][1] or STYLE[entry][0] == 2
    if collide and not adopt and confirmed_or_interactive and code != 4:
        bad.append(('C01', 'unmanaged differing file %s but outcome %s instead of E_ADOPT_CONFIRM_REQUIRED' % (collide[0]['path'], code)))
    if applied:
        paths = [c['path'] for c in plan]
        if len(set(paths)) == len(paths):
            for c in plan:
                p = c['path']
                if p in mpaths: continue
                want = None if c['op'] == 'delete' else c['after_sha256']
                got = hashlib.sha256(after[p]).hexdigest() if p in after else None
                if want != got:
                    bad.append(('C04', 'announced %s of %s not realised' % (c['op'], p)))
                bsha = hashlib.sha256(before[p]).hexdigest() if p in before else None
                if c.get('before_sha256') != bsha:
                    bad.append(('C04', 'before_sha256 of %s is not the true hash' % p))
        # convergence
        for k, d in dkeys.items():
            if after.get(d['path']) != d['bytes']:
                bad.append(('C05', 'after a successful deploy desired output %s does not hold the rendered bytes' % d['path']))
        for t, p in recorded:
            if (t, p) not in dkeys and p in after and not any(k[1] == p for k in dkeys):
                bad.append(('C05', 'previously managed output %s is no longer desired but still exists' % p))
    return [b for b in bad if b[0] in props]

def c_edits(prev, cur, ids):
    out = []
    for p in sorted(set(prev) | set(cur)):
        if prev.get(p) != cur.get(p):
            out.append(cq.cpair(cq.cstr(p), cq.copt(fobj_of(p, cur[p], ids) if p in cur else None, c_fobj)))
    return cq.clist(out)

def relD(D, base):
    return [{'target': d['target'], 'path': d['path'][len(base):], 'bytes': d['bytes']} for d in D]
def relR(R, base):
    return [{'target': r['target'], 'root': r['root'][len(base):], 'scan_extras': r['scan_extras']} for r in R]

def hist_universe(trees, Ds, Rs):
    u = set()
    for t in trees: u |= set(t)
    for D in Ds: u |= {d['path'] for d in D}
    for R in Rs:
        for r in R:
            u.add(r['root'] + '/' + mf_name(r['target'])); u.add(r['root'] + '/' + LEGACY)
    return u

def latest_managed_of(sb, base):
    """harness reading of the latest deploy/rollback snapshot's managed set (for the oracle)"""
    d = os.path.join(sb.aphome, 'state', 'snapshots')
    if not os.path.isdir(d):
        return None
    best = None
    for fn in os.listdir(d):
        if not fn.endswith('.json'): continue
        try:
            v = json.load(open(os.path.join(d, fn)))
        except Exception:
            continue
        if v.get('kind', 'deploy') not in ('deploy', 'rollback'): continue
        key = int(v['id'])
        if best is None or key > best[0]:
            best = (key, v)
    if best is None:
        return None
    v = best[1]
    if v.get('managed_files'):
        return [(f['target'], f['path'][len(base):]) for f in v['managed_files']]
    return [(c['target'], c['path'][len(base):]) for c in v['changes'] if c['op'] in ('create', 'update') and not is_manifest_name(os.path.basename(c['path']))]

def setup_two_roots(cw, rng):
    """at least two roots with content: a prompt module (prompts/) and a skill module (skills/)"""
    cw.opts['write_user_prompts'] = True; cw.opts['write_user_skills'] = True
    if not any(m['type'] == 'prompt' for m in cw.modules): cw.add_prompt()
    if not any(m['type'] == 'skill' for m in cw.modules):
        cw.modules.append({'id': 'skill:s9', 'type': 'skill', 'dir': 'modules/skills/s9', 'files': {'SKILL.md': skill_md('s9', 'one')}, 'targets': [], 'enabled': True})
    for m in cw.modules:
        if m['type'] in ('prompt', 'skill'): m['enabled'] = True; m['targets'] = []
    # no root without desired files (such a root gets no manifest: outside the history theorem's hypotheses, class K6c)
    cw.zed = False; cw.repo_agents = False; cw.vscode = False
    cw.opts['write_agents_global'] = any(m['type'] == 'instructions' and m['enabled'] and (not m['targets'] or 'codex' in m['targets']) for m in cw.modules)
    cw.claude = cw.claude and any(m['type'] == 'command' and m['enabled'] for m in cw.modules)

def hist_two_roots(st, cw, sb, rng, hs):
    """S0: everything; S1: only the prompts root changes; S2: only the skills root changes; then rollbacks to
    S1 / S0 / S2 (a snapshot in which some root saw no change must still bring that root's manifest back)"""
    def bump(kind, n):
        m = next(m for m in cw.modules if m['type'] == kind and m['enabled'])
        fn = sorted(m['files'])[-1] if kind == 'prompt' else 'SKILL.md'
        m['files'][fn] = (b'prompt v%d\n' % n) if kind == 'prompt' else skill_md(m['id'].split(':')[1], 'v%d' % n)
        cw.write()
    if st == 0: return {'kind': 'deploy', 'adopt': False, 'flt': None, 'entry': 'cli_json', 'tags': ['script:all']}
    if st == 1: bump('prompt', 1); return {'kind': 'deploy', 'adopt': False, 'flt': None, 'entry': rng.choice(['cli_json', 'mcp', 'tui']), 'tags': ['script:prompts_only']}
    if st == 2:
        k = rng.random(); sk = [m for m in cw.modules if m['type'] == 'skill' and m['enabled']]
        if k < 0.4: bump('skill', 2)
        elif k < 0.7:      # a file disappears from the skills root
            if len(sk[0]['files']) > 1: del sk[0]['files'][sorted(f for f in sk[0]['files'] if f != 'SKILL.md')[0]]
            else: sk[0]['enabled'] = False
            cw.write()
        else:              # a file appears in the skills root
            sk[0]['files']['extra/new.txt'] = b'new\n'; cw.write()
        return {'kind': 'deploy', 'adopt': False, 'flt': None, 'entry': rng.choice(['cli_json', 'cli_human_yes']), 'tags': ['script:skills_only']}
    if st == 3: return {'kind': 'rollback', 'to': 1, 'tags': ['script:to_S1']}
    if st == 4: return {'kind': 'rollback', 'to': rng.choice([0, 2]), 'tags': ['script:sideways']}
    if st == 5: return {'kind': 'rollback', 'to': 1, 'tags': ['script:to_S1_again']}
    return None

def hist_after_empty_rollback(st, cw, sb, rng, hs):
    """deploy; switch every module off and deploy (a snapshot with an empty managed list); switch them on and
    deploy; roll back to the empty snapshot; the user then creates files at the desired paths: a deploy without
    --adopt must be refused, nothing there is recorded as deployed any more"""
    if st == 0: return {'kind': 'deploy', 'adopt': True, 'flt': None, 'entry': 'cli_json', 'tags': ['script:all']}
    if st == 1:
        for m in cw.modules: m['enabled'] = False
        cw.write(); return {'kind': 'deploy', 'adopt': False, 'flt': None, 'entry': 'cli_json', 'tags': ['script:empty']}
    if st == 2:
        for m in cw.modules: m['enabled'] = True
        cw.write(); return {'kind': 'deploy', 'adopt': False, 'flt': None, 'entry': 'cli_json', 'tags': ['script:all_again']}
    if st == 3: return {'kind': 'rollback', 'to': 1, 'tags': ['script:to_empty']}
    if st == 4:
        D = cw.desired(None)
        for d in rng.sample(D, rng.randrange(1, len(D) + 1)) if D else []:
            world.write(d['path'], rng.choice([b'user version\n', b'mine\n']))
        return {'kind': 'deploy', 'adopt': False, 'flt': rng.choice([None, None, 'codex']), 'entry': rng.choice(['cli_json', 'cli_human_yes', 'cli_human_prompt_y', 'mcp', 'tui']), 'tags': ['script:user_files', 'user:collide']}
    if st == 5: return {'kind': 'deploy', 'adopt': True, 'flt': None, 'entry': 'cli_json', 'tags': ['script:adopt']}
    return None

def script_symlinked_outputs(st, cw, sb, rng):
    """deploy; the user replaces deployed files by symlinks to files of their own (kept elsewhere, or another target's
    output in the same directory); the modules change; deploy again (no --adopt / with a target filter): the link may be
    replaced, the file it points to belongs to the user (or to the other target) and is in no plan"""
    if st == 0:
        return ['script:all'], 'cli_json', True, None
    if st in (1, 2):
        tree = world_tree(sb)
        deployed = sorted(sb.root + p for p in tree if not is_manifest_name(os.path.basename(p)) and '/userfiles/' not in p)
        tags = []; force_flt = None
        rules, agents = cw.project + '/.rules', cw.project + '/AGENTS.md'
        if cw.zed and cw.repo_agents and rules in deployed and agents in deployed and rng.random() < 0.5:
            # one target's output becomes a link to the OTHER target's output in the same directory; the deploy is
            # filtered to the link's own target, so the file it points to is neither planned nor that target's
            p, own, force_flt = rng.choice([(rules, agents, 'zed'), (agents, rules, 'codex')])
            os.remove(p); os.symlink(own, p); tags.append('user:symlink_to_other_target')
            deployed = [q for q in deployed if q not in (rules, agents)]
        for p in rng.sample(deployed, min(len(deployed), rng.randrange(1, 3))):
            if rng.random() < 0.35:
                # a second hard link to the deployed file, kept elsewhere (a backup, a dotfiles checkout): replacing the
                # deployed file must not write through to it
                hl = os.path.join(sb.home, 'userfiles', 'hardlink%d.txt' % rng.randrange(100))
                os.makedirs(os.path.dirname(hl), exist_ok=True)
                if not os.path.lexists(hl) and not os.path.islink(p):
                    os.link(p, hl); tags.append('user:hardlink')
                continue
            own = os.path.join(sb.home, 'userfiles', 'own%d.txt' % rng.randrange(3))
            world.write(own, rng.choice([b'my own notes\n', b'keep me\n']))
            os.remove(p); os.symlink(own, p); tags.append('user:symlink')
        for m in cw.modules:        # every output changes
            for fn in sorted(m['files']):
                if fn == 'SKILL.md': m['files'][fn] = skill_md(m['id'].split(':')[1], 'rev%d' % st)
                elif m['type'] == 'command': m['files'][fn] = command_md('do rev%d' % st)
                else: m['files'][fn] = b'revision %d\n' % st
        cw.write()
        flt = force_flt or rng.choice([None, None, 'codex'] + (['zed'] if cw.zed else []) + (['claude_code'] if cw.claude else []))
        return tags + ['cfg:content_all'], rng.choice(CONFIRMED_ENTRIES), rng.random() < 0.3 or force_flt is not None, flt
    return None

def hist_repeat_rollback(st, cw, sb, rng, hs):
    """deploy, deploy, rollback to S, the user drifts managed files, the SAME rollback again: it restores again"""
    def drift():
        tree = world_tree(sb)
        deployed = sorted(p for p in tree if not is_manifest_name(os.path.basename(p)))
        for p in rng.sample(deployed, min(len(deployed), rng.randrange(1, 3))):
            if rng.random() < 0.4: os.remove(sb.root + p)
            else: world.write(sb.root + p, b'user drift\n')
    if st == 0: return {'kind': 'deploy', 'adopt': False, 'flt': None, 'entry': 'cli_json', 'tags': ['script:all']}
    if st == 1:
        for m in cw.modules:
            if m['type'] == 'prompt': m['files'][sorted(m['files'])[0]] = b'second version\n'
        cw.add_prompt(); cw.write()
        return {'kind': 'deploy', 'adopt': False, 'flt': None, 'entry': rng.choice(['cli_json', 'mcp']), 'tags': ['script:second']}
    if st == 2: hs.rr_to = rng.choice([0, 0, 1]); return {'kind': 'rollback', 'to': hs.rr_to, 'tags': ['script:rollback']}
    if st == 3: drift(); return {'kind': 'rollback', 'to': hs.rr_to, 'tags': ['script:same_rollback_again', 'user:drift']}
    if st == 4: drift(); return {'kind': 'rollback', 'to': 1 - hs.rr_to, 'tags': ['script:other_rollback', 'user:drift']}
    if st == 5: drift(); return {'kind': 'rollback', 'to': 1 - hs.rr_to, 'tags': ['script:same_rollback_again', 'user:drift']}
    return None

def script_backported_edit(st, cw, sb, rng):
    """deploy; every module changes; for some outputs the user has ALREADY put the new bytes on disk (edited the deployed
    copy and back-ported it, or an earlier apply was interrupted after writing it), so the plan does not touch them
    although the manifests still record their old hashes; deploy: the rewritten manifests must carry true hashes and
    the repeated deploy is a no-op"""
    if st == 0:
        return ['script:all'], 'cli_json', True, None
    if st in (1, 2):
        for m in cw.modules:
            for fn in sorted(m['files']):
                if fn == 'SKILL.md': m['files'][fn] = skill_md(m['id'].split(':')[1], 'rev%d' % st)
                elif m['type'] == 'command': m['files'][fn] = command_md('do rev%d' % st)
                else: m['files'][fn] = b'revision %d of %s\n' % (st, fn.encode())
        cw.write()
        D = cw.desired(None); tags = ['cfg:content_all']
        for d in rng.sample(D, rng.randrange(1, max(2, len(D)))) if D else []:
            if os.path.exists(d['path']) and not os.path.islink(d['path']):
                world.write(d['path'], d['bytes']); tags.append('user:backport')
        return tags, rng.choice(CONFIRMED_ENTRIES), False, None
    return None

def eol_variant(b, rng):
    """the same text with other line terminators: LF <-> CRLF, final newline dropped / added / doubled"""
    k = rng.randrange(4)
    if b'\r\n' in b: v = b.replace(b'\r\n', b'\n')
    elif k == 0 and b'\n' in b: v = b.replace(b'\n', b'\r\n')
    elif k == 1 and b.endswith(b'\n'): v = b[:-1]
    elif k == 2: v = b + b'\n'
    elif b'\n' in b: v = b.replace(b'\n', b'\r\n')
    else: v = b + b'\n'
    return v

def script_eol_only(st, cw, sb, rng):
    """deploy; (1) every module's text changes in its line terminators only (LF <-> CRLF, final newline): the outputs
    are other BYTES and the deploy must write them; (2) the user re-saves deployed files with other line terminators:
    drift like any other, the next deploy restores the desired bytes"""
    if st == 0:
        return ['script:all'], 'cli_json', True, None
    if st == 1:
        for m in cw.modules:
            for fn in sorted(m['files']):
                if m['files'][fn] and not (fn == 'SKILL.md' or m['type'] == 'command'):
                    m['files'][fn] = eol_variant(m['files'][fn], rng)
                elif m['files'][fn].endswith(b'\n'):
                    m['files'][fn] = m['files'][fn] + b'\n' if rng.random() < 0.5 else m['files'][fn][:-1]
        cw.write()
        return ['cfg:content_eol_all'], rng.choice(CONFIRMED_ENTRIES), False, None
    if st == 2:
        tags = []
        for d in cw.desired(None):
            if os.path.exists(d['path']) and not os.path.islink(d['path']) and d['bytes'] and rng.random() < 0.7:
                world.write(d['path'], eol_variant(d['bytes'], rng)); tags.append('user:eol_resave')
        return tags, rng.choice(CONFIRMED_ENTRIES), False, None
    return None

def script_foreign_manifest(st, cw, sb, rng):
    """deploy; the user keeps notes in the roots; every root's manifest is replaced by a well-formed manifest of ANOTHER
    tool (per-target name or legacy name) that lists everything in the root; a prompt is added whose output path the user
    has already taken.  Such a manifest is no record: without --adopt the user's files stay, the taken path refuses"""
    if st == 0:
        return ['script:all'], 'cli_json', True, None
    if st == 1:
        tags = []
        roots = cw.roots(None)
        for r in roots:
            if rng.random() < 0.7:
                world.write(r['root'] + '/' + rng.choice(['notes.md', 'keep/own.txt', 'todo.txt']), b'the user\'s notes\n'); tags.append('user:userfile')
        taken = None
        if rng.random() < 0.6:
            before = {d['path'] for d in cw.desired(None)}
            cw.add_prompt(); cw.write()
            for d in cw.desired(None):
                if d['path'] not in before and not os.path.lexists(d['path']):
                    world.write(d['path'], b'the user was here first\n'); taken = d['path']; tags.append('user:collide_new')
        for r in roots:
            pref = r['root'] + '/' + mf_name(r['target']); leg = r['root'] + '/' + LEGACY
            other = rng.choice([t for t in ('codex', 'claude_code', 'zed', 'vscode', 'cursor', 'some-other-tool') if t != r['target']])
            under = []
            for dp, dns, fns in os.walk(r['root']):
                if '.git' in dp.split(os.sep): continue
                for fn in fns:
                    q = os.path.join(dp, fn)
                    if not is_manifest_name(fn) and not os.path.islink(q):
                        under.append((os.path.relpath(q, r['root']), open(q, 'rb').read()))
            where = rng.choice(['pref', 'pref', 'legacy'])
            if where == 'legacy' and os.path.exists(pref): os.remove(pref)
            world.write(pref if where == 'pref' else leg, manifest_bytes(other, under[:16]))
            tags.append('manifest:foreign_listing_' + where)
        return tags, rng.choice(CONFIRMED_ENTRIES), False, None
    if st == 2:
        t = cw.edit_config(); cw.write()
        return ['cfg:' + t], rng.choice(CONFIRMED_ENTRIES), False, None
    return None

def script_prefix_siblings(st, cw, sb, rng):
    """sibling output directories whose names are string prefixes of one another (skills lint / lint-fix / lint-fix2):
    the longer-named ones are deployed first; then the shorter-named skill is switched on (its directory does not
    exist yet), the deployed siblings change or are edited by the user.  "Below a missing directory" is a matter of path
    components: the announced operations and pre-images of the siblings are those of files that exist"""
    if st == 0:
        base = rng.choice(['lint', 'fmt', 'a'])
        cw.add_skill(base, enabled=False)
        for suf in rng.sample(['-fix', '2', '_x', '.old'], rng.randrange(1, 3)):
            cw.add_skill(base + suf, enabled=True, extra=rng.random() < 0.5)
        cw.write()
        return ['script:siblings_first'], 'cli_json', True, None
    if st == 1:
        tags = []
        for m in cw.modules:
            if m['type'] == 'skill' and not m['enabled']:
                m['enabled'] = True
        for m in cw.modules:
            if m['type'] == 'skill' and rng.random() < 0.5:
                m['files']['SKILL.md'] = skill_md(m['id'].split(':')[1], 'two'); tags.append('cfg:content')
        cw.write()
        if rng.random() < 0.5:
            D = [d for d in cw.desired(None) if '/skills/' in d['path'] and os.path.exists(d['path'])]
            if D:
                world.write(rng.choice(D)['path'], b'edited by the user\n'); tags.append('user:drift')
        return tags + ['script:enable_prefix_named_skill'], rng.choice(ENTRY), rng.random() < 0.5, None
    return None

def script_case_rename(st, cw, sb, rng):
    """deploy; a module's file is renamed to a spelling that differs only in letter case (the old output becomes
    managed-but-undesired, the new spelling is a NEW path); the user already has a file of their own at the new
    spelling; deploy without --adopt must be refused as a whole"""
    if st == 0:
        return ['script:all'], 'cli_json', True, None
    if st == 1:
        cands = [m for m in cw.modules if m['enabled'] and m['type'] in ('prompt', 'command')]
        if not cands: return None
        m = rng.choice(cands); (fn, b), = m['files'].items()
        new = fn.upper() if fn != fn.upper() and rng.random() < 0.5 else fn[0].upper() + fn[1:]
        if new == fn: new = fn.lower() if fn != fn.lower() else 'X' + fn
        m['files'] = {new: b}; cw.write()
        tags = ['cfg:case_rename']
        for d in cw.desired(None):
            if os.path.basename(d['path']) in (new, new[:-3] + '.prompt.md'):
                world.write(d['path'], b'the user\'s own file\n'); tags.append('user:collide')
        return tags, rng.choice(CONFIRMED_ENTRIES), False, None
    if st == 2:
        return ['script:adopt'], 'cli_json', True, None
    return None

def hist_bootstrap_then_rollback(st, cw, sb, rng, hs):
    """deploy; bootstrap (operator assets into the same skills root); rollback to the deploy; deploy again"""
    if st == 0: return {'kind': 'deploy', 'adopt': False, 'flt': None, 'entry': 'cli_json', 'tags': ['script:all']}
    if st == 1: return {'kind': 'bootstrap', 'tags': ['script:bootstrap']}
    if st == 2: return {'kind': 'rollback', 'to': 0, 'tags': ['script:rollback_to_deploy']}
    if st == 3:
        cw.add_prompt(); cw.write()
        return {'kind': 'deploy', 'adopt': False, 'flt': None, 'entry': 'cli_json', 'tags': ['script:deploy_again']}
    if st == 4: return {'kind': 'bootstrap', 'tags': ['script:bootstrap']}
    if st == 5: return {'kind': 'rollback', 'to': rng.choice([0, 3]), 'tags': ['script:rollback']}
    return None

def script_remove_with_hidden_user_files(st, cw, sb, rng):
    """deploy; the user keeps files of their own inside deployed skill / prompt directories, in places a file listing
    that skips metadata does not see (.git/, .agentpack/); the modules leave the configuration; deploy without --adopt
    removes the recorded files only"""
    if st == 0:
        return ['script:all'], 'cli_json', True, None
    if st in (1, 2):
        tags = []
        for base in sorted({os.path.dirname(d['path']) for d in cw.desired(None)} - {cw.project, cw.project + '/.github'}):
            if rng.random() < 0.7:
                world.write(base + '/' + rng.choice(['.git/config', '.git/HEAD', '.agentpack/notes.md']), b'the user\'s own\n'); tags.append('user:hidden_userfile')
        ty = rng.choice(sorted({m['type'] for m in cw.modules if m['enabled']}) or ['skill'])
        for m in cw.modules:
            if m['type'] == ty: m['enabled'] = False
        cw.write()
        return tags + ['cfg:disable_all_' + ty], rng.choice(CONFIRMED_ENTRIES), False, None
    return None

def hist_readd_after_removal(st, cw, sb, rng, hs):
    """S0; a prompt is added (S1) and removed again (S2: its file is deleted and no record lists it any more); the user
    creates a file of their own at that path; rollback to S0 may delete only what the HEAD records beyond S0"""
    if st == 0: return {'kind': 'deploy', 'adopt': False, 'flt': None, 'entry': 'cli_json', 'tags': ['script:all']}
    if st == 1: cw.add_prompt(); cw.write(); return {'kind': 'deploy', 'adopt': False, 'flt': None, 'entry': 'cli_json', 'tags': ['script:add']}
    if st == 2:
        cw.modules[-1]['enabled'] = False; cw.write()
        return {'kind': 'deploy', 'adopt': False, 'flt': None, 'entry': rng.choice(['cli_json', 'mcp']), 'tags': ['script:remove']}
    if st == 3:
        m = cw.modules[-1]; m['enabled'] = True; paths = [d['path'] for d in cw.desired(None) if os.path.basename(d['path']).split('.')[0] == sorted(m['files'])[0].split('.')[0]]
        m['enabled'] = False
        for q in paths: world.write(q, b'the user\'s own file at a formerly deployed path\n')
        return {'kind': 'rollback', 'to': 0, 'tags': ['script:rollback_to_S0', 'user:recreate']}
    return None

def hist_restore_over_user_files(st, cw, sb, rng, hs):
    """S0; the user deletes some deployed files and puts files of their own (empty ones included) in the place of others
    and at the output paths of a newly added prompt; `evolve restore` is create-only: it writes the missing files and
    leaves every existing one — whatever it holds, even nothing — alone"""
    if st == 0: return {'kind': 'deploy', 'adopt': False, 'flt': None, 'entry': 'cli_json', 'tags': ['script:all']}
    if st in (1, 2):
        tags = []
        D = [d for d in cw.desired(None) if os.path.exists(d['path']) and not os.path.islink(d['path'])]
        for d in rng.sample(D, min(len(D), rng.randrange(1, 4))):
            k = rng.random()
            if k < 0.4: os.remove(d['path']); tags.append('user:delete')
            elif k < 0.75: world.write(d['path'], b''); tags.append('user:empty_file')
            else: world.write(d['path'], b'the user took this path\n'); tags.append('user:takeover')
        if rng.random() < 0.6:
            before = {d['path'] for d in cw.desired(None)}
            cw.add_prompt(); cw.write()
            for d in cw.desired(None):
                if d['path'] not in before and not os.path.lexists(d['path']) and rng.random() < 0.7:
                    world.write(d['path'], rng.choice([b'', b'mine\n'])); tags.append('user:placeholder_at_new_output')
        return {'kind': 'restore', 'tags': tags + ['script:restore']}
    return None

def hist_fallback_after_rollback(st, cw, sb, rng, hs):
    """S0; a prompt is added (S1); rollback to S0 (its record is now the LATEST deployment snapshot); the configuration
    goes back to S0's, the user creates a file of their own where S1 had put the prompt, and every manifest is lost
    (re-cloned project, gitignored manifests): the snapshot fallback is the latest record — the rollback's — which does
    not list the user's file"""
    if st == 0: return {'kind': 'deploy', 'adopt': False, 'flt': None, 'entry': 'cli_json', 'tags': ['script:all']}
    if st == 1: cw.add_prompt(); cw.write(); return {'kind': 'deploy', 'adopt': False, 'flt': None, 'entry': 'cli_json', 'tags': ['script:add']}
    if st == 2: return {'kind': 'rollback', 'to': 0, 'tags': ['script:rollback_to_S0']}
    if st == 3:
        m = cw.modules[-1]; m['enabled'] = True
        paths = [d['path'] for d in cw.desired(None) if os.path.basename(d['path']).split('.')[0] == sorted(m['files'])[0].split('.')[0]]
        m['enabled'] = False; cw.write()
        for q in paths: world.write(q, b'the user\'s own file at a path a rolled-back deployment used\n')
        n = 0
        for r in cw.roots(None):
            for q in (r['root'] + '/' + mf_name(r['target']), r['root'] + '/' + LEGACY):
                if os.path.exists(q): os.remove(q); n += 1
        return {'kind': 'deploy', 'adopt': False, 'flt': None, 'entry': rng.choice(['cli_json', 'cli_human_yes', 'mcp']),
                'tags': ['script:all_manifests_lost', 'user:recreate', 'manifests_removed:%d' % n]}
    return None

def hist_shrink_then_rollbacks(st, cw, sb, rng, hs):
    """S0 with an extra prompt; S1 without it (its file is deleted); rollback to S0 brings it back — the head is S0 now —
    and rollback to S1 must remove it again (what the HEAD lists beyond S1), then once more back and forth"""
    if st == 0: cw.add_prompt(); cw.write(); return {'kind': 'deploy', 'adopt': False, 'flt': None, 'entry': 'cli_json', 'tags': ['script:all_plus_prompt']}
    if st == 1: cw.modules[-1]['enabled'] = False; cw.write(); return {'kind': 'deploy', 'adopt': False, 'flt': None, 'entry': rng.choice(['cli_json', 'mcp']), 'tags': ['script:without_prompt']}
    if st in (2, 4): return {'kind': 'rollback', 'to': 0, 'tags': ['script:rollback_to_S0']}
    if st in (3, 5): return {'kind': 'rollback', 'to': 1, 'tags': ['script:rollback_to_S1']}
    return None

def hist_drift_then_deploy(st, cw, sb, rng, hs):
    """S0; the user edits a deployed file; the module changes and S1 rewrites that file; rollback to S0 brings back
    S0's bytes (from the snapshot's own copy, not from the backup S1 took of the drifted file)"""
    if st == 0: return {'kind': 'deploy', 'adopt': False, 'flt': None, 'entry': 'cli_json', 'tags': ['script:all']}
    if st == 1:
        D = cw.desired(None); victims = rng.sample(D, min(len(D), rng.randrange(1, 3)))
        for d in victims: world.write(d['path'], b'local edit made after S0\n')
        mods = list(cw.modules)
        some = mods if rng.random() < 0.4 or len(mods) < 2 else rng.sample(mods, rng.randrange(1, len(mods)))   # the others keep their S0 bytes in S1
        for m in some:
            for fn in sorted(m['files']):
                if fn == 'SKILL.md': m['files'][fn] = skill_md(m['id'].split(':')[1], 'second')
                elif m['type'] == 'command': m['files'][fn] = command_md('do second')
                else: m['files'][fn] = b'second version of %s\n' % fn.encode()
        cw.write()
        return {'kind': 'deploy', 'adopt': False, 'flt': None, 'entry': rng.choice(['cli_json', 'cli_human_yes', 'mcp']), 'tags': ['script:second', 'user:drift']}
    if st == 2:
        # the user edits deployed files again (among them files S1 did not touch: same bytes in S0 and S1)
        D = cw.desired(None)
        for d in rng.sample(D, min(len(D), rng.randrange(1, 4))):
            if os.path.exists(d['path']) and not os.path.islink(d['path']):
                world.write(d['path'], b'local edit made after S1\n')
        return {'kind': 'rollback', 'to': 0, 'tags': ['script:rollback_to_parent', 'user:drift_after_S1']}
    if st == 3: return {'kind': 'rollback', 'to': 1, 'tags': ['script:redo']}
    return None

def setup_all_targets(cw, rng):
    """every target of the family switched on, at least one module of every type"""
    cw.claude = True; cw.zed = True; cw.repo_agents = rng.random() < 0.5; cw.vscode = True
    cw.opts = {k: True for k in cw.opts}
    if not any(m['type'] == 'prompt' for m in cw.modules): cw.add_prompt()
    if not any(m['type'] == 'skill' for m in cw.modules):
        cw.modules.append({'id': 'skill:s9', 'type': 'skill', 'dir': 'modules/skills/s9', 'files': {'SKILL.md': skill_md('s9', 'one')}, 'targets': [], 'enabled': True})
    if not any(m['type'] == 'instructions' for m in cw.modules):
        cw.modules.append({'id': 'instructions:base', 'type': 'instructions', 'dir': 'modules/instructions/base', 'files': {'AGENTS.md': b'# rules\n'}, 'targets': [], 'enabled': True})
    if not any(m['type'] == 'command' for m in cw.modules):
        cw.modules.append({'id': 'command:c9', 'type': 'command', 'dir': 'modules/claude-commands/c9', 'files': {'c9.md': command_md('do x')}, 'targets': [], 'enabled': True})
    for m in cw.modules: m['enabled'] = True

def script_last_module_removed(st, cw, sb, rng):
    """deploy everything; then all modules of one type disappear from the configuration (disabled, removed, or
    restricted to another target), so some roots lose their last output; deploy; again with another type"""
    n = st
    if n == 0:
        return ['script:all'], 'cli_json', True, None
    if n in (1, 2, 3):
        types = sorted({m['type'] for m in cw.modules if m['enabled']})
        if not types: return None
        ty = rng.choice(types); how = rng.choice(['disable', 'remove', 'retarget'])
        for m in [m for m in cw.modules if m['type'] == ty]:
            if how == 'disable': m['enabled'] = False
            elif how == 'remove': cw.modules.remove(m)
            else: m['targets'] = ['cursor'] if ty != 'command' else ['codex']      # a target that is not configured / does not take it
        cw.write()
        return ['cfg:%s_all_%s' % (how, ty)], rng.choice(CONFIRMED_ENTRIES), rng.random() < 0.3, rng.choice([None, None, None, 'vscode', 'codex'])
    return None

def setup_moved_roots(cw, rng):
    """configurations in which a relocation leaves NO usable manifest in the new roots (so that the
    snapshot fallback decides), plus ordinary ones"""
    k = rng.random()
    if k < 0.4:      # only project-scoped outputs: another checkout has no manifest at all
        cw.opts = {'write_agents_global': False, 'write_user_prompts': False, 'write_user_skills': False}
        cw.repo_agents = True; cw.claude = False; cw.zed = rng.random() < 0.5; cw.vscode = rng.random() < 0.3
        if not any(m['type'] == 'instructions' for m in cw.modules):
            cw.modules.append({'id': 'instructions:base', 'type': 'instructions', 'dir': 'modules/instructions/base',
                               'files': {'AGENTS.md': b'# rules\n'}, 'targets': [], 'enabled': True})
        for m in cw.modules:
            if m['type'] == 'instructions': m['targets'] = []; m['enabled'] = True
    elif k < 0.8:    # only codex user scope: a moved codex_home has no manifest at all
        cw.claude = False; cw.zed = False; cw.repo_agents = False; cw.vscode = False
        if not cw.desired(None):
            cw.add_prompt()
        if rng.random() < 0.7:     # codex_home itself is a root (it contains the other roots' directories)
            cw.opts['write_agents_global'] = True
            if not any(m['type'] == 'instructions' for m in cw.modules):
                cw.modules.append({'id': 'instructions:base', 'type': 'instructions', 'dir': 'modules/instructions/base',
                                   'files': {'AGENTS.md': b'# rules\n'}, 'targets': [], 'enabled': True})

def script_moved_roots(st, cw, sb, rng):
    """deploy; relocate (other project / other codex_home / a root switched off); deploy again; ..."""
    if st >= 4: return None
    tags = []
    if st > 0:
        k = rng.random()
        if k < 0.4: tags.append('cfg:' + cw.switch_project())
        elif k < 0.75: tags.append('cfg:' + cw.move_home())
        else:
            o = rng.choice(sorted(cw.opts)); cw.opts[o] = not cw.opts[o]; tags.append('cfg:toggle_option')
        if rng.random() < 0.4:
            tags.append('cfg:' + cw.edit_config())
        cw.write()
    flt = None if rng.random() < 0.75 else 'codex'
    return tags, rng.choice(['cli_json', 'cli_json', 'cli_human_yes', 'mcp', 'tui']), rng.random() < 0.5, flt

def run_cli_stream(ctx, nhist, depth, props, stream='cli_deploy', idempotence=False, script=None, setup=None):
    rng = ctx.rng
    cases = []
    for h in range(nhist):
        sb = Sandbox(ctx.prop.lower() + 'h'); sb.git_init_project()
        try:
            cw = CfgWorld(sb, rng)
            if setup: setup(cw, rng)
            cw.write()
            for _ in range(rng.randrange(0, 3) if script is None else 0):
                user_edit(rng, cw)
            ids = Ids(); base = sb.root
            initial = world_tree(sb)
            prev = initial
            steps = []; trees = [initial]; Ds = []; Rs = []; recs = []
            pending_repeat = False; sstep = 0
            for st in range(depth):
                if pending_repeat:
                    tags = ['repeat']; pending_repeat = False
                    # same filter / same config, confirmed json entry: must be a no-op
                    entry = 'cli_json'; adopt = last[1]; flt = last[2]
                elif script is not None:
                    r_ = script(sstep, cw, sb, rng); sstep += 1      # the script's own step count (repeat steps do not consume one)
                    if r_ is None:
                        break
                    tags, entry, adopt, flt = r_
                else:
                    tags = []
                    if st > 0 and rng.random() < 0.6:
                        tags.append('cfg:' + cw.edit_config()); cw.write()
                    if rng.random() < 0.5:
                        tags.append('user:' + user_edit(rng, cw))
                    flt = rng.choice([None, None, 'codex'] + (['claude_code'] if cw.claude else []) + (['zed'] if cw.zed else []) + (['vscode'] if getattr(cw, 'vscode', False) else []))
                    adopt = rng.random() < 0.35
                    entry = rng.choice(ENTRY)
                before = world_tree(sb)
                lm = latest_managed_of(sb, base)
                nsnap = snapshots_count(sb)
                D = relD(cw.desired(flt), base); R = relR(cw.roots(flt), base)
                plan, code, extra = run_deploy_step(sb, cw, entry, adopt, flt)
                after = world_tree(sb)
                rec = {'stream': stream, 'history': h, 'step': st, 'entry': entry, 'adopt': adopt, 'target': flt, 'tags': tags,
                       'config': {'opts': cw.opts, 'claude': cw.claude, 'modules': [{k: (v if k != 'files' else {a: b.hex() for a, b in v.items()}) for k, v in m.items()} for m in cw.modules]},
                       'before': {p: b.hex() for p, b in before.items()}, 'outcome': code}
                if plan is None or isinstance(code, str) or code is None:
                    ctx.count(stream, key=('unexpected', str(code)[:40]), nontrivial=False, tags=['unexpected_outcome'])
                    ctx.notes.append('history %d step %d: not judged (%s / %s)' % (h, st, str(code)[:80], str(extra.get('plan_error'))[:120]))
                    if before != after:
                        ctx.violation('a failing deploy changed target files', rec)
                    break
                for c in plan:
                    c['path'] = norm_rel(c['path'][len(base):]) if c['path'].startswith(base) else c['path']
                rec['plan'] = [(c['target'], c['op'], c.get('update_kind'), c['path']) for c in plan]
                # plan --json vs the change list echoed by deploy (C04)
                if 'C04' in props and extra.get('deploy_changes') is not None:
                    echoed = sorted((c['target'], c['op'], c.get('update_kind'), norm_rel(c['path'][len(base):]), c.get('before_sha256'), c.get('after_sha256')) for c in extra['deploy_changes'])
                    planned = sorted((c['target'], c['op'], c.get('update_kind'), c['path'], c.get('before_sha256'), c.get('after_sha256')) for c in plan)
                    if echoed != planned:
                        ctx.violation('deploy echoed a change list different from plan --json on the same state', rec)
                for prop, what in oracle_step(props, before, after, D, R, flt, adopt, entry, plan, code, ids, base, lm,
                                              D_all=relD(cw.desired(None), base), R_all=relR(cw.roots(None), base)):
                    ctx.violation(what, rec)
                if tags == ['repeat'] and 'C05' in props:
                    if code != 1 or before != after or snapshots_count(sb) != nsnap:
                        ctx.violation('repeating a successful deploy was not a no-op (outcome %s, snapshots %d -> %d)' % (code, nsnap, snapshots_count(sb)), rec)
                if code == 0 and 'C05' in props:
                    rc2, pdoc, _, _ = sb.cli_json(['plan'] + (['--target', flt] if flt else []))
                    if not (pdoc and pdoc.get('ok') and pdoc['data']['changes'] == []):
                        rec2 = dict(rec, replan=(pdoc or {}).get('data', {}).get('changes'))
                        ctx.violation('plan immediately after a successful deploy is not empty', rec2)
                    rc3, sdoc, _, _ = sb.cli_json(['status'] + (['--target', flt] if flt else []))
                    if sdoc and sdoc.get('ok'):
                        kinds = [d.get('kind') for d in sdoc['data'].get('drift', [])]
                        if 'missing' in kinds or 'modified' in kinds:
                            ctx.violation('status right after a successful deploy reports missing/modified', dict(rec, drift=sdoc['data'].get('drift')))
                    # manifests exact for roots of this run that hold desired files
                    for r in R:
                        mp = r['root'] + '/' + mf_name(r['target'])
                        mine = sorted((d['path'][len(r['root']) + 1:], hashlib.sha256(d['bytes']).hexdigest()) for d in D
                                      if d['target'] == r['target'] and best_root_py(R, d) == r['root'])
                        if mp in after and (mp not in before or before[mp] != after[mp]):
                            try:
                                v = json.loads(after[mp]); got = sorted((e['path'], e['sha256']) for e in v['managed_files'])
                            except Exception:
                                got = None
                            if got != mine or v.get('tool') != r['target'] or v.get('schema_version') != 1:
                                ctx.violation('manifest of %s does not list exactly the root\'s desired files with true hashes' % r['root'], rec)
                        elif mine and mp not in after:
                            ctx.violation('root %s holds desired files but has no manifest after a successful deploy' % r['root'], rec)
                    if idempotence and (script is not None or rng.random() < 0.7):
                        pending_repeat = True; last = (entry, adopt, flt)
                stn, conf = STYLE[entry]
                steps.append('(HEdit %s)' % c_edits(prev, before, ids))
                uni = hist_universe([before, after], [D], [R])
                steps.append('(HDeploy %d %s %s %s %s %s %s %d %s)' % (stn, cq.cbool(conf), cq.cbool(adopt), cq.copt(flt, cq.cstr), c_roots(R),
                             c_desired(D, ids), c_obs_plan(plan, lambda p: p), code, c_obs_after(uni, after, ids)))
                prev = after; recs.append(rec)
                ops = sorted({c['op'] + ':' + str(c.get('update_kind')) for c in plan})
                ctx.count(stream, key=(entry, adopt, flt, code, tuple(ops), tuple(tags)), nontrivial=(len(plan) > 0 or code in (3, 4)),
                          tags=['entry:' + entry, 'outcome:%s' % code] + tags + ['op:' + o for o in ops])
                if h < 1 and st < 2:
                    ctx.sample({'stream': stream, 'entry': entry, 'adopt': adopt, 'target': flt, 'outcome': code, 'plan': rec['plan'][:6]})
            if steps:
                term = cq.cpair(c_disk(initial, ids), cq.clist(steps))
                cases.append((term, {'stream': stream, 'history': h, 'steps': recs}))
        finally:
            sb.close()
    failing = ctx.corr(stream, HEADER, 'check_hist', 'hist_case', cases, shard_chars=40000)
    for c in failing:
        ctx.violation('model and implementation disagree on a deploy history (plan / outcome / disk)', c, no_input=True)
    ctx.measure(stream, 'wfD_wfM_at_every_deploy', HEADER_PREM, 'hist_deploy_premises', 'hist_case', cases, shard_chars=40000)

def best_root_py(R, d):
    best = None
    for r in R:
        if r['target'] == d['target'] and (d['path'] == r['root'] or d['path'].startswith(r['root'] + '/')):
            if best is None or len(r['root'].split('/')) >= len(best.split('/')):
                best = r['root']
    return best

# ===================================================================== full histories: deploy / rollback / bootstrap / evolve restore

import copy

def list_snapshot_ids(sb):
    d = os.path.join(sb.aphome, 'state', 'snapshots')
    if not os.path.isdir(d):
        return []
    ids = [x[:-5] for x in os.listdir(d) if x.endswith('.json')]
    return sorted(ids, key=lambda s: int(s))

def load_snapshot(sb, sid):
    return json.load(open(os.path.join(sb.aphome, 'state', 'snapshots', sid + '.json')))

class HistState:
    """what the harness remembers about a history (for the C06 / C15 oracles)"""
    def __init__(self):
        self.snaps = []        # per ordinal: dict(kind, flt, disk_after, config, adopted:set, touched:set(path)->target, sid)
        self.owned = {}        # path -> {target, root at write time, writing command}
        self.owned_ever = []   # every (target, root, command kind) agentpack ever wrote under
        self.events = []       # (ordinal or None, kind)

def run_hist_stream(ctx, nhist, depth, props, weights, stream='full_hist', tamper=False, kinds_seq=None, simple=False, setup=None, plan_script=None):
    rng = ctx.rng
    cases = []
    kinds = [k for k, wgt in weights.items() for _ in range(wgt)]
    for h in range(nhist):
        sb = Sandbox(ctx.prop.lower() + 'f'); sb.git_init_project()
        try:
            cw = CfgWorld(sb, rng)
            if not cw.opts['write_user_skills'] and rng.random() < 0.7:
                cw.opts['write_user_skills'] = True
            if setup: setup(cw, rng)
            cw.write()
            ids = Ids(); base = sb.root
            for _ in range(rng.randrange(0, 2)):
                user_edit(rng, cw, manifests=tamper)
            initial = world_tree(sb); prev = initial
            steps = []; recs = []; hs = HistState(); burst = 0
            seq = kinds_seq(rng) if kinds_seq else None
            for st in range(len(seq) if seq else depth):
                kind = rng.choice(kinds) if st > 0 else 'deploy'
                if seq:
                    kind = seq[st]
                elif burst > 0 and st > 0:
                    kind = 'rollback'; burst -= 1
                elif kind == 'rollback' and rng.random() < 0.5:
                    burst = rng.randrange(1, 3)      # rollback bursts: redo / sibling rollbacks in a row
                sids = list_snapshot_ids(sb)
                sc = None
                if plan_script is not None:
                    sc = plan_script(st, cw, sb, rng, hs)     # the script performs its own config / user edits
                    if sc is None:
                        break
                    kind = sc['kind']
                if kind == 'rollback' and not sids:
                    kind = 'deploy'
                tags = ['op:' + kind] + (sc.get('tags', []) if sc else [])
                if sc is not None:
                    pass
                elif kind == 'deploy':
                    if st > 0 and simple:
                        tags.append('cfg:' + (cw.add_prompt() if rng.random() < 0.7 else cw.edit_config())); cw.write()
                    elif st > 0 and rng.random() < 0.6:
                        tags.append('cfg:' + cw.edit_config()); cw.write()
                    if rng.random() < 0.35 and not simple:
                        tags.append('user:' + user_edit(rng, cw, manifests=tamper))
                elif rng.random() < 0.3 and not simple:
                    tags.append('user:' + user_edit(rng, cw, manifests=tamper))
                before = world_tree(sb)
                steps.append('(HEdit %s)' % c_edits(prev, before, ids))
                hs.user_changed = getattr(hs, 'user_changed', set()) | {q for q in set(prev) | set(before) if prev.get(q) != before.get(q)}
                rec = {'stream': stream, 'history': h, 'step': st, 'op': kind, 'tags': tags,
                       'config': {'opts': dict(cw.opts), 'claude': cw.claude,
                                  'modules': [{k: (v if k != 'files' else {a: b.hex() for a, b in v.items()}) for k, v in m.items()} for m in cw.modules]},
                       'before': {p: b.hex() for p, b in before.items()}}
                stop = False
                if kind == 'deploy':
                    flt = rng.choice([None, None, None, 'codex'] + (['claude_code'] if cw.claude else []) + (['zed'] if cw.zed else []))
                    adopt = rng.random() < 0.4
                    entry = rng.choice(['cli_json', 'cli_json', 'cli_human_yes', 'mcp', 'tui'])
                    if simple:
                        flt = None; adopt = False
                    if sc is not None:
                        flt = sc.get('flt'); adopt = bool(sc.get('adopt')); entry = sc.get('entry', entry)
                    lm = latest_managed_of(sb, base)
                    D = relD(cw.desired(flt), base); R = relR(cw.roots(flt), base)
                    plan, code, extra = run_deploy_step(sb, cw, entry, adopt, flt)
                    after = world_tree(sb)
                    rec.update({'entry': entry, 'adopt': adopt, 'target': flt, 'outcome': code})
                    if plan is None or isinstance(code, str) or code is None:
                        ctx.notes.append('%s history %d step %d: deploy not judged (%s)' % (stream, h, st, str(code)[:80]))
                        if before != after:
                            ctx.violation('a failing deploy changed target files', rec)
                        break
                    for c in plan:
                        c['path'] = norm_rel(c['path'][len(base):]) if c['path'].startswith(base) else c['path']
                    rec['plan'] = [(c['target'], c['op'], c.get('update_kind'), c['path']) for c in plan]
                    for prop, what in oracle_step(props, before, after, D, R, flt, adopt, entry, plan, code, ids, base, lm,
                                              D_all=relD(cw.desired(None), base), R_all=relR(cw.roots(None), base)):
                        ctx.violation(what, rec)
                    stn, conf = STYLE[entry]
                    uni = hist_universe([before, after], [D], [R])
                    steps.append('(HDeploy %d %s %s %s %s %s %s %d %s)' % (stn, cq.cbool(conf), cq.cbool(adopt), cq.copt(flt, cq.cstr), c_roots(R),
                                 c_desired(D, ids), c_obs_plan(plan, lambda p: p), code, c_obs_after(uni, after, ids)))
                    if code == 0:
                        touched = {c['path']: c['target'] for c in plan}
                        adopted = {c['path'] for c in plan if c.get('update_kind') == 'adopt_update'}
                        for c in plan:
                            if c['op'] == 'delete': hs.owned.pop(c['path'], None)
                        for d in D:     # written now, or found byte-identical while deploying
                            br = best_root_py(R, d)
                            if br is not None:
                                hs.owned[d['path']] = {'target': d['target'], 'root': br, 'kind': 'deploy'}
                                hs.owned_ever.append({'target': d['target'], 'root': br, 'kind0': 'deploy'})
                            else:
                                hs.owned.pop(d['path'], None)
                        hs.snaps.append({'kind': 'deploy', 'flt': flt, 'disk_after': after, 'config': copy.deepcopy((cw.opts, cw.claude, cw.modules)),
                                         'adopted': adopted, 'touched': touched, 'D': D, 'R': R})
                    ctx.count(stream, key=('deploy', entry, adopt, flt, code, tuple(sorted({c['op'] for c in plan}))), nontrivial=len(plan) > 0,
                              tags=tags + ['outcome:%s' % code])
                elif kind == 'bootstrap':
                    rc, pdoc, _, _ = sb.cli_json(['bootstrap', '--scope', 'user', '--dry-run'])
                    rc, doc, out, err = sb.cli_json(['bootstrap', '--scope', 'user', '--yes'])
                    after = world_tree(sb)
                    if not doc or not doc.get('ok'):
                        ctx.notes.append('%s history %d step %d: bootstrap not judged (%s)' % (stream, h, st, out[:120]))
                        if before != after:
                            ctx.violation('a failing bootstrap changed target files', rec)
                        break
                    plan = doc['data'].get('changes', [])
                    for c in plan:
                        c['path'] = norm_rel(c['path'][len(base):]) if c['path'].startswith(base) else c['path']
                    rec['plan'] = [(c['target'], c['op'], c.get('update_kind'), c['path']) for c in plan]
                    new_sids = [x for x in list_snapshot_ids(sb) if x not in sids]
                    R = [{'target': 'codex', 'root': (cw.codex_home + '/skills')[len(base):], 'scan_extras': True}]
                    if cw.claude:
                        R.append({'target': 'claude_code', 'root': cw.claude_cmds[len(base):], 'scan_extras': True})
                    if new_sids:
                        sn = load_snapshot(sb, new_sids[-1])
                        Dsha = [(f['target'], f['path'][len(base):], f['sha256']) for f in sn['managed_files']]
                        hs.last_bootstrap_D = Dsha
                    Dsha = getattr(hs, 'last_bootstrap_D', None)
                    if Dsha is None:
                        # nothing applied and never seen: desired = files reported by the dry run (all creates)
                        Dsha = [(c['target'], c['path'], c['after_sha256']) for c in (pdoc or {}).get('data', {}).get('changes', []) if c.get('after_sha256')]
                        Dsha = [(t, norm_rel(p[len(base):]) if p.startswith(base) else p, s_) for t, p, s_ in Dsha]
                    cD = cq.clist(['(DF %s %s %d)' % (cq.cstr(t), cq.cstr(p), ids.of_sha(s_)) for t, p, s_ in Dsha])
                    uni = hist_universe([before, after], [[{'path': p} for _, p, _ in Dsha]], [R])
                    steps.append('(HBootstrap %s %s %s %s)' % (c_roots(R), cD, c_obs_plan(plan, lambda p: p), c_obs_after(uni, after, ids)))
                    if new_sids:
                        for t, p, _ in Dsha:
                            br = best_root_py(R, {'target': t, 'path': p})
                            if br is not None:
                                hs.owned[p] = {'target': t, 'root': br, 'kind': 'bootstrap'}
                                hs.owned_ever.append({'target': t, 'root': br, 'kind0': 'bootstrap'})
                        hs.snaps.append({'kind': 'bootstrap', 'flt': 'bootstrap', 'disk_after': after, 'config': copy.deepcopy((cw.opts, cw.claude, cw.modules)),
                                         'adopted': {c['path'] for c in plan if c.get('update_kind') == 'adopt_update'},
                                         'touched': {c['path']: c['target'] for c in plan}, 'D': [{'target': t, 'path': p} for t, p, _ in Dsha], 'R': R})
                    ctx.count(stream, key=('bootstrap', len(plan)), nontrivial=len(plan) > 0, tags=tags)
                elif kind == 'rollback':
                    choice = rng.random()
                    if sc is not None and sc.get('to') is not None and sc['to'] < len(sids):
                        ordn = sc['to']; sid = sids[ordn]
                    elif simple:
                        cands = [i for i, sn in enumerate(hs.snaps) if sn['kind'] == 'deploy'] or [0]
                        ordn = rng.choice(cands); sid = sids[ordn]
                    elif choice < 0.8:
                        ordn = rng.randrange(len(sids)); sid = sids[ordn]
                    else:
                        ordn = len(sids) + 3; sid = '12345'
                    dry_first = 'C06' in props and rng.random() < 0.25
                    done_by_dry = False
                    if dry_first:
                        # `--dry-run rollback`: either nothing at all happens (no file, no record) or it is a rollback like any
                        # other — a record that says "rolled back" next to an untouched disk is neither
                        rc, doc, out, err = sb.cli_json(['--dry-run', 'rollback', '--to', sid, '--yes'])
                        after = world_tree(sb)
                        tags.append('rollback:dry_run_first')
                        if after == before and list_snapshot_ids(sb) == sids:
                            tags.append('rollback:dry_run_was_noop')
                        else:
                            done_by_dry = True
                    if not done_by_dry:
                        rc, doc, out, err = sb.cli_json(['rollback', '--to', sid, '--yes'])
                        after = world_tree(sb)
                    ok = bool(doc and doc.get('ok'))
                    rec.update({'to_ordinal': ordn, 'ok': ok, 'dry_run_flag': done_by_dry})
                    uni = hist_universe([before, after], [], [])
                    steps.append('(HRollback %d %s %s)' % (ordn, cq.cbool(ok), c_obs_after(uni, after, ids)))
                    tgt_is_rb = ordn < len(hs.snaps) and hs.snaps[ordn]['kind'] == 'rollback'
                    if not ok and before != after:
                        ctx.violation('a rejected rollback wrote to the target roots', rec)
                    if ok and (ordn >= len(hs.snaps) or tgt_is_rb):
                        ctx.violation('rollback accepted a rollback record / unknown id as target', rec)
                    if ok and 'C02' in props:
                        # rollback deletes only what the HEAD snapshot records beyond the chosen one
                        head = None
                        for i_, sn in enumerate(hs.snaps):
                            if sn['kind'] in ('deploy', 'bootstrap'): head = i_
                            elif sn['kind'] == 'rollback': head = sn['to']
                        if head is not None and ordn < len(hs.snaps):
                            hp = {d['path'] for d in hs.snaps[head]['D']}; sp = {d['path'] for d in hs.snaps[ordn]['D']}
                            for q in sorted(set(before) - set(after)):
                                if not is_manifest_name(os.path.basename(q)) and (q not in hp or q in sp):
                                    ctx.violation('rollback deleted a file the head snapshot does not record (or the chosen one records): %s' % q, dict(rec, path=q))
                    if ok:
                        for vio in oracle_rollback(ctx, props, hs, ordn, before, after, sb, base, rec):
                            pass
                        S = hs.snaps[ordn]
                        # what this rollback itself created, rewrote or deleted counts as touched by agentpack after every earlier
                        # snapshot (a later rollback to one of those must undo it as well)
                        tmap = {d['path']: d['target'] for sn_ in hs.snaps for d in sn_['D']}
                        rb_touched = {p: tmap.get(p) for p in set(before) | set(after)
                                      if before.get(p) != after.get(p) and not is_manifest_name(os.path.basename(p)) and p in tmap}
                        hs.snaps.append({'kind': 'rollback', 'flt': S['flt'], 'disk_after': after, 'config': S['config'], 'adopted': set(), 'touched': rb_touched,
                                         'D': S['D'], 'R': S['R'], 'to': ordn})
                        # ledger: what the snapshot lists is (re)written, what the head listed beyond it is deleted
                        for p in set(before) | set(after):
                            if before.get(p) != after.get(p) and not is_manifest_name(os.path.basename(p)):
                                if p in after:
                                    d0 = next((d for d in S['D'] if d['path'] == p), None)
                                    br = best_root_py(S['R'], d0) if d0 else None
                                    if br is not None:
                                        hs.owned[p] = {'target': d0['target'], 'root': br, 'kind': 'rollback'}
                                else: hs.owned.pop(p, None)
                    ctx.count(stream, key=('rollback', ok, 'rb' if tgt_is_rb else ('unknown' if ordn >= len(sids) else 'snap')), nontrivial=ok, tags=tags + ['rollback_ok:%s' % ok])
                else:   # evolve restore
                    D = relD(cw.desired(None), base)
                    rc, doc, out, err = sb.cli_json(['evolve', 'restore', '--yes'])
                    after = world_tree(sb)
                    if doc is None or (not doc.get('ok') and doc['errors'][0]['code'] not in ('E_CONFIRM_REQUIRED',)):
                        ctx.notes.append('%s history %d step %d: evolve restore not judged (%s)' % (stream, h, st, out[:160]))
                        if before != after:
                            ctx.violation('a failing evolve restore changed target files', rec)
                        break
                    for p in set(before) | set(after):
                        if before.get(p) != after.get(p):
                            if p in before:
                                ctx.violation('evolve restore modified or removed an existing file: %s' % p, rec) if 'C01' in props else None
                            else:
                                d0 = next((d for d in D if d['path'] == p), None)
                                br = best_root_py(relR(cw.roots(None), base), d0) if d0 else None
                                if br is not None:
                                    hs.owned[p] = {'target': d0['target'], 'root': br, 'kind': 'restore'}
                    uni = hist_universe([before, after], [D], [])
                    steps.append('(HRestore %s %s)' % (c_desired(D, ids), c_obs_after(uni, after, ids)))
                    ctx.count(stream, key=('restore', len([p for p in after if p not in before])), nontrivial=after != before, tags=tags)
                if 'C15' in props:
                    oracle_ledger(ctx, hs, cw, after, base, ids, rec)
                hs.user_changed = getattr(hs, 'user_changed', set()) - {q for q in set(before) | set(after) if before.get(q) != after.get(q)}
                prev = after; recs.append(rec)
                if h < 1 and st < 3:
                    ctx.sample({'stream': stream, 'op': kind, 'tags': tags, 'plan': rec.get('plan', [])[:5], 'outcome': rec.get('outcome', rec.get('ok'))})
            if steps:
                cases.append((cq.cpair(c_disk(initial, ids), cq.clist(steps)), {'stream': stream, 'history': h, 'steps': recs}))
        finally:
            sb.close()
    failing = ctx.corr(stream, HEADER, 'check_hist', 'hist_case', cases, shard_chars=40000)
    for c in failing:
        ctx.violation('model and implementation disagree on a history of deploy/bootstrap/rollback/restore (plan / outcome / disk)', c, no_input=True)
    ctx.measure(stream, 'wfD_wfM_at_every_deploy', HEADER_PREM, 'hist_deploy_premises', 'hist_case', cases, shard_chars=40000)
    if 'C06' in props:
        ctx.measure(stream, 'C06_restore_histories_hypotheses', HEADER_PREM, 'hist_c06_instance', 'hist_case', cases, shard_chars=40000)

def oracle_rollback(ctx, props, hs, ordn, before, after, sb, base, rec):
    """C06: every path agentpack touched in a deployment after S has the content/absence it had right after S."""
    if 'C06' not in props:
        return []
    S = hs.snaps[ordn]
    later = hs.snaps[ordn + 1:]
    touched = {}
    adopted = set()
    for sn in later:
        touched.update(sn['touched']); adopted |= sn['adopted']
    # the head at rollback time (replay)
    head = None
    for i, sn in enumerate(hs.snaps):
        if sn['kind'] in ('deploy', 'bootstrap'): head = i
        elif sn['kind'] == 'rollback': head = sn['to']
    H = hs.snaps[head] if head is not None else S
    s_paths = {d['path'] for d in S['D']}
    out = []
    for p, t in sorted(touched.items()):
        want = S['disk_after'].get(p); got = after.get(p)
        if want == got:
            continue
        if is_manifest_name(os.path.basename(p)):
            continue   # manifests judged below
        if p in getattr(hs, 'user_changed', set()) and p not in s_paths and before.get(p) == got:
            continue   # the user (re)created or edited it after agentpack's last touch, and rollback left the user's file alone
        cls = None
        if p in adopted and p not in s_paths:
            cls = 'K6b'
        elif S['flt'] is not None and t != S['flt']:
            cls = 'K6a'
        elif H['flt'] is not None and t != H['flt']:
            cls = 'K6a'
        elif any(sn['flt'] is not None for sn in later) and p not in s_paths and p not in {d['path'] for d in H['D']}:
            cls = 'K6a'
        elif p not in s_paths and want is not None:
            # class K6d: right after S the file lay on disk UNMANAGED (S does not list it: its root was switched off at S).
            # Rollback restores what S records and deletes what the head lists beyond S: such a path, once a later
            # deployment or rollback has touched it, is deleted or stays as it is — it does not get back its content at S
            cls = 'K6d'
        what = 'after rollback %s differs from its state right after the snapshot (%s)' % (p, 'absent then' if want is None else ('missing now' if got is None else 'other bytes'))
        r2 = dict(rec, path=p, cls=cls)
        if cls and ctx.is_known(cls):
            ctx.known_finding(cls, KNOWN_TEXT[cls])
        else:
            ctx.violation(what, r2)
        out.append(p)
    # "... so re-planning S's configuration shows no changes": also a file of S that no later deployment touched (the user
    # edited or removed it meanwhile) holds S's bytes again.  Judged when no target filter is involved (K6a) and S is a deploy.
    if S['kind'] == 'deploy' and S['flt'] is None and H['flt'] is None and not any(sn.get('flt') is not None for sn in later):
        for d in S['D']:
            p = d['path']
            if p in touched or p in out:
                continue
            if after.get(p) != d['bytes']:
                ctx.violation('after rollback %s does not hold the snapshot\'s content although the snapshot manages it (re-planning its '
                              'configuration shows a change)' % p, dict(rec, path=p, cls=None))
    # manifests: those S wrote hold S's version again; manifests first written after S left behind = K6c
    plain = all(sn['kind'] in ('deploy', 'rollback') and sn['flt'] is None and not sn['adopted'] for sn in [S] + later)
    for p in set(before) | set(after):
        if not is_manifest_name(os.path.basename(p)):
            continue
        want = S['disk_after'].get(p); got = after.get(p)
        if want is None and got is not None and any(p == r['root'] + '/' + mf_name(r['target']) for sn in later for r in sn['R']):
            if ctx.is_known('K6c'):
                ctx.known_finding('K6c', KNOWN_TEXT['K6c'])
            else:
                ctx.violation('after rollback a manifest first written after the snapshot is left behind: %s' % p, dict(rec, path=p, cls='K6c'))
        elif want is not None and got is not None and want != got and p not in getattr(hs, 'user_changed', set()):
            # "manifests included": a manifest that existed right after S and that a later deployment rewrote lists
            # what it listed right after S.  Judged on plain histories (no filter, no bootstrap, no adopt: those are K6a/K6b).
            if plain and manifest_listing(want) != manifest_listing(got):
                ctx.violation('after rollback the manifest %s does not list what it listed right after the snapshot' % p, dict(rec, path=p, cls=None))
    return out

def manifest_listing(b):
    try:
        v = json.loads(b)
        return (v.get('schema_version'), v.get('tool'), sorted((e.get('path'), e.get('sha256')) for e in v.get('managed_files', [])))
    except Exception:
        return ('raw', b)

KNOWN_TEXT = {
    'K6a': 'rollback across target-filtered deploys / bootstraps: files of targets the chosen or the head snapshot does not cover are deleted or left behind',
    'K6b': 'rollback after an adopt: the adopted user file is deleted instead of restored to its pre-adopt content',
    'K6c': 'rollback leaves behind a manifest that was first written after the chosen snapshot',
    'K6d': 'a file that lay on disk unmanaged right after S (its root was switched off at S, the file left behind) and that a later deployment or rollback touched does not get back its content at S: rollback deletes it when the head manages it again, and cannot restore it afterwards',
    'K15a': 'bootstrap and deploy sharing a root rewrite the manifest from their own desired state only: files written by the other command drop out of the manifest',
    'K15c': 'evolve restore writes a missing desired file without recording it in the manifest',
    'K15d': 'rollback while a bootstrap is the head: files a deploy wrote after the chosen snapshot stay on disk (the bootstrap head does not record them) but the restored manifests do not list them (same mechanism as K6a)',
}

def oracle_ledger(ctx, hs, cw, after, base, ids, rec):
    """C15: a file agentpack wrote into a root and has not deleted is listed in that root's manifest;
    conversely a manifest never lists a file agentpack neither wrote nor found identical."""
    kind = rec.get('op')
    before = {p: bytes.fromhex(h) for p, h in rec['before'].items()}
    hs.last_writer = getattr(hs, 'last_writer', {})
    for p in set(before) | set(after):
        if before.get(p) != after.get(p) and is_manifest_name(os.path.basename(p)):
            hs.last_writer[p] = kind
    if any(tg.startswith('user:manifest') for tg in rec.get('tags', [])):
        hs.tamper_seen = True
    if getattr(hs, 'tamper_seen', False):
        return      # the user rewrote/removed a manifest in this history: the records are no longer agentpack's alone
    hs.lost = getattr(hs, 'lost', {})
    for p in list(hs.lost):
        if p not in after or p not in hs.owned:
            hs.lost.pop(p)
    for p, o in sorted(hs.owned.items()):
        if p not in after:
            continue
        root = {'target': o['target'], 'root': o['root'], 'scan_extras': False}
        if (o['target'], p) in accepted_entries(after, [root], ids):
            hs.lost.pop(p, None)
            continue
        mp = o['root'] + '/' + mf_name(o['target'])
        lw = hs.last_writer.get(mp)
        if p in hs.lost:
            cls = hs.lost[p]          # it dropped out of the manifest at an earlier step: same cause
        else:
            cls = None
            kinds_here = {x['kind0'] for x in hs.owned_ever if x['root'] == o['root'] and x['target'] == o['target']}
            if o['kind'] == 'restore':
                cls = 'K15c'
            elif {'deploy', 'bootstrap'} <= kinds_here:
                cls = 'K15a'      # a root shared by deploy and bootstrap: its manifest reflects one command's desired state only
            elif kind == 'rollback':
                # the head at rollback time (replay over the records before this rollback's own)
                prior = hs.snaps[:-1] if hs.snaps and hs.snaps[-1]['kind'] == 'rollback' else hs.snaps
                head = None
                for i_, sn in enumerate(prior):
                    if sn['kind'] in ('deploy', 'bootstrap'): head = i_
                    elif sn['kind'] == 'rollback': head = sn['to']
                if head is not None and prior[head]['kind'] == 'bootstrap':
                    cls = 'K15d'  # rollback with a bootstrap as head: it deletes only what the bootstrap recorded
            hs.lost[p] = cls
        r2 = dict(rec, path=p, cls=cls, manifest_last_writer=lw, file_writer=o['kind'])
        if cls and ctx.is_known(cls):
            ctx.known_finding(cls, KNOWN_TEXT[cls])
        else:
            ctx.violation('a file agentpack wrote and has not deleted is not listed in its root\'s manifest: %s' % p, r2)
    # "consequently ... its removal from the configuration is planned as a delete": a successful deploy covering the
    # file's target, with the file's root still among the roots, leaves no file behind that agentpack wrote (and still
    # records) but no longer wants
    if kind == 'deploy' and rec.get('outcome') == 0 and hs.snaps and hs.snaps[-1]['kind'] == 'deploy':
        S_ = hs.snaps[-1]
        Dk_ = {(d['target'], d['path']) for d in S_['D']}
        roots_ = {(r['target'], r['root']) for r in S_['R']}
        for p, o in sorted(hs.owned.items()):
            if (p in after and p not in hs.lost and (o['target'], p) not in Dk_ and o['kind'] in ('deploy', 'rollback')
                    and (S_['flt'] is None or S_['flt'] == o['target']) and (o['target'], o['root']) in roots_):
                ctx.violation('a file agentpack wrote and still records left the configuration, and a successful deploy of its target neither '
                              'planned its delete nor removed it: %s' % p, dict(rec, path=p))
    # converse (C15_listed_is_desired): a manifest (re)written by this deploy / bootstrap lists only files of its desired state
    if kind in ('deploy', 'bootstrap') and hs.snaps and rec.get('plan') is not None:
        Dk = {(d['target'], d['path']) for d in hs.snaps[-1]['D']} if (kind == 'bootstrap' or rec.get('outcome') == 0) else None
        if Dk is not None:
            for r in hs.snaps[-1]['R']:
                mp = r['root'] + '/' + mf_name(r['target'])
                if before.get(mp) != after.get(mp) and mp in after:
                    for t, q in sorted(accepted_entries(after, [r], ids)):
                        if (t, q) not in Dk:
                            ctx.violation('a manifest written by this %s lists a file outside its desired state: %s' % (kind, q), dict(rec, path=q))

def hs_manifest_tampered(hs, rec):
    t = getattr(hs, 'tamper_seen', False)
    if any(tg.startswith('user:manifest') for tg in rec.get('tags', [])):
        hs.tamper_seen = True; t = True
    return t


# ---- directed scripts for run_cli_stream (scenarios the property text names explicitly) ----

CONFIRMED_ENTRIES = ['cli_json', 'cli_human_yes', 'cli_human_prompt_y', 'mcp', 'tui']

def _damage_manifest(rng, r):
    pref = r['root'] + '/' + mf_name(r['target'])
    what = rng.choice(['delete', 'garbage', 'badversion', 'foreign'])
    if what == 'delete':
        if os.path.exists(pref): os.remove(pref)
    elif what == 'garbage': world.write(pref, b'{ nope')
    elif what == 'badversion': world.write(pref, manifest_bytes(r['target'], [], sv=999))
    else: world.write(pref, manifest_bytes('other-tool', []))
    return what

def script_partial_manifest(st, cw, sb, rng):
    """a partly managed world: deploy over several roots, one root loses its manifest, the user replaces a
    deployed file of that root; the next deploy without --adopt must refuse as a whole"""
    if st == 0:
        return ['script:first'], 'cli_json', True, None
    if st == 1:
        roots = [r for r in cw.roots(None) if any(best_root_py(cw.roots(None), d) == r['root'] and d['target'] == r['target'] for d in cw.desired(None))]
        if len(roots) < 1:
            return None
        r = rng.choice(roots)
        what = _damage_manifest(rng, r)
        mine = [d for d in cw.desired(None) if best_root_py(cw.roots(None), d) == r['root'] and d['target'] == r['target']]
        d = rng.choice(mine)
        world.write(d['path'], b'the user took this file over\n')
        if rng.random() < 0.5:
            cw.edit_config(); cw.write()
        return ['script:lost_manifest:' + what, 'script:user_takeover'], rng.choice(CONFIRMED_ENTRIES), False, None
    return None

def script_lost_manifest_idempotence(st, cw, sb, rng):
    """deploy; a used root loses its manifest while its files stay identical; deploy (must restore the manifest);
    the repeat must be a no-op"""
    if st == 0:
        return ['script:first'], 'cli_json', True, None
    if st == 1:
        roots = [r for r in cw.roots(None) if any(best_root_py(cw.roots(None), d) == r['root'] and d['target'] == r['target'] for d in cw.desired(None))]
        if not roots:
            return None
        what = _damage_manifest(rng, rng.choice(roots))
        return ['script:lost_manifest:' + what], 'cli_json', False, None
    return None


def setup_shared_root(cw, rng):
    """codex (scope both, AGENTS.md in the project root) and zed (.rules in the project root) share one root directory"""
    cw.zed = True; cw.repo_agents = True
    cw.modules = [m for m in cw.modules if m['type'] != 'instructions']
    cw.modules.append({'id': 'instructions:base', 'type': 'instructions', 'dir': 'modules/instructions/base',
                       'files': {'AGENTS.md': b'# shared rules\n'}, 'targets': [], 'enabled': True})
    if rng.random() < 0.35:
        # one-sided: only one of the two targets sharing the directory has any output at all, so the other
        # target's roots carry no usable manifest entry and its filtered deploy takes the snapshot fallback
        cw.modules = [m for m in cw.modules if m['type'] == 'instructions']
        cw.modules[0]['targets'] = [rng.choice(['zed', 'codex'])]
        cw.claude = False

def script_shared_root_filter(st, cw, sb, rng):
    """deploy everything, then deploy with --target codex / --target zed while the other target has files in the same directory"""
    if st == 0:
        return ['script:all'], 'cli_json', True, None
    if st in (1, 2, 3):
        if st == 1 and rng.random() < 0.4:
            # the shared directory keeps only ONE legacy-named manifest, owned by one of the two targets
            keep = rng.choice(['codex', 'zed']); other = 'zed' if keep == 'codex' else 'codex'
            pk = cw.project + '/' + mf_name(keep); po = cw.project + '/' + mf_name(other); leg = cw.project + '/' + LEGACY
            if os.path.exists(pk):
                os.rename(pk, leg)
                if os.path.exists(po): os.remove(po)
                return ['script:legacy_only:' + keep], rng.choice(CONFIRMED_ENTRIES), rng.random() < 0.3, None
        if rng.random() < 0.5:
            m = next(m for m in cw.modules if m['type'] == 'instructions')
            m['files']['AGENTS.md'] = rng.choice([b'# shared rules v2\n', b'# other\n', b'# shared rules\n']); cw.write()
        flt = rng.choice(['codex', 'zed', 'codex'] + (['claude_code'] if cw.claude else []))
        return ['script:filtered'], rng.choice(CONFIRMED_ENTRIES), rng.random() < 0.3, flt
    return None
