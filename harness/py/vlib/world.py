"""Configuration / world builders for CLI and MCP scenarios."""
import os, json
from .common import *

def write(path, data):
    os.makedirs(os.path.dirname(path), exist_ok=True)
    if os.path.islink(path):
        os.remove(path)          # the writer replaces a link (possibly dangling) by a regular file
    mode = 'wb' if isinstance(data, (bytes, bytearray)) else 'w'
    with open(path, mode) as f:
        f.write(data)

def write_config(repo_dir, manifest):
    """manifest as a Python dict; written as JSON (a YAML subset)."""
    write(os.path.join(repo_dir, 'agentpack.yaml'), json.dumps(manifest, indent=1))

def codex_instructions_world(sb, content='v1\n', repo_dir=None):
    """one instructions module deployed to <home>/codex_home/AGENTS.md (user scope)."""
    repo = repo_dir or sb.repo
    codex_home = os.path.join(sb.home, 'codex_home')
    os.makedirs(codex_home, exist_ok=True)
    write(os.path.join(repo, 'modules/instructions/base/AGENTS.md'), content)
    man = {'version': 1, 'profiles': {'default': {'include_tags': ['base']}, 'other': {'include_tags': ['base']}},
           'targets': {'codex': {'mode': 'files', 'scope': 'user',
                                 'options': {'codex_home': codex_home, 'write_agents_global': True,
                                             'write_agents_repo_root': False, 'write_user_skills': False,
                                             'write_repo_skills': False, 'write_user_prompts': False}}},
           'modules': [{'id': 'instructions:base', 'type': 'instructions', 'tags': ['base'],
                        'source': {'local_path': {'path': 'modules/instructions/base'}}}]}
    write_config(repo, man)
    return {'codex_home': codex_home, 'out': os.path.join(codex_home, 'AGENTS.md'),
            'manifest': os.path.join(codex_home, '.agentpack.manifest.codex.json'),
            'module_file': os.path.join(repo, 'modules/instructions/base/AGENTS.md')}
