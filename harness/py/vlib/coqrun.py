"""Evaluate the Gallina model on generated cases with vm_compute (sharded coqc runs)."""
import os, re, time, concurrent.futures
from .common import *

SAFE_MAX_LIT = 60000
COQ_PAR = 8   # more parallel coqc processes lose to kernel memory-management contention on this VM

def cN(n):
    assert n >= 0
    return '%d' % n if n < 65536 else hex(n)

def cZ(z):
    return '(%d)%%Z' % z

def cnat(n):
    return '%d%%nat' % n

def cbool(b):
    return 'true' if b else 'false'

def _lit_safe(t):
    for ch in t:
        o = ord(ch)
        if o < 32 and ch not in '\n\t':
            return False
        if o == 127 or 0xD800 <= o <= 0xDFFF:
            return False
    return True

def cstr(t):
    """A Python str (code points) -> Coq term of type str (list N)."""
    if t == '':
        return '[]'
    if _lit_safe(t):
        return '(s "%s")' % t.replace('"', '""')
    return '[' + ';'.join('%d' % ord(c) for c in t) + ']'

def ccodes(codes):
    return '[' + ';'.join('%d' % c for c in codes) + ']'

def cbytes(b):
    """bytes -> Coq list N of byte values (via ascii literal when safe)."""
    if all((32 <= x < 127) or x in (10, 9) for x in b):
        return '(bytes_of_string "%s")' % b.decode('ascii').replace('"', '""')
    return '[' + ';'.join('%d' % x for x in b) + ']'

def clist(items):
    return '[' + '; '.join(items) + ']'

def copt(x, f=lambda v: v):
    return 'None' if x is None else '(Some %s)' % f(x)

def cpair(*xs):
    return '(' + ', '.join(xs) + ')'

def parse_N_list(text):
    m = re.search(r'=\s*(\[.*?\])\s*:\s*list', text, re.S)
    if not m:
        return None
    body = m.group(1)
    return [int(x) for x in re.findall(r'\d+', body)]

def run_shard(args):
    idx, workdir, header, check_fn, case_terms, case_type = args
    fn = os.path.join(workdir, 'cases_%d.v' % idx)
    with open(fn, 'w', encoding='utf-8') as f:
        f.write(header + '\n')
        f.write('Definition cases : list (%s) :=\n  [ %s ].\n' % (case_type, '\n  ; '.join(case_terms)))
        f.write('Eval vm_compute in (failing %s 0 cases).\n' % check_fn)
    t0 = time.time()
    p = run(['coqc', '-noglob', '-Q', COQ, 'AP', fn], cwd=workdir, timeout=1800)
    out = p.stdout.decode('utf-8', 'replace')
    if p.returncode != 0:
        return idx, None, 'coqc failed on %s: %s' % (fn, p.stderr.decode('utf-8', 'replace')[-1500:]), time.time() - t0
    res = parse_N_list(out)
    if res is None:
        return idx, None, 'cannot parse coqc output: %r' % out[-500:], time.time() - t0
    return idx, res, None, time.time() - t0

def eval_cases(workdir, header, check_fn, case_type, case_terms, shard_chars=SAFE_MAX_LIT, log=lambda s: None):
    """Run `failing check_fn` over the case terms, sharded.  Returns (failing_indices, nshards).
    Raises InfraError if coqc itself fails."""
    total_chars = sum(len(t) for t in case_terms)
    shard_chars = max(4000, min(shard_chars, total_chars // COQ_PAR + 1))
    shards = []; cur = []; cur_len = 0; base = 0; bases = []
    for t in case_terms:
        if cur and cur_len + len(t) > shard_chars:
            shards.append(cur); bases.append(base); base += len(cur); cur = []; cur_len = 0
        cur.append(t); cur_len += len(t)
    if cur:
        shards.append(cur); bases.append(base)
    os.makedirs(workdir, exist_ok=True)
    jobs = [(i, workdir, header, check_fn, sh, case_type) for i, sh in enumerate(shards)]
    failing = []
    t0 = time.time()
    with concurrent.futures.ThreadPoolExecutor(max_workers=COQ_PAR) as ex:
        for idx, res, err, dt in ex.map(run_shard, jobs):
            if err:
                raise InfraError(err)
            failing.extend(bases[idx] + r for r in res)
    log('coq eval %s: %d cases in %d shards, %.1fs, %d failing' % (check_fn, len(case_terms), len(shards), time.time() - t0, len(failing)))
    return sorted(failing), len(shards)

def eval_terms(workdir, header, terms, name='q'):
    """Evaluate arbitrary terms (for diagnostics); returns raw coqc output."""
    os.makedirs(workdir, exist_ok=True)
    fn = os.path.join(workdir, name + '.v')
    with open(fn, 'w', encoding='utf-8') as f:
        f.write(header + '\n')
        for t in terms:
            f.write('Eval vm_compute in (%s).\n' % t)
    p = run(['coqc', '-noglob', '-Q', COQ, 'AP', fn], cwd=workdir, timeout=600)
    return p.stdout.decode('utf-8', 'replace') + p.stderr.decode('utf-8', 'replace')
