"""Shared paths, seeding, subprocess helpers."""
import os, sys, json, subprocess, time, random, hashlib, shutil, tempfile, fcntl

VERIF = os.path.abspath(os.path.join(os.path.dirname(__file__), '..', '..', '..'))
REPO = os.environ.get('VERIF_REPO', '/repo')
COQ = os.path.join(VERIF, 'coq')
BUILD = os.path.join(VERIF, '.build')
TARGET_DIR = os.path.join(BUILD, 'target')
AGENTPACK_BIN = os.path.join(TARGET_DIR, 'debug', 'agentpack')
AVH_BIN = os.path.join(TARGET_DIR, 'debug', 'avh')
EVIDENCE = os.path.join(VERIF, 'evidence')
CORPUS = os.path.join(VERIF, 'corpus')
SCRATCH_BASE = os.path.join(BUILD, 'scratch')
HOOK_CFG = '--cfg agentpack_verif'
NCPU = min(16, os.cpu_count() or 4)

def seed_from_env():
    try:
        return int(os.environ.get('VERIF_SEED', '20260926'))
    except ValueError:
        return 20260926

def tier_from_env(default='quick'):
    t = os.environ.get('VERIF_TIER', default)
    return t if t in ('quick', 'thorough') else default

def sub_env(extra=None):
    env = dict(os.environ)
    env.update({'CARGO_NET_OFFLINE': 'true', 'CARGO_TARGET_DIR': TARGET_DIR,
                'RUSTFLAGS': HOOK_CFG})
    if extra:
        env.update(extra)
    return env

def run(cmd, cwd=None, env=None, timeout=None, input=None, check=False):
    p = subprocess.run(cmd, cwd=cwd, env=env, timeout=timeout, input=input,
                       stdout=subprocess.PIPE, stderr=subprocess.PIPE)
    if check and p.returncode != 0:
        raise RuntimeError('command failed: %r\n%s\n%s' % (cmd, p.stdout.decode('utf-8', 'replace')[-4000:],
                                                            p.stderr.decode('utf-8', 'replace')[-4000:]))
    return p

class Lock:
    def __init__(self, name):
        os.makedirs(BUILD, exist_ok=True)
        self.path = os.path.join(BUILD, name + '.lock')
    def __enter__(self):
        self.f = open(self.path, 'w')
        fcntl.flock(self.f, fcntl.LOCK_EX)
        return self
    def __exit__(self, *a):
        fcntl.flock(self.f, fcntl.LOCK_UN)
        self.f.close()

def new_scratch(tag):
    os.makedirs(SCRATCH_BASE, exist_ok=True)
    return tempfile.mkdtemp(prefix=tag + '-', dir=SCRATCH_BASE)

def rm_scratch(path):
    if path and path.startswith(SCRATCH_BASE):
        shutil.rmtree(path, ignore_errors=True)

def sha256_hex(b):
    return hashlib.sha256(b).hexdigest()

class InfraError(Exception):
    pass
