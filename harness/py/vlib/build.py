"""Build the implementation (hooked agentpack binary + avh harness) and the Coq closure."""
import os, subprocess, time, re
from .common import *

def build_impl(log):
    """cargo build of /repo's current working tree with the hook cfg, then the harness crate.
    cargo's own change detection decides what is rebuilt."""
    with Lock('cargo'):
        t0 = time.time()
        p = run(['cargo', 'build', '--offline', '--quiet'], cwd=REPO, env=sub_env(), timeout=1800)
        if p.returncode != 0:
            raise InfraError('cargo build of /repo failed:\n' + p.stderr.decode('utf-8', 'replace')[-3000:])
        hdir = os.path.join(VERIF, 'harness', 'rs')
        lock_src = os.path.join(REPO, 'Cargo.lock')
        lock_dst = os.path.join(hdir, 'Cargo.lock')
        try:
            if open(lock_src, 'rb').read() != open(lock_dst, 'rb').read():
                shutil.copy(lock_src, lock_dst)
        except FileNotFoundError:
            shutil.copy(lock_src, lock_dst)
        p = run(['cargo', 'build', '--offline', '--quiet'], cwd=hdir, env=sub_env(), timeout=1800)
        if p.returncode != 0:
            raise InfraError('cargo build of harness failed:\n' + p.stderr.decode('utf-8', 'replace')[-3000:])
        log('impl build %.1fs' % (time.time() - t0))
    return AGENTPACK_BIN, AVH_BIN

def gen_tables(log):
    p = run(['python3', os.path.join(VERIF, 'tools', 'gen_tables.py'), REPO,
             os.path.join(COQ, 'Gen', 'Tables.v')], timeout=120)
    if p.returncode != 0:
        return False, p.stdout.decode('utf-8', 'replace') + p.stderr.decode('utf-8', 'replace')
    return True, p.stdout.decode('utf-8', 'replace')

def coq_make(targets, log, clean=False):
    """Full .vo build (never -vos) of the given targets.  Returns (ok, output)."""
    with Lock('coq'):
        t0 = time.time()
        if clean:
            for t in targets:
                try:
                    os.remove(os.path.join(COQ, t))
                except FileNotFoundError:
                    pass
        p = run([os.path.join(COQ, 'mk.sh')] + list(targets), cwd=COQ, timeout=3000)
        out = p.stdout.decode('utf-8', 'replace') + p.stderr.decode('utf-8', 'replace')
        log('coq make %s: rc=%d %.1fs' % (' '.join(targets), p.returncode, time.time() - t0))
        return p.returncode == 0, out

FORBIDDEN = re.compile(r'\b(Admitted|admit|Axiom|Axioms|Parameter|Parameters|Conjecture|Conjectures|'
                       r'Admit Obligations|bypass_check)\b|Unset Guard Checking|Unset Positivity Checking|'
                       r'Unset Universe Checking|-type-in-type|-impredicative-set')
TOPLEVEL_VAR = re.compile(r'^\s*(Variable|Variables|Hypothesis|Hypotheses)\b')

def strip_comments(src):
    out = []; depth = 0; i = 0; n = len(src); instr = False
    while i < n:
        if not instr and src.startswith('(*', i):
            depth += 1; i += 2; continue
        if not instr and depth > 0 and src.startswith('*)', i):
            depth -= 1; i += 2; continue
        c = src[i]
        if depth == 0:
            if c == '"':
                instr = not instr
            out.append(c)
        elif c == '\n':
            out.append(c)
        i += 1
    return ''.join(out)

def closure_files(targets):
    """.v files the given targets (e.g. Props/C05.vo) depend on, transitively (AP.* requires)."""
    seen = []; todo = [t[:-1] if t.endswith('.vo') else t for t in targets]
    while todo:
        f = todo.pop()
        if f in seen or not os.path.exists(os.path.join(COQ, f)):
            continue
        seen.append(f)
        src = strip_comments(open(os.path.join(COQ, f), encoding='utf-8').read())
        for sent in re.split(r'\.(?:\s+|$)', src):
            toks = sent.split()
            if 'Require' not in toks:
                continue
            from_ap = len(toks) >= 2 and toks[0] == 'From' and toks[1] == 'AP'
            for tok in toks[toks.index('Require') + 1:]:
                if tok in ('Import', 'Export'):
                    continue
                if tok.startswith('AP.'):
                    tok = tok[3:]
                elif not from_ap:
                    continue
                if re.fullmatch(r'(Base|Gen|Model|Proofs|Props|Corr)\.\w+', tok):
                    todo.append(tok.replace('.', '/') + '.v')
    return sorted(seen)

def audit_sources(targets=None):
    """grep the development (the dependency closure of `targets`, or everything) for forbidden
    constructs.  Returns list of findings."""
    bad = []
    if targets:
        files = [(os.path.dirname(f), os.path.basename(f)) for f in closure_files(targets)]
    else:
        files = []
        for d in ('Base', 'Gen', 'Model', 'Proofs', 'Props', 'Corr'):
            dd = os.path.join(COQ, d)
            if os.path.isdir(dd):
                files += [(d, fn) for fn in sorted(os.listdir(dd)) if fn.endswith('.v')]
    for d, fn in files:
        dd = os.path.join(COQ, d)
        if True:
            if not fn.endswith('.v'):
                continue
            src = strip_comments(open(os.path.join(dd, fn), encoding='utf-8').read())
            # string literals are data, not vernacular
            nostr = re.sub(r'"[^"]*"', '""', src)
            depth = 0
            for ln, line in enumerate(nostr.split('\n'), 1):
                if FORBIDDEN.search(line):
                    bad.append('%s/%s:%d: %s' % (d, fn, ln, line.strip()))
                if re.match(r'^\s*(Section|Module)\b', line) and not re.search(r':=', line):
                    depth += 1
                if re.match(r'^\s*End\b', line):
                    depth = max(0, depth - 1)
                if depth == 0 and TOPLEVEL_VAR.match(line):
                    bad.append('%s/%s:%d: top-level %s' % (d, fn, ln, line.strip()))
    for fn in ('_CoqProject', 'mk.sh'):
        src = open(os.path.join(COQ, fn)).read()
        if re.search(r'type-in-type|impredicative-set|-vos|-vok|-noinit', src):
            bad.append('%s: forbidden flag' % fn)
    return bad

ALLOWED_AXIOMS = set()   # property theorems are expected to be closed under the global context

def theorem_names(prop):
    path = os.path.join(COQ, 'Props', prop + '.v')
    src = strip_comments(open(path, encoding='utf-8').read())
    return re.findall(r'^\s*(?:Theorem|Corollary)\s+(%s_\w+)' % prop, src, re.M)

def print_assumptions(prop, log):
    """Run coqc on a generated file printing the assumptions of every property theorem.
    Returns dict name -> list of axioms ([] = closed)."""
    names = theorem_names(prop)
    d = new_scratch('audit')
    try:
        fn = os.path.join(d, 'Audit.v')
        with open(fn, 'w') as f:
            f.write('From AP Require Import Props.%s.\n' % prop)
            for nm in names:
                f.write('Goal True. idtac "@@ %s". exact I. Qed.\nPrint Assumptions %s.\n' % (nm, nm))
        p = run(['coqc', '-Q', COQ, 'AP', fn], cwd=d, timeout=600)
        out = p.stdout.decode('utf-8', 'replace')
        if p.returncode != 0:
            raise InfraError('Print Assumptions run failed: ' + p.stderr.decode('utf-8', 'replace')[-2000:])
        res = {}
        cur = None
        for line in out.split('\n'):
            if line.startswith('@@ '):
                cur = line[3:].strip(); res[cur] = []
            elif cur is not None:
                t = line.strip()
                if not t or t == 'Closed under the global context' or t == 'Axioms:':
                    continue
                m = re.match(r'^([\w\.\']+)\s*:', t)
                if m:
                    res[cur].append(m.group(1))
        for nm in names:
            res.setdefault(nm, ['<missing>'])
        return res
    finally:
        rm_scratch(d)
