"""Drivers for the implementation: the avh JSON-lines process and the CLI in a sandbox."""
import os, json, subprocess, shutil
from .common import *

class Avh:
    def __init__(self, env=None, cwd=None):
        e = dict(os.environ)
        if env: e = dict(env)
        self.p = subprocess.Popen([AVH_BIN], stdin=subprocess.PIPE, stdout=subprocess.PIPE, env=e, cwd=cwd)
    def call(self, req):
        self.p.stdin.write((json.dumps(req) + '\n').encode('utf-8'))
        self.p.stdin.flush()
        line = self.p.stdout.readline()
        if not line:
            raise InfraError('avh died on request %r' % (req.get('op'),))
        return json.loads(line)
    def close(self):
        try:
            self.p.stdin.close(); self.p.wait(timeout=10)
        except Exception:
            self.p.kill()
    def __enter__(self): return self
    def __exit__(self, *a): self.close()

def hexs(b):
    return {'hex': b.hex()}

class Sandbox:
    """HOME / AGENTPACK_HOME / project dir under a scratch root."""
    def __init__(self, tag='sb', machine='m1'):
        self.root = new_scratch(tag)
        self.home = os.path.join(self.root, 'home')
        self.aphome = os.path.join(self.root, 'aphome')
        self.project = os.path.join(self.root, 'project')
        self.canary = os.path.join(self.root, 'canary')
        for d in (self.home, self.aphome, self.project, self.canary):
            os.makedirs(d)
        with open(os.path.join(self.canary, 'keep.txt'), 'w') as f:
            f.write('canary\n')
        self.machine = machine
        self.repo = os.path.join(self.aphome, 'repo')
    def env(self, extra=None):
        e = {k: v for k, v in os.environ.items() if k not in ('CODEX_HOME', 'AGENTPACK_HOME', 'AGENTPACK_FSYNC')}
        e.update({'HOME': self.home, 'AGENTPACK_HOME': self.aphome, 'AGENTPACK_MACHINE_ID': self.machine,
                  'GIT_CONFIG_GLOBAL': os.path.join(self.root, 'gitconfig'), 'GIT_CONFIG_NOSYSTEM': '1',
                  'GIT_AUTHOR_NAME': 'v', 'GIT_AUTHOR_EMAIL': 'v@example.com',
                  'GIT_COMMITTER_NAME': 'v', 'GIT_COMMITTER_EMAIL': 'v@example.com', 'NO_COLOR': '1',
                  # the sandbox lives under /verif/.build and /verif is a git repository: a sandbox project that is not
                  # (or no longer) a repository of its own must not resolve to /verif as its project root
                  'GIT_CEILING_DIRECTORIES': os.path.realpath(self.root) + ':' + self.root})
        if extra: e.update(extra)
        return e
    def git_init_project(self):
        run(['git', 'init', '-q', self.project], env=self.env())
    def cli(self, args, input=None, extra_env=None, timeout=120, cwd=None):
        p = run([AGENTPACK_BIN] + list(args), cwd=cwd or self.project, env=self.env(extra_env),
                input=input, timeout=timeout)
        return p
    def cli_json(self, args, **kw):
        p = self.cli(list(args) + ['--json'], **kw)
        out = p.stdout.decode('utf-8', 'replace')
        try:
            doc = json.loads(out)
        except Exception:
            doc = None
        return p.returncode, doc, out, p.stderr.decode('utf-8', 'replace')
    def snapshot(self, sub=None):
        """path -> bytes (files) / '<dir>' / ('link', target) for the whole sandbox (or a subdir)."""
        base = sub or self.root
        snap = {}
        for dp, dns, fns in os.walk(base, followlinks=False):
            for dn in list(dns):
                p = os.path.join(dp, dn)
                if os.path.islink(p):
                    snap[p] = ('link', os.readlink(p)); dns.remove(dn)
                else:
                    snap[p] = '<dir>'
            for fn in fns:
                p = os.path.join(dp, fn)
                if os.path.islink(p):
                    snap[p] = ('link', os.readlink(p))
                else:
                    try:
                        with open(p, 'rb') as f: snap[p] = f.read()
                    except OSError as e:
                        snap[p] = ('unreadable', str(e))
        return snap
    def close(self):
        # make everything writable again first
        for dp, dns, fns in os.walk(self.root):
            try: os.chmod(dp, 0o755)
            except OSError: pass
        rm_scratch(self.root)

def snap_diff(a, b):
    """returns dict path -> (before, after) for changed/added/removed entries"""
    d = {}
    for p in set(a) | set(b):
        if a.get(p) != b.get(p):
            d[p] = (a.get(p), b.get(p))
    return d

class Mcp:
    """JSON-RPC stdio client for `agentpack mcp serve` (newline-delimited JSON)."""
    def __init__(self, sb, extra_env=None):
        self.sb = sb
        self.bad_lines = []
        self.p = subprocess.Popen([AGENTPACK_BIN, 'mcp', 'serve'], cwd=sb.project, env=sb.env(extra_env),
                                  stdin=subprocess.PIPE, stdout=subprocess.PIPE, stderr=subprocess.DEVNULL)
        self.id = 0
        self._send({'jsonrpc': '2.0', 'id': self._next(), 'method': 'initialize',
                    'params': {'protocolVersion': '2025-06-18', 'capabilities': {},
                               'clientInfo': {'name': 'verif', 'version': '0'}}})
        self.init = self._read()
        self._send({'jsonrpc': '2.0', 'method': 'notifications/initialized', 'params': {}})
    def _next(self):
        self.id += 1; return self.id
    def _send(self, obj):
        self.p.stdin.write((json.dumps(obj) + '\n').encode()); self.p.stdin.flush()
    def _read(self):
        while True:
            line = self.p.stdout.readline()
            if not line:
                raise InfraError('mcp server closed stdout')
            try:
                msg = json.loads(line)
            except Exception:
                self.bad_lines.append(line[:300].decode('utf-8', 'replace')); continue
            if not isinstance(msg, dict) or msg.get('jsonrpc') != '2.0':
                self.bad_lines.append(line[:300].decode('utf-8', 'replace')); continue
            return msg
    def request(self, method, params=None):
        rid = self._next()
        self._send({'jsonrpc': '2.0', 'id': rid, 'method': method, 'params': params or {}})
        while True:
            msg = self._read()
            if msg.get('id') == rid:
                return msg
    def call(self, name, args):
        """returns (rpc_message, envelope or None)"""
        msg = self.request('tools/call', {'name': name, 'arguments': args})
        env = None
        try:
            env = msg['result'].get('structuredContent')
            if env is None:
                env = json.loads(msg['result']['content'][0]['text'])
        except Exception:
            pass
        return msg, env
    def close(self):
        try:
            self.p.stdin.close(); self.p.wait(timeout=5)
        except Exception:
            self.p.kill()
            try: self.p.wait(timeout=5)
            except Exception: pass
