"""Shared machinery of the contract-layer checks (C08, C09, C10):

* the command catalogue read from the binary's own `help --json`, cross-checked with Gen/Tables.v;
* a catalogue of *worlds* (sandbox states in which each command would write) that can be reset to
  their pristine state at the same absolute paths;
* whole-sandbox snapshots with semantic git digests (refs, index entries, config);
* the invocation matrix (leaf command x flag subset x option values);
* `check_envelope(doc, rc, stdout, expect_id)` — the generic `--json` envelope validator that other
  properties' harnesses can call on every invocation they make;
* the facts vector of an invocation for the Gallina model (Model/Dispatch.v).
"""
import os, re, json, shutil, stat, subprocess, itertools, threading
from .common import *
from .impl import Sandbox, Mcp, snap_diff
from . import world as W
from . import coqrun as cq

# --------------------------------------------------------------------------- Gen/Tables.v reader

_GEN_CACHE = {}

def _decode_codes(txt):
    return ''.join(chr(int(x)) for x in re.findall(r'\d+', txt))

def gen_tables():
    """Parse the regenerated coq/Gen/Tables.v (the constants the theorems range over)."""
    path = os.path.join(COQ, 'Gen', 'Tables.v')
    key = os.path.getmtime(path)
    if _GEN_CACHE.get('key') == key:
        return _GEN_CACHE['val']
    src = open(path, encoding='utf-8').read()
    out = {}
    for m in re.finditer(r'Definition (\w+) : list str :=\s*\[(.*?)\]\.', src, re.S):
        out[m.group(1)] = [_decode_codes(x) for x in re.findall(r'\[([0-9;]*)\]', m.group(2))]
    for name in ('default_guidance', 'spec_guidance'):
        m = re.search(r'Definition %s : list \(str \* \(str \* list str\)\) :=\s*\[(.*?)\]\.\n' % name, src, re.S)
        tab = {}
        if m:
            for em in re.finditer(r'\(\[([0-9;]*)\], \(\[([0-9;]*)\], \[((?:\[[0-9;]*\](?:; )?)*)\]\)\)', m.group(1)):
                tab[_decode_codes(em.group(1))] = (_decode_codes(em.group(2)),
                                                   [_decode_codes(x) for x in re.findall(r'\[([0-9;]*)\]', em.group(3))])
        out[name] = tab
    m = re.search(r'Definition mcp_mutating_tools : list \(str \* str\) :=\s*\[(.*?)\]\.\n', src, re.S)
    out['mcp_mutating_tools'] = {}
    if m:
        for em in re.finditer(r'\(\[([0-9;]*)\], \[([0-9;]*)\]\)', m.group(1)):
            out['mcp_mutating_tools'][_decode_codes(em.group(1))] = _decode_codes(em.group(2))
    m = re.search(r'Definition json_schema_version : N := (\d+)\.', src)
    out['json_schema_version'] = int(m.group(1)) if m else None
    _GEN_CACHE['key'] = key; _GEN_CACHE['val'] = out
    return out

# --------------------------------------------------------------------------- help --json catalogue

class Catalogue:
    def __init__(self, doc):
        d = doc['data']
        self.commands = {c['id']: c for c in d['commands']}
        self.mutating = list(d['mutating_commands'])
        self.targets = list(d['targets'])
        self.global_args = {a['id']: a for a in d['global_args']}
    def leaf_ids(self):
        """ids of clap leaf commands (the legacy 'doctor --fix' entry is a flag variant, not a leaf)"""
        return sorted(i for i, c in self.commands.items() if ' --' not in i)
    def flags_of(self, cid):
        return [a['long'] for a in self.commands[cid]['args'] if a['kind'] == 'flag']
    def supports_json(self, cid):
        return self.commands[cid]['supports_json']
    def path_of(self, cid):
        return self.commands[cid]['path']

def load_catalogue():
    sb = Sandbox('cat')
    try:
        sb.git_init_project()
        rc, doc, out, err = sb.cli_json(['help'])
        if rc != 0 or not doc or not doc.get('ok'):
            raise InfraError('help --json failed: rc=%s %s %s' % (rc, out[:300], err[:300]))
        return Catalogue(doc), doc
    finally:
        sb.close()

def cross_check_catalogue(cat, gen):
    """Agreement of the three sources: help --json, command_path (Gen.catalogue_ids) and
    MUTATING_COMMAND_IDS (Gen.mutating_ids).  Returns a list of problems (strings)."""
    probs = []
    gcat = set(gen['catalogue_ids']); hcat = set(cat.commands)
    if cat.mutating != gen['mutating_ids']:
        probs.append('help --json data.mutating_commands %r differs from MUTATING_COMMAND_IDS in source %r' % (cat.mutating, gen['mutating_ids']))
    if set(gen['guard_site_ids']) != set(gen['mutating_ids']):
        probs.append('guard call-site literals %r differ from MUTATING_COMMAND_IDS' % sorted(set(gen['guard_site_ids']) ^ set(gen['mutating_ids'])))
    for i in sorted(hcat - gcat):
        probs.append('help --json lists command %r that Cli::command_path cannot produce' % i)
    for i in sorted(gcat - hcat):
        # command_path may append a flag to a leaf command: "<leaf> --<flag>" with <flag> a flag of <leaf>
        m = re.match(r'^(.*) --([\w-]+)$', i)
        if not (m and m.group(1) in cat.commands and m.group(2) in cat.flags_of(m.group(1))):
            probs.append('Cli::command_path produces %r which help --json does not list (nor as a flag variant)' % i)
    for i in cat.mutating:
        if i not in gcat:
            probs.append('mutating id %r is not a command id that command_path can produce' % i)
    for i, c in cat.commands.items():
        if c['mutating'] != (i in cat.mutating):
            probs.append('help --json commands[%r].mutating=%r disagrees with data.mutating_commands' % (i, c['mutating']))
        if c['supports_json'] == (i in gen['json_unsupported_ids']):
            probs.append('help --json commands[%r].supports_json=%r disagrees with source' % (i, c['supports_json']))
        if ' --' not in i and c['path'] != i.split(' '):
            probs.append('help --json commands[%r].path=%r is not the id split on spaces' % (i, c['path']))
    return probs

# --------------------------------------------------------------------------- snapshots

def parse_git_index(raw):
    """semantic content of a git index file (v2/v3): sorted (path, mode, sha, stage) entries.  The
    stat cache (ctime/mtime/dev/ino/uid/gid/size) and extensions are not state: git refreshes them
    on plain reads such as `git status`.  Returns None when the format is not understood."""
    try:
        if raw[:4] != b'DIRC':
            return None
        ver = int.from_bytes(raw[4:8], 'big'); n = int.from_bytes(raw[8:12], 'big')
        if ver not in (2, 3):
            return None
        off = 12; out = []
        for _ in range(n):
            mode = int.from_bytes(raw[off + 24:off + 28], 'big')
            sha = raw[off + 40:off + 60]
            flags = int.from_bytes(raw[off + 60:off + 62], 'big')
            p = off + 62
            if ver == 3 and flags & 0x4000:
                p += 2
            end = raw.index(b'\0', p)
            path = raw[p:end]
            out.append((path, mode, sha, (flags >> 12) & 3))
            elen = end - off
            off = off + ((elen + 8) // 8) * 8      # entries are padded with 1-8 NULs to a multiple of 8
        return tuple(sorted(out))
    except Exception:
        return None

class Snap(dict):
    """path -> bytes | ('dir', mode) | ('link', target) | ('index', entries); .raw_index keeps the raw
    bytes of git index files so that a world can be restored exactly."""
    def __init__(self):
        super().__init__(); self.raw_index = {}

def full_snapshot(root):
    snap = Snap()
    for dp, dns, fns in os.walk(root, followlinks=False):
        in_git = os.path.basename(dp) == '.git' or (dp.endswith('.git') and 'HEAD' in fns and 'objects' in dns)
        for dn in list(dns):
            p = os.path.join(dp, dn)
            if os.path.islink(p):
                snap[p] = ('link', os.readlink(p)); dns.remove(dn)
            else:
                try:
                    snap[p] = ('dir', stat.S_IMODE(os.lstat(p).st_mode))
                except OSError as e:
                    snap[p] = ('dir?', str(e))
        for fn in fns:
            p = os.path.join(dp, fn)
            if os.path.islink(p):
                snap[p] = ('link', os.readlink(p))
            else:
                try:
                    with open(p, 'rb') as f:
                        data = f.read()
                except OSError as e:
                    snap[p] = ('unreadable', e.errno); continue
                if in_git and fn == 'index':
                    ent = parse_git_index(data)
                    if ent is not None:
                        snap.raw_index[p] = data
                        snap[p] = ('index', ent)
                        continue
                snap[p] = data
    return snap

def restore_world(root, before, after):
    """Undo the difference between two snapshots of the same tree (cheap reset: O(delta))."""
    delta = [p for p in set(before) | set(after) if before.get(p) != after.get(p)]
    delta += [p for p in set(before.raw_index) | set(after.raw_index)
              if before.raw_index.get(p) != after.raw_index.get(p) and p not in delta]
    if not delta:
        return 0
    def chmod_parents(p):
        q = os.path.dirname(p)
        while q.startswith(root) and len(q) >= len(root):
            try:
                m = stat.S_IMODE(os.lstat(q).st_mode)
                if m & 0o300 != 0o300: os.chmod(q, m | 0o700)
            except OSError:
                pass
            if q == root: break
            q = os.path.dirname(q)
    # removals first (deepest first)
    for p in sorted(delta, key=lambda x: -x.count(os.sep)):
        b = before.get(p)
        if os.path.lexists(p) and (b is None or type(b) != type(after.get(p)) or (isinstance(b, tuple) and isinstance(after.get(p), tuple) and b[0] != after.get(p)[0])):
            chmod_parents(p)
            if os.path.isdir(p) and not os.path.islink(p):
                shutil.rmtree(p, ignore_errors=True)
            else:
                try: os.remove(p)
                except OSError: pass
    # (re)creations, shallowest first
    dirs_modes = []
    for p in sorted(delta, key=lambda x: x.count(os.sep)):
        b = before.get(p)
        if b is None:
            continue
        chmod_parents(p)
        if isinstance(b, tuple) and b[0] == 'dir':
            os.makedirs(p, exist_ok=True); dirs_modes.append((p, b[1]))
        elif isinstance(b, tuple) and b[0] == 'link':
            if os.path.lexists(p): os.remove(p)
            os.symlink(b[1], p)
        elif isinstance(b, tuple) and b[0] == 'index':
            os.makedirs(os.path.dirname(p), exist_ok=True)
            with open(p, 'wb') as f: f.write(before.raw_index[p])
        elif isinstance(b, bytes):
            os.makedirs(os.path.dirname(p), exist_ok=True)
            if os.path.lexists(p):
                try: os.chmod(p, 0o644)
                except OSError: pass
            with open(p, 'wb') as f: f.write(b)
    for p, m in reversed(dirs_modes):
        try: os.chmod(p, m)
        except OSError: pass
    return len(delta)

def diff_paths(delta, root):
    out = []
    for p in delta:
        out.append(os.path.relpath(p, root))
    return sorted(out)

def classify_delta(delta, w):
    """areas touched by a delta: config_repo, targets, state/snapshots, state/logs, cache, project, home, canary, other"""
    areas = set()
    for p in delta:
        q = p
        rel = os.path.relpath(q, w.sb.root)
        if rel.startswith('aphome/repo'): areas.add('config_repo')
        elif rel.startswith('aphome/state/snapshots'): areas.add('snapshots')
        elif rel.startswith('aphome/state/logs'): areas.add('logs')
        elif rel.startswith('aphome/state'): areas.add('state')
        elif rel.startswith('aphome/cache'): areas.add('cache')
        elif rel.startswith('aphome'): areas.add('aphome')
        elif rel.startswith('project'): areas.add('project')
        elif rel.startswith('home'): areas.add('home')
        elif rel.startswith('canary'): areas.add('canary')
        elif rel.startswith('remote.git') or rel.startswith('upstream'): areas.add('remotes')
        else: areas.add('other')
    return areas

def only_cache_git(delta, w):
    """K8a: is the delta confined to AGENTPACK_HOME/cache/git/** (auto-fetched checkouts)?"""
    base = os.path.join(w.sb.aphome, 'cache')
    if not delta:
        return False
    for p in delta:
        q = p
        if not (q == base or q.startswith(os.path.join(base, 'git')) or q == os.path.join(base, 'git')):
            return False
    return True

# --------------------------------------------------------------------------- worlds

def _git(cwd, *args, env=None, check=True):
    p = subprocess.run(['git'] + list(args), cwd=cwd, env=env, stdout=subprocess.PIPE, stderr=subprocess.PIPE)
    if check and p.returncode != 0:
        raise InfraError('git %s failed in %s: %s' % (' '.join(args), cwd, p.stderr.decode('utf-8', 'replace')[-500:]))
    return p.stdout.decode('utf-8', 'replace')

SKILL_MD = '---\nname: helper\ndescription: helper skill used by the verification worlds\n---\n\n# helper\n\nbody v1\n'

def base_manifest(sb, extra_modules=(), targets=None):
    man = {
        'version': 1,
        'profiles': {'default': {'include_tags': ['base']}, 'other': {'include_tags': ['other']}},
        'targets': targets or {
            'codex': {'mode': 'files', 'scope': 'both',
                      'options': {'codex_home': os.path.join(sb.home, '.codex'), 'write_repo_skills': True, 'write_user_skills': True,
                                  'write_user_prompts': True, 'write_agents_global': True, 'write_agents_repo_root': True}},
            'claude_code': {'mode': 'files', 'scope': 'both',
                            'options': {'write_repo_commands': True, 'write_user_commands': True,
                                        'write_repo_skills': False, 'write_user_skills': False}}},
        'modules': [
            {'id': 'instructions:base', 'type': 'instructions', 'tags': ['base'],
             'source': {'local_path': {'path': 'modules/instructions/base'}}},
            {'id': 'prompt:draftpr', 'type': 'prompt', 'tags': ['base'],
             'source': {'local_path': {'path': 'modules/prompts/draftpr.md'}}},
            {'id': 'command:hello', 'type': 'command', 'tags': ['base'], 'targets': ['claude_code'],
             'source': {'local_path': {'path': 'modules/claude-commands/hello.md'}}},
            {'id': 'skill:helper', 'type': 'skill', 'tags': ['base'], 'targets': ['codex'],
             'source': {'local_path': {'path': 'modules/skills/helper'}}},
        ] + list(extra_modules)}
    return man

class World:
    """A sandbox in a named state.  `reset()` restores the pristine state at the same absolute
    paths (absolute paths are recorded inside manifests, snapshots and the config)."""
    def __init__(self, kind, sb, facts, info):
        self.kind = kind; self.sb = sb; self.facts = dict(facts); self.info = dict(info)
        self.unpriv = False; self.extra_env = {}
        self.pristine = sb.root + '.pristine'
        self._freeze()
    def _freeze(self):
        if os.path.exists(self.pristine):
            shutil.rmtree(self.pristine)
        shutil.copytree(self.sb.root, self.pristine, symlinks=True)
        self._modes = {}
        for dp, dns, fns in os.walk(self.sb.root):
            for n in dns + fns:
                p = os.path.join(dp, n)
                if not os.path.islink(p):
                    self._modes[os.path.relpath(p, self.sb.root)] = stat.S_IMODE(os.lstat(p).st_mode)
    def _make_writable(self, root):
        for dp, dns, fns in os.walk(root):
            try: os.chmod(dp, 0o755)
            except OSError: pass
    def reset(self):
        self._make_writable(self.sb.root)
        for n in os.listdir(self.sb.root):
            p = os.path.join(self.sb.root, n)
            if os.path.isdir(p) and not os.path.islink(p):
                shutil.rmtree(p)
            else:
                os.remove(p)
        for n in os.listdir(self.pristine):
            src = os.path.join(self.pristine, n); dst = os.path.join(self.sb.root, n)
            if os.path.isdir(src) and not os.path.islink(src):
                shutil.copytree(src, dst, symlinks=True)
            else:
                shutil.copy2(src, dst, follow_symlinks=False)
        # restore restrictive modes last (deepest first)
        for rel in sorted(self._modes, key=lambda r: -r.count('/')):
            m = self._modes[rel]
            p = os.path.join(self.sb.root, rel)
            try:
                if stat.S_IMODE(os.lstat(p).st_mode) != m:
                    os.chmod(p, m)
            except OSError:
                pass
    def snapshot(self):
        return full_snapshot(self.sb.root)
    def restore(self, before, after):
        """cheap reset: undo exactly the difference between two snapshots"""
        return restore_world(self.sb.root, before, after)
    def close(self):
        self._make_writable(self.sb.root)
        self._make_writable(self.pristine)
        shutil.rmtree(self.pristine, ignore_errors=True)
        self.sb.close()
    # ---- drivers
    def cli(self, args, json_mode=True, yes=False, dry=False, stdin=None, extra_env=None):
        argv = list(args)
        if json_mode: argv.append('--json')
        if yes: argv.append('--yes')
        if dry: argv.append('--dry-run')
        env = self.sb.env({'EDITOR': ''})
        env.update(self.extra_env or {})
        if extra_env: env.update(extra_env)
        cmd = (list(UNPRIV) if self.unpriv else []) + [AGENTPACK_BIN] + argv
        p = subprocess.run(cmd, cwd=self.sb.project, env=env, input=stdin, stdout=subprocess.PIPE, stderr=subprocess.PIPE, timeout=180)
        out = p.stdout.decode('utf-8', 'replace')
        doc = None
        if json_mode:
            try: doc = json.loads(out)
            except Exception: doc = None
        return p.returncode, doc, out, p.stderr.decode('utf-8', 'replace')

UNPRIV = ['setpriv', '--reuid=65534', '--regid=65534', '--clear-groups']

WORLD_KINDS = ['empty', 'fresh', 'adopt', 'bootstrapped', 'deployed', 'pending', 'pending_dirty', 'nogit', 'nomanifest', 'gitmodule']

def _ok(w_or_sb, args, what, stdin=None):
    sb = w_or_sb
    p = sb.cli(list(args) + ['--json', '--yes'], input=stdin, extra_env={'EDITOR': ''})
    if p.returncode != 0:
        raise InfraError('world setup step failed (%s): agentpack %s\n%s\n%s' % (what, ' '.join(args), p.stdout.decode('utf-8', 'replace')[-800:], p.stderr.decode('utf-8', 'replace')[-400:]))
    try:
        return json.loads(p.stdout.decode('utf-8', 'replace'))
    except Exception:
        return None

def _commit_all(sb, msg):
    _git(sb.repo, 'add', '-A', env=sb.env())
    _git(sb.repo, '-c', 'commit.gpgsign=false', 'commit', '-q', '--allow-empty', '-m', msg, env=sb.env())

def build_world(kind, tag='w', root_suffix=None):
    """Build one world.  Facts are true by construction and cross-checked by probes in the streams."""
    sb = Sandbox(tag + '-' + kind)
    if root_suffix:
        # re-home the sandbox under a directory with an awkward name (e.g. containing a backslash)
        newroot = os.path.join(sb.root, root_suffix)
        os.makedirs(newroot)
        for n in ('home', 'aphome', 'project', 'canary'):
            shutil.move(os.path.join(sb.root, n), os.path.join(newroot, n))
        sb.outer_root = sb.root
        sb.home = os.path.join(newroot, 'home'); sb.aphome = os.path.join(newroot, 'aphome')
        sb.project = os.path.join(newroot, 'project'); sb.canary = os.path.join(newroot, 'canary')
        sb.repo = os.path.join(sb.aphome, 'repo')
    sb.git_init_project()
    _git(sb.project, 'remote', 'add', 'origin', 'https://example.invalid/verif/project.git', env=sb.env())
    facts = dict(pre_ok=False, cfg_exists=False, plan_nonempty=False, manifest_missing=False, adopt_blocked=False,
                 boot_nonempty=False, missing_outputs=False, drift=False, lockfile=False, has_creates=False,
                 git_repo=False, git_dirty=False, healthy=False)
    info = {'modules': [], 'snapshots': [], 'overlay_module': None}
    # a user asset that `import` would pick up (present in every world, also the empty one)
    W.write(os.path.join(sb.home, '.codex', 'prompts', 'imported.md'), '# imported prompt\n')
    if kind == 'empty':
        return World(kind, sb, facts, info)

    _ok(sb, ['init', '--git'], 'init')
    W.write(os.path.join(sb.repo, 'modules/skills/helper/SKILL.md'), SKILL_MD)
    W.write(os.path.join(sb.repo, 'modules/skills/helper/notes.txt'), 'notes v1\n')
    W.write(os.path.join(sb.repo, 'modules/instructions/extra/AGENTS.md'), '# extra instructions\n')
    # a command module that does not collide with the operator assets (ap-*.md) installed by bootstrap
    W.write(os.path.join(sb.repo, 'modules/claude-commands/hello.md'),
            open(os.path.join(sb.repo, 'modules/claude-commands/ap-plan.md')).read().replace('ap-plan', 'hello'))
    extra = []
    upstream = None
    if kind == 'gitmodule':
        upstream = os.path.join(sb.root, 'upstream')
        os.makedirs(upstream)
        _git(upstream, 'init', '-q', env=sb.env())
        W.write(os.path.join(upstream, 'p', 'gitprompt.md'), '# prompt from git v1\n')
        _git(upstream, 'add', '-A', env=sb.env())
        _git(upstream, '-c', 'commit.gpgsign=false', 'commit', '-q', '-m', 'v1', env=sb.env())
        extra.append({'id': 'prompt:gitprompt', 'type': 'prompt', 'tags': ['base'],
                      'source': {'git': {'url': 'file://' + upstream, 'ref': 'master', 'subdir': 'p'}}})
        info['upstream'] = upstream
    W.write_config(sb.repo, base_manifest(sb, extra))
    info['modules'] = ['instructions:base', 'prompt:draftpr', 'command:hello', 'skill:helper'] + [m['id'] for m in extra]
    # a local bare remote for sync / remote set
    remote = os.path.join(sb.root, 'remote.git')
    _git(sb.root, 'init', '-q', '--bare', remote, env=sb.env())
    _git(sb.repo, 'remote', 'add', 'origin', 'file://' + remote, env=sb.env())
    _commit_all(sb, 'seed')
    branch = _git(sb.repo, 'rev-parse', '--abbrev-ref', 'HEAD', env=sb.env()).strip()
    _git(sb.repo, 'push', '-q', 'origin', branch, env=sb.env())
    info['branch'] = branch; info['remote'] = remote
    facts.update(pre_ok=True, cfg_exists=True, git_repo=True, has_creates=True)

    if kind in ('fresh', 'adopt'):
        # nothing deployed, no lockfile: plan = all creates, every desired output missing
        facts.update(plan_nonempty=True, boot_nonempty=True, missing_outputs=True, manifest_missing=True, healthy=True)
        if kind == 'adopt':
            # a user-owned file sits where a desired output goes: the plan has an adopt_update
            W.write(os.path.join(sb.home, '.codex', 'AGENTS.md'), '# my own global instructions\n')
            W.write(os.path.join(sb.home, '.claude', 'commands', 'hello.md'), 'my own command\n')
        return World(kind, sb, facts, info)

    if kind == 'gitmodule':
        _ok(sb, ['update'], 'update (lock + fetch)')
        _commit_all(sb, 'lock')
        _git(sb.repo, 'push', '-q', 'origin', branch, env=sb.env())
        # the locked checkout is removed from the cache: any planning command will auto-fetch it
        shutil.rmtree(os.path.join(sb.aphome, 'cache'))
        facts.update(plan_nonempty=True, boot_nonempty=True, missing_outputs=True, manifest_missing=True, lockfile=True, healthy=True)
        info['cache_missing'] = True
        return World(kind, sb, facts, info)

    _ok(sb, ['update'], 'update (lock + fetch)')
    if kind == 'bootstrapped':
        # operator assets only.  (bootstrap and deploy rewrite the manifests of the roots they share from
        # their own desired state, each planning to delete the other's files — DESIGN F5 — so no world
        # has both installed.)
        d2 = _ok(sb, ['bootstrap'], 'bootstrap')
        info['snapshots'] = [d2['data']['snapshot_id']]
        _commit_all(sb, 'lock')
        _git(sb.repo, 'push', '-q', 'origin', branch, env=sb.env())
        facts.update(lockfile=True, plan_nonempty=True, missing_outputs=True, manifest_missing=True, healthy=True)
        return World(kind, sb, facts, info)
    d1 = _ok(sb, ['deploy', '--apply'], 'deploy 1')
    info['snapshots'] = [d1['data']['snapshot_id']]
    facts.update(boot_nonempty=True)
    # project .gitignore knows the manifests already (doctor --fix has nothing to do) unless pending
    _ok(sb, ['doctor', '--fix'], 'doctor --fix')
    _commit_all(sb, 'lock')
    _git(sb.repo, 'push', '-q', 'origin', branch, env=sb.env())
    facts.update(lockfile=True)

    if kind == 'deployed':
        facts.update(healthy=True)
        return World(kind, sb, facts, info)

    if kind == 'nomanifest':
        n = 0
        for dp, dns, fns in os.walk(sb.root):
            if '.pristine' in dp: continue
            for fn in fns:
                if fn.startswith('.agentpack.manifest.') and fn.endswith('.json') and 'aphome' not in os.path.relpath(dp, sb.root).split(os.sep)[0:1]:
                    os.remove(os.path.join(dp, fn)); n += 1
        if n == 0:
            raise InfraError('nomanifest world: no target manifest found to delete')
        facts.update(manifest_missing=True, healthy=True)
        return World(kind, sb, facts, info)

    # pending / pending_dirty / nogit: a second deploy, then edits everywhere
    # overlay on instructions:base created against upstream v1, then upstream moves on
    ov = _ok(sb, ['overlay', 'edit', 'instructions:base'], 'overlay edit')
    overlay_dir = ov['data']['overlay_dir']
    info['overlay_module'] = 'instructions:base'; info['overlay_dir'] = overlay_dir
    with open(os.path.join(overlay_dir, 'AGENTS.md'), 'a') as f:
        f.write('\noverlay line (ours)\n')
    _commit_all(sb, 'overlay')
    d3 = _ok(sb, ['deploy', '--apply'], 'deploy 2')
    if d3['data'].get('snapshot_id'):
        info['snapshots'].append(d3['data']['snapshot_id'])
    # upstream edit (non-conflicting: prepend) -> overlay needs a rebase, plan has an update
    up = os.path.join(sb.repo, 'modules/instructions/base/AGENTS.md')
    W.write(up, '# upstream v2 heading\n' + open(up).read())
    # module edit -> plan update; deployed file edited by the user -> drift; deployed file deleted -> missing
    W.write(os.path.join(sb.repo, 'modules/prompts/draftpr.md'), open(os.path.join(sb.repo, 'modules/prompts/draftpr.md')).read() + '\nmodule edit v2\n')
    _commit_all(sb, 'upstream v2')
    _git(sb.repo, 'push', '-q', 'origin', branch, env=sb.env())
    skill_out = os.path.join(sb.home, '.codex', 'skills', 'helper', 'notes.txt')
    if not os.path.exists(skill_out):
        raise InfraError('pending world: expected deployed skill file ' + skill_out)
    W.write(skill_out, 'notes v1\nuser drift line\n')
    cmd_out = os.path.join(sb.home, '.claude', 'commands', 'hello.md')
    if not os.path.exists(cmd_out):
        raise InfraError('pending world: expected deployed command file ' + cmd_out)
    os.remove(cmd_out)
    # project .gitignore loses its manifest line -> doctor --fix has something to do
    gi = os.path.join(sb.project, '.gitignore')
    if os.path.exists(gi): os.remove(gi)
    facts.update(plan_nonempty=True, boot_nonempty=True, missing_outputs=True, drift=True, healthy=True)
    info['drift_file'] = skill_out; info['missing_file'] = cmd_out
    if kind == 'pending':
        return World(kind, sb, facts, info)
    if kind == 'pending_dirty':
        W.write(os.path.join(sb.repo, 'uncommitted.txt'), 'dirty\n')
        facts.update(git_dirty=True)
        return World(kind, sb, facts, info)
    if kind == 'nogit':
        shutil.rmtree(os.path.join(sb.repo, '.git'))
        facts.update(git_repo=False)
        return World(kind, sb, facts, info)
    raise InfraError('unknown world kind ' + kind)

# --------------------------------------------------------------------------- invocation matrix

RECORD_EVENT = json.dumps({'type': 'command', 'command_id': 'deploy --apply', 'module_id': 'prompt:draftpr', 'success': True})

def option_values(cid, w):
    """(positionals, options) value tables for a leaf command in world w: first value = primary.
    None for an option = omit it.  Commands or arguments unknown to this table get generic values."""
    info = w.info
    mods = info.get('modules') or ['instructions:base']
    snaps = info.get('snapshots') or []
    ovm = info.get('overlay_module') or 'instructions:base'
    pos = {}; opt = {}
    if cid == 'add':
        pos = {'module_type': ['instructions', 'prompt'], 'source': ['local:modules/instructions/extra', 'bogus-spec']}
        opt = {'id': [None, 'instructions:extra'], 'tags': [None, 'base,x'], 'targets': [None, 'codex']}
    elif cid == 'bootstrap':
        opt = {'scope': [None, 'user', 'project', 'both']}
    elif cid == 'completions':
        pos = {'shell': ['bash', 'zsh']}
    elif cid == 'evolve propose':
        opt = {'module-id': [None, 'skill:helper', 'nope:x'], 'scope': [None, 'machine', 'project'], 'branch': [None, 'verif/propose']}
    elif cid == 'evolve restore':
        opt = {'module-id': [None, 'command:hello', 'nope:x']}
    elif cid == 'import':
        opt = {'home-root': [None, w.sb.home, w.sb.canary]}
    elif cid == 'overlay edit':
        pos = {'module_id': [ovm, 'skill:helper', 'nope:x']}
        opt = {'scope': [None, 'machine', 'project'], 'kind': [None, 'patch', 'dir']}
    elif cid == 'overlay path':
        pos = {'module_id': [ovm, 'skill:helper', 'nope:x']}
        opt = {'scope': [None, 'machine', 'project']}
    elif cid == 'overlay rebase':
        pos = {'module_id': [ovm, 'skill:helper', 'nope:x']}
        opt = {'scope': [None, 'machine']}
    elif cid == 'remote set':
        pos = {'url': ['https://example.invalid/verif/repo.git']}
        opt = {'name': [None, 'backup']}
    elif cid == 'remove':
        pos = {'module_id': ['prompt:draftpr', 'nope:x']}
    elif cid == 'rollback':
        opt = {'to': [(snaps[0] if snaps else '1'), 'nope'] + snaps[1:2]}
    elif cid == 'status':
        opt = {'only': [None, 'missing', 'missing,modified', 'extra']}
    elif cid == 'sync':
        opt = {'remote': [None, 'nope']}
    return pos, opt

GLOBAL_OPTION_VALUES = {'target': [None, 'codex', 'claude_code', 'bogus'], 'profile': [None, 'other', 'nope'], 'machine': [None, 'm2']}

class Invocation:
    def __init__(self, cid, argv, flags, dry, stdin=None, variant='primary'):
        self.cid = cid; self.argv = argv; self.flags = tuple(flags); self.dry = dry; self.stdin = stdin; self.variant = variant
    def key(self):
        return (self.cid, tuple(self.argv), self.dry)
    def describe(self):
        return {'command': self.cid, 'argv': self.argv, 'flags': list(self.flags), 'dry_run': self.dry, 'variant': self.variant,
                'stdin': self.stdin.decode('utf-8', 'replace') if self.stdin else None}

def build_argv(cat, cid, flags, posv, optv, globalv):
    c = cat.commands[cid]
    argv = []
    for k, v in globalv.items():
        if v is not None:
            argv += ['--' + k, v]
    argv += list(c['path'])
    for a in c['args']:
        if a['kind'] == 'positional' or (a['kind'] == 'option' and not a.get('long')):
            argv.append(posv.get(a['id'], 'x'))
    for a in c['args']:
        if a['kind'] == 'option' and a.get('long'):
            v = optv.get(a['long'])
            if v is None and a['required']:
                v = 'x'
            if v is not None:
                argv += ['--' + a['long'], v]
    for f in flags:
        argv.append('--' + f)
    return argv

def invocations_for(cat, cid, w, rng, alternates=1, full=False):
    """every subset of the command's own flags x --dry-run, with primary option values; plus
    `alternates` random draws of option values per command (all combinations of single deviations
    when full)."""
    if cid not in cat.commands or ' --' in cid:
        return []
    flags = cat.flags_of(cid)
    pos, opt = option_values(cid, w)
    prim_pos = {k: v[0] for k, v in pos.items()}
    prim_opt = {k: v[0] for k, v in opt.items()}
    stdin = RECORD_EVENT.encode() if cid == 'record' else None
    out = []
    subsets = []
    for r in range(len(flags) + 1):
        subsets += list(itertools.combinations(flags, r))
    for fs in subsets:
        for dry in (False, True):
            out.append(Invocation(cid, build_argv(cat, cid, fs, prim_pos, prim_opt, {}), fs, dry, stdin))
    # deviations
    devs = []
    for k, vs in pos.items():
        for v in vs[1:]:
            devs.append(('pos', k, v))
    for k, vs in opt.items():
        for v in vs[1:]:
            devs.append(('opt', k, v))
    for k, vs in GLOBAL_OPTION_VALUES.items():
        for v in vs[1:]:
            devs.append(('glob', k, v))
    chosen = devs if full else [devs[rng.randrange(len(devs))] for _ in range(alternates)] if devs else []
    for kind, k, v in chosen:
        p2 = dict(prim_pos); o2 = dict(prim_opt); g2 = {}
        if kind == 'pos': p2[k] = v
        elif kind == 'opt': o2[k] = v
        else: g2[k] = v
        fs = subsets[rng.randrange(len(subsets))]
        dry = rng.random() < 0.3
        st = stdin if not (cid == 'record' and rng.random() < 0.3) else b'{not json'
        out.append(Invocation(cid, build_argv(cat, cid, fs, p2, o2, g2), fs, dry, st, variant='%s:%s=%s' % (kind, k, v)))
    return out

def is_usage_error(rc, out, err):
    """clap rejected the command line (conflicting flags etc.): not a syntactically valid invocation"""
    return rc == 2 and out.strip() == '' and ('Usage:' in err or 'error:' in err)

# --------------------------------------------------------------------------- envelope validator (C10)

ENVELOPE_FIELDS = {'schema_version': int, 'ok': bool, 'command': str, 'command_id': str, 'command_path': list,
                   'version': str, 'data': dict, 'warnings': list, 'errors': list}

def _walk_posix(v, path, probs):
    if isinstance(v, dict):
        for k, x in v.items():
            if k.endswith('_posix'):
                base = k[:-len('_posix')]
                if base not in v:
                    probs.append('%s.%s has no companion field %r' % (path, k, base))
                else:
                    comp = v[base]
                    def conv(y):
                        if isinstance(y, str): return y.replace('\\', '/')
                        if isinstance(y, list): return [conv(t) for t in y]
                        return y
                    if conv(comp) != x:
                        probs.append('%s.%s = %r is not %r with forward slashes' % (path, k, x, comp))
            _walk_posix(x, path + '.' + k, probs)
    elif isinstance(v, list):
        for i, x in enumerate(v):
            _walk_posix(x, '%s[%d]' % (path, i), probs)

def posix_pairs(v, acc=None):
    """all (companion, posix) string pairs of a document, for the model comparison"""
    acc = [] if acc is None else acc
    if isinstance(v, dict):
        for k, x in v.items():
            if k.endswith('_posix') and k[:-6] in v:
                a, b = v[k[:-6]], x
                if isinstance(a, str) and isinstance(b, str): acc.append((a, b))
                elif isinstance(a, list) and isinstance(b, list):
                    acc += [(p, q) for p, q in zip(a, b) if isinstance(p, str) and isinstance(q, str)]
            posix_pairs(x, acc)
    elif isinstance(v, list):
        for x in v: posix_pairs(x, acc)
    return acc

def check_envelope(doc, rc, stdout, expect_id, gen=None, mcp=False):
    """Validate one `--json` invocation against the contract of docs/reference/json-api.md and
    error-codes.md.  doc = parsed stdout (or None), rc = exit status (None for MCP), stdout = raw
    text, expect_id = the catalogue id of the invoked command (None = do not check).
    Returns a list of problems (strings); empty = contract holds."""
    gen = gen or gen_tables()
    probs = []
    if not mcp:
        try:
            d2 = json.loads(stdout)
        except Exception as e:
            return ['stdout is not exactly one JSON document (%s): %r' % (type(e).__name__, stdout[:200])]
        if doc is None:
            doc = d2
    if not isinstance(doc, dict):
        return ['stdout JSON is not an object']
    for k, ty in ENVELOPE_FIELDS.items():
        if k not in doc:
            probs.append('envelope field %r missing' % k)
        elif not isinstance(doc[k], ty) or (ty is int and isinstance(doc[k], bool)):
            probs.append('envelope field %r has type %s, expected %s' % (k, type(doc[k]).__name__, ty.__name__))
    if probs:
        return probs
    if doc['schema_version'] != gen['json_schema_version']:
        probs.append('schema_version = %r, expected %r' % (doc['schema_version'], gen['json_schema_version']))
    if not all(isinstance(x, str) for x in doc['command_path']):
        probs.append('command_path is not a list of strings')
    if not all(isinstance(x, str) for x in doc['warnings']):
        probs.append('warnings is not a list of strings')
    ok = doc['ok']
    if rc is not None and ok != (rc == 0):
        probs.append('ok=%r but exit status %r' % (ok, rc))
    if ok != (doc['errors'] == []):
        probs.append('ok=%r but errors has %d entries' % (ok, len(doc['errors'])))
    if not ok and doc['data'] != {}:
        probs.append('ok=false but data is not {}: keys %r' % (sorted(doc['data'])[:8],))
    if doc['command_id'] != ' '.join(doc['command_path']):
        probs.append('command_id %r is not command_path %r joined' % (doc['command_id'], doc['command_path']))
    if expect_id is not None and doc['command_id'] != expect_id:
        probs.append('command_id %r does not identify the invoked command %r' % (doc['command_id'], expect_id))
    if doc['command_id'] not in gen['catalogue_ids']:
        probs.append('command_id %r is not in the catalogue' % (doc['command_id'],))
    registry = set(gen['registry_error_codes'])
    for i, e in enumerate(doc['errors']):
        if not isinstance(e, dict) or not isinstance(e.get('code'), str) or not isinstance(e.get('message'), str):
            probs.append('errors[%d] lacks code/message strings' % i); continue
        extra = set(e) - {'code', 'message', 'details'}
        if extra:
            probs.append('errors[%d] has undocumented fields %r' % (i, sorted(extra)))
        code = e['code']
        if code not in registry:
            probs.append('errors[%d].code %r is not in the registry (docs/reference/error-codes.md)' % (i, code)); continue
        if code in gen['registry_guidance_codes']:
            det = e.get('details')
            if not isinstance(det, dict):
                probs.append('errors[%d] (%s): registry documents reason_code/next_actions but details is %s' % (i, code, type(det).__name__)); continue
            rcv = det.get('reason_code'); nav = det.get('next_actions')
            if not isinstance(rcv, str) or not rcv:
                probs.append('errors[%d] (%s): details.reason_code missing or not a string' % (i, code))
            if not isinstance(nav, list) or not nav or not all(isinstance(x, str) for x in nav):
                probs.append('errors[%d] (%s): details.next_actions missing or not a non-empty list of strings' % (i, code))
            doc_g = gen['spec_guidance'].get(code)
            if doc_g and isinstance(rcv, str) and isinstance(nav, list):
                if rcv != doc_g[0] or nav != doc_g[1]:
                    probs.append('errors[%d] (%s): guidance %r/%r differs from the documented %r/%r' % (i, code, rcv, nav, doc_g[0], doc_g[1]))
    _walk_posix(doc, '$', probs)
    return probs

# --------------------------------------------------------------------------- facts for the model

FACT_ORDER = ['json', 'yes', 'dry', 'apply', 'fix', 'guided', 'lock', 'fetch', 'nolock', 'nofetch',
              'pre_ok', 'tty', 'cfg_exists', 'plan_nonempty', 'manifest_missing', 'adopt_blocked', 'boot_nonempty',
              'missing_outputs', 'drift', 'lockfile', 'has_creates', 'git_repo', 'git_dirty', 'body_writes']

def facts_term(f):
    return '(mkFacts ' + ' '.join(cq.cbool(bool(f.get(k, False))) for k in FACT_ORDER) + ')'

def flag_facts(inv, json_mode=True, yes=False):
    fl = set(inv.flags)
    return {'json': json_mode, 'yes': yes, 'dry': inv.dry, 'apply': 'apply' in fl, 'fix': 'fix' in fl, 'guided': 'guided' in fl,
            'lock': 'lock' in fl, 'fetch': 'fetch' in fl, 'nolock': 'no-lock' in fl, 'nofetch': 'no-fetch' in fl, 'tty': False}

def expected_command_id(inv):
    """args.rs command_path, re-stated independently: the leaf id plus --apply / --fix variants"""
    fl = set(inv.flags)
    if inv.cid in ('deploy', 'import') and 'apply' in fl and not inv.dry:
        return inv.cid + ' --apply'
    if inv.cid == 'doctor' and 'fix' in fl:
        return 'doctor --fix'
    return inv.cid

def probe_facts(w, inv):
    """World facts that decide the conditional writers, observed through independent dry-run /
    read-only invocations with the same arguments (never through the invocation under test)."""
    f = dict(w.facts)
    f.pop('healthy', None)
    argv = [a for a in inv.argv]
    def run(args, dry=False):
        rc, doc, out, err = w.cli(args, json_mode=True, yes=False, dry=dry)
        return doc if (doc and doc.get('ok')) else None
    glob = []   # global options precede the subcommand path in argv
    path = w.cat.path_of(inv.cid) if hasattr(w, 'cat') else inv.cid.split(' ')
    i = 0
    while i < len(argv) and argv[i] != path[0]:
        glob.append(argv[i]); i += 1
    if inv.cid == 'deploy':
        d = run(glob + ['plan'])
        f['pre_ok'] = d is not None
        if d is not None:
            ch = d['data']['changes']
            f['plan_nonempty'] = bool(ch)
            f['adopt_blocked'] = any(c.get('update_kind') == 'adopt_update' for c in ch) and 'adopt' not in inv.flags
    elif inv.cid == 'bootstrap':
        d = run(argv, dry=True)
        f['pre_ok'] = d is not None
        if d is not None: f['boot_nonempty'] = bool(d['data']['changes'])
    elif inv.cid == 'evolve propose':
        d = run(argv, dry=True)
        f['pre_ok'] = d is not None
        if d is not None: f['drift'] = bool(d['data'].get('candidates'))
    elif inv.cid == 'evolve restore':
        d = run(argv, dry=True)
        f['pre_ok'] = d is not None
        if d is not None: f['missing_outputs'] = bool(d['data'].get('restored'))
    elif inv.cid == 'import':
        d = run([a for a in argv if a != '--apply'], dry=True)
        f['pre_ok'] = d is not None
        if d is not None: f['has_creates'] = d['data']['summary']['create'] > 0
    elif inv.cid == 'doctor':
        d = run(glob + ['doctor'])
        f['pre_ok'] = d is not None
    elif inv.cid == 'overlay rebase':
        # Engine::load is all that precedes the rebase itself (profile / target are not consulted)
        d = run(glob + ['overlay', 'path', 'x'])
        f['pre_ok'] = d is not None
    f['lockfile'] = os.path.exists(os.path.join(w.sb.repo, 'agentpack.lock.json'))
    f['cfg_exists'] = os.path.exists(os.path.join(w.sb.repo, 'agentpack.yaml'))
    f['git_repo'] = os.path.exists(os.path.join(w.sb.repo, '.git'))
    if f['git_repo']:
        env = w.sb.env({'GIT_OPTIONAL_LOCKS': '0'})
        p = subprocess.run(['git', 'status', '--porcelain'], cwd=w.sb.repo, env=env, stdout=subprocess.PIPE, stderr=subprocess.PIPE)
        f['git_dirty'] = bool(p.stdout.strip())
    else:
        f['git_dirty'] = False
    return f

# --------------------------------------------------------------------------- executing invocations

AREA_CODES = {'config_repo': 0, 'home': 1, 'project': 2, 'snapshots': 3, 'cache': 4, 'logs': 5, 'remotes': 6,
              'state': 7, 'aphome': 8, 'canary': 8, 'other': 8}

def strip_cache_git(delta, w):
    """remove the K8a paths (AGENTPACK_HOME/cache and cache/git/**) from a delta"""
    base = os.path.join(w.sb.aphome, 'cache')
    return {p: v for p, v in delta.items() if not (p == base or p == os.path.join(base, 'git') or p.startswith(os.path.join(base, 'git') + os.sep))}

class Runner:
    """Runs invocations in one world, always from the world's base state."""
    def __init__(self, w, cat):
        self.w = w; self.cat = cat; w.cat = cat
        self.base = w.snapshot()
        self.resets = 0
    def back_to_base(self, after):
        if after is not None:
            self.w.restore(self.base, after)
            if self.w.unpriv: _chown_tree(self.w.sb.root)
            chk = self.w.snapshot()
            if snap_diff(self.base, chk) or any(self.base.raw_index.get(p) != chk.raw_index.get(p) for p in self.base.raw_index):
                self.w.reset(); self.resets += 1
                if self.w.unpriv: _chown_tree(self.w.sb.root)
                chk = self.w.snapshot()
                d = snap_diff(self.base, chk)
                if d:
                    raise InfraError('world %s cannot be reset: %r' % (self.w.kind, diff_paths(d, self.w.sb.root)[:5]))
    def run(self, inv, json_mode=True, yes=False, dry=None, stdin=None):
        """one run from the base state; returns dict(rc, doc, out, err, delta, snap)"""
        rc, doc, out, err = self.w.cli(inv.argv, json_mode=json_mode, yes=yes, dry=inv.dry if dry is None else dry,
                                       stdin=inv.stdin if stdin is None else stdin)
        after = self.w.snapshot()
        delta = snap_diff(self.base, after)
        res = {'rc': rc, 'doc': doc, 'out': out, 'err': err, 'delta': delta, 'paths': diff_paths(delta, self.w.sb.root)}
        if delta or any(self.base.raw_index.get(p) != after.raw_index.get(p) for p in set(self.base.raw_index) | set(after.raw_index)):
            self.back_to_base(after)
        return res
    def probe(self, inv):
        f = probe_facts(self.w, inv)
        after = self.w.snapshot()
        if snap_diff(self.base, after):
            self.back_to_base(after)
        return f

def first_error(doc):
    try:
        return doc['errors'][0]
    except Exception:
        return None

def confirm_refusal(doc):
    """the command named by an E_CONFIRM_REQUIRED refusal, else None"""
    e = first_error(doc)
    if e and e.get('code') == 'E_CONFIRM_REQUIRED':
        det = e.get('details') or {}
        return det.get('command') if isinstance(det, dict) else ''
    return None

def summarize(res):
    d = res.get('doc')
    return {'rc': res['rc'], 'ok': d.get('ok') if isinstance(d, dict) else None,
            'command_id': d.get('command_id') if isinstance(d, dict) else None,
            'error': (first_error(d) or {}).get('code') if isinstance(d, dict) else None,
            'stdout_head': res['out'][:300] if not isinstance(d, dict) else None,
            'changed_paths': res['paths'][:25], 'n_changed': len(res['paths'])}

# --------------------------------------------------------------------------- MCP helpers

def mcp_call_once(w, tool, args, pre=None):
    """start a server in the world, optionally call `pre` tools first, call the tool, stop the server.
    returns (rpc message, envelope, bad stdout lines, results of pre calls)"""
    srv = Mcp(w.sb, {'EDITOR': ''})
    try:
        pres = []
        for pt, pa in (pre or []):
            pres.append(srv.call(pt, pa))
        msg, env = srv.call(tool, args)
        return msg, env, list(srv.bad_lines), pres
    finally:
        srv.close()

def check_mcp_result(msg, gen, expect_id):
    """C10 for one tools/call response: structuredContent = envelope = parsed text, isError = !ok"""
    probs = []
    res = msg.get('result')
    if not isinstance(res, dict):
        return ['tools/call returned no result: %r' % (msg.get('error'),)]
    sc = res.get('structuredContent')
    content = res.get('content')
    if not isinstance(sc, dict):
        return ['structuredContent missing']
    if not (isinstance(content, list) and len(content) == 1 and content[0].get('type') == 'text'):
        probs.append('content is not a single text item')
    else:
        try:
            parsed = json.loads(content[0]['text'])
            if parsed != sc:
                probs.append('text content differs from structuredContent')
        except Exception:
            probs.append('text content is not JSON')
    if res.get('isError') != (not sc.get('ok')):
        probs.append('isError=%r but ok=%r' % (res.get('isError'), sc.get('ok')))
    probs += check_envelope(sc, None, '', expect_id, gen=gen, mcp=True)
    return probs

# --------------------------------------------------------------------------- failure-class worlds (C10)


def _chown_tree(root, uid=65534, gid=65534):
    for dp, dns, fns in os.walk(root):
        os.lchown(dp, uid, gid)
        for n in fns:
            os.lchown(os.path.join(dp, n), uid, gid)

def _chmod_dirs(root, mode):
    for dp, dns, fns in os.walk(root, topdown=False):
        os.chmod(dp, mode)

FAILURE_KINDS = ['cfg_invalid_yaml', 'cfg_no_default_profile', 'cfg_dup_module', 'cfg_unsupported_version', 'cfg_unknown_target',
                 'cfg_cursor_user_scope', 'lock_invalid', 'lock_unsupported', 'conflict', 'skill_bad_frontmatter', 'module_source_missing',
                 'overlay_baseline_missing', 'overlay_conflict', 'overlay_patch_fail', 'overlay_mixed',
                 'ro_target', 'ro_repo', 'ro_state', 'target_is_file', 'policy_violation', 'policy_cfg_invalid', 'policy_cfg_unsupported',
                 'policy_pack_missing', 'git_detached', 'no_remote', 'no_git_binary', 'snapshot_corrupt', 'events_garbage',
                 'import_conflict', 'path_too_long', 'unicode_long_id', 'trailing_slash_paths']

def build_failure_world(kind, tag='f'):
    """A world in which a given failure class is provoked.  Built on the 'deployed' / 'pending' world."""
    base = 'pending' if kind.startswith('overlay_') or kind in ('git_detached', 'no_remote', 'no_git_binary', 'ro_target', 'ro_repo', 'ro_state', 'target_is_file') else 'deployed'
    w = build_world(base, tag + '-' + kind)
    sb = w.sb
    w.kind = kind
    cfgp = os.path.join(sb.repo, 'agentpack.yaml')
    man = json.load(open(cfgp))
    try:
        if kind == 'cfg_invalid_yaml':
            W.write(cfgp, 'version: [broken\n')
        elif kind == 'cfg_no_default_profile':
            man['profiles'] = {'other': {'include_tags': ['base']}}; W.write_config(sb.repo, man)
        elif kind == 'cfg_dup_module':
            man['modules'].append(dict(man['modules'][0])); W.write_config(sb.repo, man)
        elif kind == 'cfg_unsupported_version':
            man['version'] = 2; W.write_config(sb.repo, man)
        elif kind == 'cfg_unknown_target':
            man['targets']['foo'] = {'mode': 'files', 'scope': 'user', 'options': {}}; W.write_config(sb.repo, man)
        elif kind == 'cfg_cursor_user_scope':
            man['targets']['cursor'] = {'mode': 'files', 'scope': 'user', 'options': {}}; W.write_config(sb.repo, man)
        elif kind == 'lock_invalid':
            W.write(os.path.join(sb.repo, 'agentpack.lock.json'), '{not json')
        elif kind == 'lock_unsupported':
            lp = os.path.join(sb.repo, 'agentpack.lock.json'); d = json.load(open(lp)); d['version'] = 99
            W.write(lp, json.dumps(d, indent=1))
        elif kind == 'conflict':
            W.write(os.path.join(sb.repo, 'modules/other-commands/hello.md'),
                    open(os.path.join(sb.repo, 'modules/claude-commands/hello.md')).read() + '\nconflicting line\n')
            man['modules'].append({'id': 'command:hello2', 'type': 'command', 'tags': ['base'], 'targets': ['claude_code'],
                                   'source': {'local_path': {'path': 'modules/other-commands/hello.md'}}})
            W.write_config(sb.repo, man)
        elif kind == 'skill_bad_frontmatter':
            W.write(os.path.join(sb.repo, 'modules/skills/helper/SKILL.md'), '# no frontmatter\n')
        elif kind == 'module_source_missing':
            shutil.rmtree(os.path.join(sb.repo, 'modules/skills/helper'))
        elif kind == 'overlay_baseline_missing':
            os.remove(os.path.join(w.info['overlay_dir'], '.agentpack', 'baseline.json'))
        elif kind == 'overlay_conflict':
            # ours and theirs both rewrite the first line
            up = os.path.join(sb.repo, 'modules/instructions/base/AGENTS.md')
            lines = open(up).read().split('\n')
            ov = os.path.join(w.info['overlay_dir'], 'AGENTS.md')
            olines = open(ov).read().split('\n')
            # find a line present in both: rewrite it differently on both sides
            common = [l for l in olines if l in lines and l.strip()]
            tgt = common[0]
            W.write(up, '\n'.join([('THEIRS ' + l) if l == tgt else l for l in lines]))
            W.write(ov, '\n'.join([('OURS ' + l) if l == tgt else l for l in olines]))
            _commit_all(sb, 'conflict')
        elif kind in ('overlay_patch_fail', 'overlay_mixed'):
            key = os.path.basename(w.info['overlay_dir'])
            od = os.path.join(sb.repo, 'overlays', 'skill_helper--x')   # name resolved below through the CLI
            rc, doc, out, err = w.cli(['overlay', 'edit', 'skill:helper', '--kind', 'patch'], yes=True)
            if rc != 0:
                raise InfraError('overlay edit --kind patch failed: ' + out[:300])
            od = doc['data']['overlay_dir']
            W.write(os.path.join(od, '.agentpack', 'patches', 'notes.txt.patch'),
                    '--- a/notes.txt\n+++ b/notes.txt\n@@ -1 +1 @@\n-DOES NOT MATCH\n+patched\n')
            if kind == 'overlay_mixed':
                W.write(os.path.join(od, 'notes.txt'), 'dir override too\n')
            _commit_all(sb, 'patch overlay')
        elif kind in ('ro_target', 'ro_repo', 'ro_state'):
            _chown_tree(sb.root)
            os.chmod(sb.root, 0o755)
            w.unpriv = True
            if kind == 'ro_target':
                for d in (os.path.join(sb.home, '.codex'), os.path.join(sb.home, '.claude'), os.path.join(sb.project, '.codex'), os.path.join(sb.project, '.claude')):
                    if os.path.isdir(d): _chmod_dirs(d, 0o555)
            elif kind == 'ro_repo':
                _chmod_dirs(sb.repo, 0o555)
            else:
                _chmod_dirs(os.path.join(sb.aphome, 'state'), 0o555)
                os.makedirs(os.path.join(sb.aphome, 'cache'), exist_ok=True)
                os.lchown(os.path.join(sb.aphome, 'cache'), 65534, 65534)
        elif kind == 'target_is_file':
            shutil.rmtree(os.path.join(sb.home, '.codex'))
            W.write(os.path.join(sb.home, '.codex'), 'i am a file\n')
        elif kind == 'policy_violation':
            W.write(os.path.join(sb.repo, '.claude/commands/ap-bad.md'), '---\ndescription: "bad command"\n---\n\n!bash\nagentpack deploy --apply --json\n')
            W.write(os.path.join(sb.repo, '.codex/skills/bad/SKILL.md'), '# no frontmatter\n')
        elif kind == 'policy_cfg_invalid':
            W.write(os.path.join(sb.repo, 'agentpack.org.yaml'), 'version: 1\npolicy_pack:\n  source: ""\n')
        elif kind == 'policy_cfg_unsupported':
            W.write(os.path.join(sb.repo, 'agentpack.org.yaml'), 'version: 2\npolicy_pack:\n  source: "local:policies/p"\n')
        elif kind == 'policy_pack_missing':
            W.write(os.path.join(sb.repo, 'agentpack.org.yaml'), 'version: 1\npolicy_pack:\n  source: "local:policies/does-not-exist"\n')
        elif kind == 'git_detached':
            head = _git(sb.repo, 'rev-parse', 'HEAD', env=sb.env()).strip()
            _git(sb.repo, 'checkout', '-q', '--detach', head, env=sb.env())
        elif kind == 'no_remote':
            _git(sb.repo, 'remote', 'remove', 'origin', env=sb.env())
        elif kind == 'no_git_binary':
            nogit = os.path.join(sb.root, 'bin-nogit'); os.makedirs(nogit)
            w.extra_env = {'PATH': nogit}
        elif kind == 'snapshot_corrupt':
            for sid in w.info['snapshots'][:1]:
                W.write(os.path.join(sb.aphome, 'state', 'snapshots', sid + '.json'), '{"garbage": tru')
        elif kind == 'import_conflict':
            # the destination of the importable user prompt already exists inside the config repo
            rc, doc, out, err = w.cli(['import'])
            if not doc or not doc.get('ok'):
                raise InfraError('import dry run failed: ' + out[:300])
            n = 0
            for it in doc['data']['plan']:
                if it.get('op') == 'create':
                    W.write(it['dest_path'] if not it['dest_path'].endswith(os.sep) else os.path.join(it['dest_path'], 'x'), 'already here\n'); n += 1
            if n == 0:
                raise InfraError('import_conflict world: nothing importable')
        elif kind == 'path_too_long':
            long_name = 'x' * 300 + '.md'
            W.write(os.path.join(sb.repo, 'modules/long', 'short.md'), open(os.path.join(sb.repo, 'modules/claude-commands/hello.md')).read())
            man['modules'].append({'id': 'skill:' + 'y' * 300, 'type': 'skill', 'tags': ['base'], 'targets': ['codex'],
                                   'source': {'local_path': {'path': 'modules/skills/helper'}}})
            W.write_config(sb.repo, man)
        elif kind == 'trailing_slash_paths':
            # directories spelled with a trailing separator (what shell completion produces): --repo <dir>/ and
            # codex_home: "<dir>/" - every echoed path keeps the user's spelling in both twins
            opts = man['targets'].setdefault('codex', {'mode': 'files', 'scope': 'user', 'options': {}}).setdefault('options', {})
            opts['codex_home'] = (opts.get('codex_home') or os.path.join(sb.home, '.codex')).rstrip('/') + '/'
            W.write_config(sb.repo, man)
            w.extra_global = ['--repo', sb.repo + '/']
        elif kind == 'unicode_long_id':
            # long module ids made of multi-byte letters, at several byte alignments (file-system keys, overlay
            # directory names and output names are derived from ids by sanitising and truncating)
            for n_, pre in ((40, ''), (40, 'x'), (33, 'ab'), (70, ''), (22, 'q')):
                man['modules'].append({'id': 'prompt:' + pre + '\u00e9' * n_ + ('\u6f22' * 5 if n_ == 22 else ''), 'type': 'prompt', 'tags': ['base'], 'targets': ['codex'],
                                       'source': {'local_path': {'path': 'modules/prompts/draftpr.md'}}})
            W.write_config(sb.repo, man)
        elif kind == 'events_garbage':
            W.write(os.path.join(sb.aphome, 'state', 'logs', 'events.jsonl'), '{"schema_version":1,\nnot json at all\n\xff\xfe\n'.encode('latin-1'))
        else:
            raise InfraError('unknown failure kind ' + kind)
    except Exception:
        w.close(); raise
    w._freeze()
    return w

def world_cli(w, argv, stdin=None):
    """run the binary in a (possibly unprivileged / restricted-PATH) world; argv includes --json etc."""
    env = w.sb.env({'EDITOR': ''})
    env.update(getattr(w, 'extra_env', {}) or {})
    cmd = ([] if not getattr(w, 'unpriv', False) else list(UNPRIV)) + [AGENTPACK_BIN] + list(argv)
    p = subprocess.run(cmd, cwd=w.sb.project, env=env, input=stdin, stdout=subprocess.PIPE, stderr=subprocess.PIPE, timeout=120)
    out = p.stdout.decode('utf-8', 'replace')
    try:
        doc = json.loads(out)
    except Exception:
        doc = None
    return p.returncode, doc, out, p.stderr.decode('utf-8', 'replace')

# --------------------------------------------------------------------------- generated histories

HISTORY_OPS = ['edit_module', 'user_edit_output', 'delete_output', 'deploy', 'overlay_edit', 'overlay_subset', 'remove_manifest', 'legacy_manifests',
               'rollback', 'bootstrap', 'dirty', 'record', 'restore', 'rebase', 'lock']

def _deployed_files(w):
    out = []
    for base in (os.path.join(w.sb.home, '.codex'), os.path.join(w.sb.home, '.claude'), os.path.join(w.sb.project, '.codex'),
                 os.path.join(w.sb.project, '.claude'), w.sb.project):
        if not os.path.isdir(base): continue
        for dp, dns, fns in os.walk(base):
            if '.git' in dp.split(os.sep): continue
            for fn in fns:
                if fn.startswith('.agentpack.manifest'): continue
                if base == w.sb.project and dp != base: continue
                if base == w.sb.project and fn not in ('AGENTS.md',): continue
                out.append(os.path.join(dp, fn))
    return sorted(set(out))

def perturb(w, rng, steps, last=None):
    """Apply a random history to a built world (then re-freeze it).  Returns the list of steps taken.
    Steps go through the real CLI where the user would use it; a step that fails is recorded and skipped."""
    sb = w.sb
    hist = []
    def cli(args, stdin=None):
        p = sb.cli(list(args) + ['--json', '--yes'], input=stdin, extra_env={'EDITOR': ''})
        try: return p.returncode, json.loads(p.stdout.decode('utf-8', 'replace'))
        except Exception: return p.returncode, None
    has_git = os.path.isdir(os.path.join(sb.repo, '.git'))
    for k_ in range(steps):
        op = rng.choice(HISTORY_OPS)
        if last is not None and k_ == steps - 1: op = last
        note = ''
        try:
            if op == 'edit_module':
                cands = [os.path.join(sb.repo, 'modules/prompts/draftpr.md'), os.path.join(sb.repo, 'modules/instructions/base/AGENTS.md'),
                         os.path.join(sb.repo, 'modules/skills/helper/notes.txt'), os.path.join(sb.repo, 'modules/claude-commands/hello.md')]
                f = rng.choice([c for c in cands if os.path.exists(c)])
                with open(f, 'a') as fh: fh.write('\nhistory edit %d\n' % rng.randrange(1000))
                if has_git and rng.random() < 0.8: _commit_all(sb, 'edit')
                note = os.path.relpath(f, sb.repo)
            elif op in ('user_edit_output', 'delete_output'):
                files = _deployed_files(w)
                if not files: note = 'nothing deployed'
                else:
                    f = rng.choice(files)
                    if op == 'delete_output': os.remove(f)
                    else:
                        with open(f, 'a') as fh: fh.write('\nuser edit %d\n' % rng.randrange(1000))
                    note = os.path.relpath(f, sb.root)
            elif op == 'deploy':
                rc, d = cli(['deploy', '--apply', '--adopt'] + (['--target', rng.choice(['codex', 'claude_code'])] if rng.random() < 0.3 else []))
                note = 'rc=%s' % rc
                if d and d.get('ok') and d['data'].get('snapshot_id'): w.info.setdefault('snapshots', []).append(d['data']['snapshot_id'])
            elif op == 'overlay_edit':
                mod = rng.choice(['instructions:base', 'skill:helper', 'prompt:draftpr'])
                kind = rng.choice(['dir', 'dir', 'patch'])
                rc, d = cli(['overlay', 'edit', mod, '--kind', kind] + (['--scope', 'machine'] if rng.random() < 0.2 else []))
                note = '%s %s rc=%s' % (mod, kind, rc)
                if d and d.get('ok'):
                    od = d['data']['overlay_dir']
                    if kind == 'dir':
                        for fn in sorted(os.listdir(od)):
                            p = os.path.join(od, fn)
                            if os.path.isfile(p):
                                with open(p, 'a') as fh: fh.write('\noverlay edit %d\n' % rng.randrange(1000))
                                break
                    w.info['overlay_module'] = mod; w.info['overlay_dir'] = od
                    if has_git: _commit_all(sb, 'overlay')
            elif op == 'overlay_subset':
                # a directory overlay whose only edit upstream has meanwhile made too (next to another upstream edit): the
                # three-way merge is clean and EQUALS the new upstream — the state in which --sparsify drops the file
                up = os.path.join(sb.repo, 'modules/skills/helper/notes.txt')
                rc0, d0 = cli(['overlay', 'path', 'skill:helper'])
                od = d0['data']['overlay_dir'] if d0 and d0.get('ok') else None
                if od and not os.path.exists(od) and has_git:
                    lines = ['alpha', 'beta', 'gamma', 'delta', 'epsilon', 'zeta', 'eta', 'theta']
                    W.write(up, '\n'.join(lines) + '\n'); _commit_all(sb, 'notes v2')
                    rc, d = cli(['overlay', 'edit', 'skill:helper', '--kind', 'dir'])
                    if d and d.get('ok'):
                        W.write(os.path.join(od, 'notes.txt'), '\n'.join(['ALPHA'] + lines[1:]) + '\n'); _commit_all(sb, 'overlay alpha')
                        W.write(up, '\n'.join(['ALPHA'] + lines[1:6] + ['ETA', 'theta']) + '\n'); _commit_all(sb, 'upstream alpha + eta')
                        w.info['overlay_module'] = 'skill:helper'; w.info['overlay_dir'] = od
                        note = 'subset overlay on skill:helper'
            elif op == 'remove_manifest':
                ms = [os.path.join(dp, fn) for dp, dns, fns in os.walk(sb.root) for fn in fns
                      if fn.startswith('.agentpack.manifest.') and 'aphome' not in os.path.relpath(dp, sb.root).split(os.sep)[:1] and '.pristine' not in dp]
                if ms:
                    m = rng.choice(sorted(ms)); os.remove(m); note = os.path.relpath(m, sb.root)
            elif op == 'legacy_manifests':
                # the roots keep the manifests an older agentpack wrote: same content under the legacy shared name
                n = 0
                for dp, dns, fns in os.walk(sb.root):
                    if 'aphome' in os.path.relpath(dp, sb.root).split(os.sep)[:1] or '.pristine' in dp: continue
                    for fn in fns:
                        if fn.startswith('.agentpack.manifest.') and fn.endswith('.json') and fn != '.agentpack.manifest.json':
                            leg = os.path.join(dp, '.agentpack.manifest.json')
                            if not os.path.exists(leg):
                                os.rename(os.path.join(dp, fn), leg); n += 1
                note = 'renamed=%d' % n
            elif op == 'rollback':
                snaps = w.info.get('snapshots') or []
                if snaps:
                    sid = rng.choice(snaps); rc, d = cli(['rollback', '--to', sid]); note = 'rc=%s' % rc
                    # the rollback's own record is a snapshot id too (an invalid rollback target): later invocations try it
                    ev = (d or {}).get('data', {}).get('event_snapshot_id') if d and d.get('ok') else None
                    if ev and ev not in snaps: w.info['snapshots'] = [ev] + snaps
            elif op == 'bootstrap':
                rc, d = cli(['bootstrap', '--scope', rng.choice(['user', 'project', 'both'])]); note = 'rc=%s' % rc
                if d and d.get('ok') and d['data'].get('snapshot_id'): w.info.setdefault('snapshots', []).append(d['data']['snapshot_id'])
            elif op == 'dirty':
                W.write(os.path.join(sb.repo, 'scratch-%d.txt' % rng.randrange(100)), 'uncommitted\n')
            elif op == 'record':
                rc, d = cli(['record'], stdin=RECORD_EVENT.encode()); note = 'rc=%s' % rc
            elif op == 'restore':
                rc, d = cli(['evolve', 'restore']); note = 'rc=%s' % rc
            elif op == 'rebase':
                rc, d = cli(['overlay', 'rebase', w.info.get('overlay_module') or 'instructions:base']); note = 'rc=%s' % rc
                if has_git and rc == 0: _commit_all(sb, 'rebase')
            elif op == 'lock':
                rc, d = cli(['lock']); note = 'rc=%s' % rc
        except Exception as e:
            note = 'step failed: %s' % (repr(e)[:120],)
        hist.append({'op': op, 'note': note})
    w.info['history'] = hist
    w._freeze()
    return hist

# --------------------------------------------------------------------------- reporting helper

def cap_violations(viols, per_key=2, total=40):
    """Keep at most `per_key` violations per (stream, command, kind of finding) and `total` overall: one broken
    guard fails in every flag combination, and one replay per combination adds nothing.
    viols: list of tuples whose first two items are (what, case).  Returns (kept, dropped_count)."""
    seen = {}; kept = []; dropped = 0
    for v in viols:
        case = v[1]
        inv = case.get('invocation') or {}
        cmd = inv.get('command') or case.get('tool')
        if cmd is None:
            argv = [a for a in case.get('argv', []) if not a.startswith('-')]
            cmd = ' '.join(argv[:2])
        key = (case.get('stream'), cmd, re.sub(r'`[^`]*`|\[[^\]]*\]|\([^)]*\)|%r|\'[^\']*\'', '', v[0])[:60])
        n = seen.get(key, 0)
        if n < per_key and len(kept) < total:
            kept.append(v); seen[key] = n + 1
        else:
            dropped += 1
    return kept, dropped
