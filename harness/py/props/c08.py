"""C08 — In JSON mode nothing is written without --yes, for every command."""
import os, json, concurrent.futures
from vlib.common import *
from vlib import coqrun as cq
from vlib.impl import Sandbox, Mcp, snap_diff
from vlib import catalogue as C

HEADER = 'From AP Require Import Corr.Check_C08.\nOpen Scope N_scope.\n'
K8A = 'K8a'
K8A_WHAT = ('a planning command (including a refused `deploy --apply --json` without --yes) clones a missing locked git '
            'checkout into AGENTPACK_HOME/cache/git/<sha256(url)>/<commit> (documented auto-fetch, SPEC 4.4)')

MCP_TOOLS = ['deploy_apply', 'rollback', 'evolve_propose', 'evolve_restore']

class Collector:
    """buffers verdicts produced in worker processes; flushed into ctx by the main process"""
    def __init__(self, known):
        self.v = []; self.k = []; self._known = set(known)
    def violation(self, what, case, no_input=False): self.v.append((what, case, no_input))
    def known_finding(self, kid, what): self.k.append((kid, what))
    def is_known(self, kid): return kid in self._known
    def flush(self, ctx, pool):
        for kid, what in self.k: ctx.known_finding(kid, what)
        pool.extend(self.v)

def areas_term(delta, w):
    codes = sorted({C.AREA_CODES.get(a, 8) for a in C.classify_delta(delta, w)})
    return cq.clist([cq.cN(c) for c in codes]), codes

def judge_pair(ctx, w, inv, a, b, cat, known_k8a):
    """the property predicate on one (no --yes, --yes) pair of runs.  Returns (case dict, refusal, delta_b)"""
    exp = C.expected_command_id(inv)
    case = {'stream': 'cli', 'world': w.kind, 'history': w.info.get('history'), 'invocation': inv.describe(), 'expected_command_id': exp,
            'without_yes': C.summarize(a), 'with_yes': C.summarize(b)}
    da = a['delta']; db = b['delta']
    # K8a is the auto-fetch of *planning* commands; fetch / update populate the cache by design and are judged in full
    known_k8a = known_k8a and inv.cid not in ('fetch', 'update')
    if da and C.only_cache_git(da, w) and known_k8a:
        ctx.known_finding(K8A, K8A_WHAT)
        da = {}
    if db and known_k8a and w.info.get('cache_missing'):
        db2 = C.strip_cache_git(db, w)
        if len(db2) != len(db):
            ctx.known_finding(K8A, K8A_WHAT)
        db = db2
    refusal = C.confirm_refusal(a['doc'])
    if da:
        ctx.violation('`agentpack %s --json` without --yes changed the sandbox: %s' % (' '.join(inv.argv), C.diff_paths(da, w.sb.root)[:6]), case)
    if a['doc'] is None:
        ctx.violation('`agentpack %s --json` printed no JSON document on stdout' % ' '.join(inv.argv), case)
    if db:
        if a['rc'] == 0 or refusal is None:
            ctx.violation('`agentpack %s --json --yes` writes (%s) but without --yes the command is not refused with E_CONFIRM_REQUIRED (exit %s, error %s)'
                          % (' '.join(inv.argv), C.diff_paths(db, w.sb.root)[:4], a['rc'], (C.first_error(a['doc']) or {}).get('code')), case)
    if refusal is not None:
        if a['rc'] == 0:
            ctx.violation('E_CONFIRM_REQUIRED with exit status 0', case)
        if refusal != exp:
            ctx.violation('E_CONFIRM_REQUIRED names %r, the invoked command is %r' % (refusal, exp), case)
        if refusal not in cat.mutating:
            ctx.violation('command %r is refused with E_CONFIRM_REQUIRED but help --json does not advertise it as mutating' % (refusal,), case)
    return case, refusal, db

def run_world(kind, invs_seed, quick, known_k8a, hist_steps=0):
    """all invocations of one world (runs in a worker process); returns plain data"""
    import random
    rng = random.Random(invs_seed)
    gen = C.gen_tables(); cat, _ = C.load_catalogue()
    w = C.build_world(kind, 'c08')
    if hist_steps:
        C.perturb(w, rng, hist_steps)
    ctx = Collector([K8A] if known_k8a else [])
    out = {'cases': [], 'refused': set(), 'n': 0, 'usage': 0, 'counts': [], 'samples': [], 'exercised': set(), 'col': ctx}
    try:
        R = C.Runner(w, cat)
        invs = []
        for cid in cat.leaf_ids():
            if not cat.supports_json(cid):
                continue
            invs += C.invocations_for(cat, cid, w, rng, alternates=4 if quick else 0, full=not quick)
        for inv in invs:
            a = R.run(inv, yes=False)
            if C.is_usage_error(a['rc'], a['out'], a['err']):
                out['usage'] += 1
                continue
            b = R.run(inv, yes=True)
            f = R.probe(inv)
            case, refusal, db = judge_pair(ctx, w, inv, a, b, cat, known_k8a)
            out['n'] += 1
            out['exercised'].add(inv.cid)
            if refusal is not None:
                out['refused'].add(refusal)
            wrote = bool(db)
            f.update(C.flag_facts(inv, json_mode=True, yes=False))
            f['body_writes'] = wrote
            if inv.cid == 'deploy' and (hist_steps or not f.get('plan_nonempty')):
                # "a used root lacks its manifest" depends on the roots the selected profile/target uses and, after a
                # random history, is not known by construction; it only matters when the plan is empty
                f['manifest_missing'] = wrote and not f.get('plan_nonempty')
            aterm, acodes = areas_term(db, w)
            if wrote or refusal is not None:
                # C08_yes_mode_independent observed on the binary (informational, never an alarm: C08 itself says nothing about
                # human mode): the same invocation with --yes and WITHOUT --json writes in the same areas and succeeds / fails alike
                h = R.run(inv, json_mode=False, yes=True)
                dh = h['delta']
                if dh and known_k8a and inv.cid not in ('fetch', 'update') and w.info.get('cache_missing'):
                    dh = C.strip_cache_git(dh, w)
                _, hcodes = areas_term(dh, w)
                out['human_n'] = out.get('human_n', 0) + 1
                if hcodes != acodes or (h['rc'] == 0) != (b['rc'] == 0):
                    hc = dict(case); hc['stream'] = 'human'
                    hc['human_yes'] = {'rc': h['rc'], 'areas': hcodes, 'changed_paths': h['paths'][:25], 'stderr_tail': h['err'][-300:]}
                    hc['json_yes_areas'] = acodes
                    out.setdefault('human_mismatch', []).append(hc)
            cid_obs = a['doc'].get('command_id') if isinstance(a['doc'], dict) else ''
            term = cq.cpair(cq.cstr(inv.cid), C.facts_term(f), cq.copt(refusal, cq.cstr), cq.cstr(cid_obs or ''),
                            cq.cbool(wrote), aterm)
            case['facts'] = {k: bool(f.get(k, False)) for k in C.FACT_ORDER}
            case['areas_with_yes'] = acodes
            out['cases'].append((term, case))
            outcome = 'refused' if refusal is not None else ('ok' if a['rc'] == 0 else 'error:%s' % ((C.first_error(a['doc']) or {}).get('code')))
            out['counts'].append(((kind, inv.cid, inv.flags, inv.dry, outcome, wrote), wrote or refusal is not None,
                                  ['world:' + kind, 'outcome:' + outcome.split(':')[0], 'wrote_with_yes:%s' % wrote]))
            if len(out['samples']) < 1 and refusal is not None and wrote:
                out['samples'].append(case)
        out['resets'] = R.resets
    finally:
        w.close()
    return out

# ---------------------------------------------------------------- MCP stream

def mcp_variants(w, tool, rng):
    snaps = w.info.get('snapshots') or ['1']
    base = [{}]
    if tool == 'rollback':
        return [{'to': snaps[0]}, {'to': 'nope'}]
    if tool == 'deploy_apply':
        return [{}, {'target': 'codex'}, {'adopt': True}, {'target': 'bogus'}]
    if tool == 'evolve_propose':
        return [{}, {'scope': 'machine'}, {'module_id': 'skill:helper'}]
    if tool == 'evolve_restore':
        return [{}, {'module_id': 'command:hello'}, {'target': 'claude_code'}]
    return base

def run_mcp_world(kind, seed, known_k8a):
    import random
    rng = random.Random(seed)
    gen = C.gen_tables(); cat, _ = C.load_catalogue()
    w = C.build_world(kind, 'c08m')
    ctx = Collector([K8A] if known_k8a else [])
    out = {'cases': [], 'counts': [], 'refused': set(), 'col': ctx}
    try:
        R = C.Runner(w, cat)
        for tool in MCP_TOOLS:
            cid = gen['mcp_mutating_tools'].get(tool)
            for args0 in mcp_variants(w, tool, rng):
                for dry in ((False, True) if tool != 'rollback' else (False,)):
                    args = dict(args0)
                    if dry: args['dry_run'] = True
                    # A: yes omitted or false
                    a_args = dict(args)
                    if rng.random() < 0.5: a_args['yes'] = False
                    msg_a, env_a, bad_a, _ = C.mcp_call_once(w, tool, a_args)
                    after = w.snapshot(); da = snap_diff(R.base, after); R.back_to_base(after) if da else None
                    # A': (deploy_apply) yes omitted or false, but WITH the confirm_token of a preceding deploy call: a token is
                    # not an approval — same refusal, nothing written
                    if tool == 'deploy_apply':
                        srv = Mcp(w.sb, {'EDITOR': ''})
                        try:
                            common = {k: v for k, v in args.items() if k in ('target', 'profile', 'machine', 'repo')}
                            m0, e0 = srv.call('deploy', common)
                            tok = (e0 or {}).get('data', {}).get('confirm_token') if e0 and e0.get('ok') else None
                            if tok:
                                t_args = dict(a_args); t_args['confirm_token'] = tok
                                msg_t, env_t = srv.call(tool, t_args)
                            else:
                                env_t = None
                        finally:
                            srv.close()
                        after = w.snapshot(); dt = snap_diff(R.base, after); R.back_to_base(after) if dt else None
                        if tok:
                            tcase = {'stream': 'mcp', 'world': kind, 'tool': tool, 'arguments_without_yes': {k: ('<token>' if k == 'confirm_token' else v) for k, v in t_args.items()},
                                     'without_yes': {'ok': (env_t or {}).get('ok'), 'error': (C.first_error(env_t) or {}).get('code'), 'changed_paths': C.diff_paths(dt, w.sb.root)[:20]}}
                            if dt and C.only_cache_git(dt, w) and known_k8a:
                                ctx.known_finding(K8A, K8A_WHAT); dt = {}
                            if dt:
                                ctx.violation('MCP tool deploy_apply with a confirm_token but without yes=true changed the sandbox: %s' % (C.diff_paths(dt, w.sb.root)[:6]), tcase)
                            if not args.get('dry_run') and env_a is not None and C.confirm_refusal(env_a) is not None and C.confirm_refusal(env_t) != C.confirm_refusal(env_a):
                                ctx.violation('MCP tool deploy_apply without yes=true is refused with E_CONFIRM_REQUIRED, but not when a confirm_token is passed along (%r)'
                                              % ((C.first_error(env_t) or {}).get('code'),), tcase)
                            out['counts'].append(((kind, tool, 'token_no_yes', bool(args.get('dry_run'))), True, ['mcp:token_without_yes']))
                    # B: yes = true (deploy_apply needs the token of a preceding deploy call)
                    b_args = dict(args); b_args['yes'] = True
                    pre = None
                    srv = Mcp(w.sb, {'EDITOR': ''})
                    try:
                        if tool == 'deploy_apply':
                            common = {k: v for k, v in args.items() if k in ('target', 'profile', 'machine', 'repo')}
                            m0, e0 = srv.call('deploy', common)
                            if e0 and e0.get('ok'):
                                b_args['confirm_token'] = e0['data'].get('confirm_token')
                        msg_b, env_b = srv.call(tool, b_args)
                    finally:
                        srv.close()
                    after = w.snapshot(); db = snap_diff(R.base, after); R.back_to_base(after) if db else None
                    case = {'stream': 'mcp', 'world': kind, 'tool': tool, 'arguments_without_yes': a_args, 'arguments_with_yes': {k: ('<token>' if k == 'confirm_token' else v) for k, v in b_args.items()},
                            'without_yes': {'ok': (env_a or {}).get('ok'), 'error': (C.first_error(env_a) or {}).get('code'), 'changed_paths': C.diff_paths(da, w.sb.root)[:20]},
                            'with_yes': {'ok': (env_b or {}).get('ok'), 'error': (C.first_error(env_b) or {}).get('code'), 'changed_paths': C.diff_paths(db, w.sb.root)[:20]}}
                    if da and C.only_cache_git(da, w) and known_k8a:
                        ctx.known_finding(K8A, K8A_WHAT); da = {}
                    if db and known_k8a and w.info.get('cache_missing'):
                        db = C.strip_cache_git(db, w)
                    refusal = C.confirm_refusal(env_a)
                    if env_a is None:
                        ctx.violation('MCP %s returned no envelope' % tool, case)
                    if da:
                        ctx.violation('MCP tool %s without yes=true changed the sandbox: %s' % (tool, C.diff_paths(da, w.sb.root)[:6]), case)
                    if db and refusal is None:
                        ctx.violation('MCP tool %s writes with yes=true but is not refused with E_CONFIRM_REQUIRED without it' % tool, case)
                    if refusal is not None and refusal != cid:
                        ctx.violation('MCP tool %s refusal names %r, expected %r' % (tool, refusal, cid), case)
                    if refusal is not None:
                        out['refused'].add(refusal)
                    # world facts for the model: same probes as the CLI, through the CLI with the same common args
                    glob = []
                    for k in ('target', 'profile', 'machine'):
                        if k in args: glob += ['--' + k, str(args[k])]
                    leaf = {'deploy_apply': 'deploy', 'rollback': 'rollback', 'evolve_propose': 'evolve propose', 'evolve_restore': 'evolve restore'}[tool]
                    argv = glob + leaf.split(' ')
                    if tool == 'evolve_propose':
                        if 'module_id' in args: argv += ['--module-id', args['module_id']]
                        if 'scope' in args: argv += ['--scope', args['scope']]
                    if tool == 'evolve_restore' and 'module_id' in args:
                        argv += ['--module-id', args['module_id']]
                    inv = C.Invocation(leaf, argv, (['apply'] if tool == 'deploy_apply' else []) + (['adopt'] if args.get('adopt') else []), dry)
                    f = R.probe(inv)
                    wrote = bool(db)
                    f['body_writes'] = wrote
                    if tool == 'deploy_apply' and not f.get('plan_nonempty'):
                        f['manifest_missing'] = wrote
                    aterm, acodes = areas_term(db, w)
                    term = cq.cpair(cq.cstr(tool), cq.cbool(dry), C.facts_term(f), cq.copt(refusal, cq.cstr), cq.cbool(wrote), aterm)
                    case['facts'] = {k: bool(f.get(k, False)) for k in C.FACT_ORDER}
                    out['cases'].append((term, case))
                    out['counts'].append(((kind, tool, json.dumps(args, sort_keys=True), refusal is not None, wrote), True,
                                          ['world:' + kind, 'tool:' + tool, 'refused:%s' % (refusal is not None), 'wrote_with_yes:%s' % wrote]))
    finally:
        w.close()
    return out

# ---------------------------------------------------------------- replay

def replay(ctx, cat, gen):
    rep = json.load(open(ctx.replay))
    kind = rep.get('world')
    if rep.get('stream') == 'cli' and kind and not rep.get('history'):
        w = C.build_world(kind, 'c08r')
        try:
            R = C.Runner(w, cat)
            i = rep['invocation']
            inv = C.Invocation(i['command'], i['argv'], i['flags'], i['dry_run'], i['stdin'].encode() if i.get('stdin') else None)
            a = R.run(inv, yes=False); b = R.run(inv, yes=True)
            judge_pair(ctx, w, inv, a, b, cat, ctx.is_known(K8A))
            ctx.count('replay', key=json.dumps(i, sort_keys=True))
        finally:
            w.close()
    else:
        ctx.notes.append('replay file names a proof obligation or a non-CLI case; running the full check instead')
        return False
    return True

# ---------------------------------------------------------------- entry

def rebase_noyes_stream(ctx, n):
    """overlay rebase in JSON mode without --yes over generated (baseline, overlay edit, new upstream) triples — dir and
    patch overlays, conflicts, files deleted upstream: plain it must be refused with an unchanged overlay directory, with
    --dry-run it may run but must leave the overlay directory (conflict artifacts, baseline) byte-identical
    (scenario machinery of props/c14.py; only its without-yes predicates are judged here)"""
    from props import c14
    rng = ctx.rng
    specs = []
    for i in range(n):
        sp = c14.gen_spec(rng, i, kind=rng.choice(['dir', 'patch', 'patch']), quick=True)
        for st in sp['steps']:
            st['noyes'] = True; st['dry_noyes'] = True; st['dry_first'] = False; st['second'] = False
        specs.append(sp)
    def job(sp):
        try:
            return c14.run_scenario(sp)
        except InfraError:
            return None
    with concurrent.futures.ThreadPoolExecutor(max_workers=8) as ex:
        results = list(ex.map(job, specs))
    for sp, R in zip(specs, results):
        if R is None:
            ctx.count('rebase_noyes', key=('infra', sp.get('name')), nontrivial=False, tags=['skipped']); continue
        codes = tuple(sorted({str(iv['code']) for iv in R.ivs_summary if iv['name'] in ('noyes', 'dry_noyes')}))
        ctx.count('rebase_noyes', key=(sp.get('kind'), len(sp['steps']), codes, sp.get('name')), tags=['kind:%s' % sp.get('kind')] + ['code:%s' % c for c in codes])
        for what, extra in R.viol:
            if 'without --yes' in what or 'refused' in what:
                ctx.violation(what, {'stream': 'rebase_noyes', 'spec': sp, 'detail': extra})

def run(ctx):
    quick = ctx.tier == 'quick'
    ctx.rule = ('catalogue = leaf commands of the binary\'s own `help --json` (cross-checked with Cli::command_path and MUTATING_COMMAND_IDS from source); '
                'for every leaf command that supports --json x every subset of its own flags x --dry-run on/off (primary option values; plus random single '
                'deviations of positional/option/global values%s) x every world class %s: run `--json` without --yes, snapshot the whole sandbox '
                '(files, modes, git refs/index entries/config of every repo), restore, run the same with --yes, snapshot; MCP: the four mutating tools x '
                'argument variants x dry_run with yes=false vs yes=true (token from deploy). non-trivial = refused or writes with --yes; distinct = '
                '(world, command, flags, dry_run, outcome, wrote).' % (' — all of them in thorough' if not quick else '', C.WORLD_KINDS))
    ctx.trusted = ['Coq 8.16.1 kernel + vm_compute', 'hand-written model coq/Model/Dispatch.v (handler programs)',
                   'tools/gen_tables.py (MUTATING_COMMAND_IDS, guard-site literals, command_path arms, MCP tool registry)',
                   'Python world builder / snapshotter (git index parsed: stat cache ignored) / MCP client']
    ctx.assumptions = ['PARTIAL: "the process wrote nothing" is an observation of the real binary on the sampled worlds, not a theorem',
                       'world facts for the model come from independent dry-run probes of the same binary',
                       'init --guided needs a TTY and is exercised only up to E_TTY_REQUIRED']
    ctx.proof_phase(extra_targets=['Corr/Check_C08.vo'])
    gen = C.gen_tables()
    cat, helpdoc = C.load_catalogue()
    for p in C.cross_check_catalogue(cat, gen):
        ctx.violation('the notions of "mutating command" disagree: ' + p, {'stream': 'catalogue', 'help_mutating': cat.mutating,
                                                                          'source_mutating': gen['mutating_ids'], 'guard_sites': gen['guard_site_ids']})
    ctx.count('catalogue', key='help-json', tags=['commands:%d' % len(cat.commands), 'mutating:%d' % len(cat.mutating)])
    if ctx.replay and replay(ctx, cat, gen):
        return
    rebase_noyes_stream(ctx, 40 if quick else 400)
    known_k8a = ctx.is_known(K8A)
    kinds = list(C.WORLD_KINDS)
    hjobs = [] if quick else [(ctx.rng.choice(['deployed', 'pending', 'fresh', 'nomanifest', 'bootstrapped', 'adopt']), ctx.rng.randrange(2, 7), ctx.rng.randrange(1 << 30)) for _ in range(40)]
    seeds = {k: ctx.rng.randrange(1 << 30) for k in kinds}
    mseeds = {k: ctx.rng.randrange(1 << 30) for k in kinds}
    results = {}
    with concurrent.futures.ProcessPoolExecutor(max_workers=min(8, NCPU)) as ex:
        futs = {k: ex.submit(run_world, k, seeds[k], quick, known_k8a) for k in kinds}
        mkinds = ['fresh', 'deployed', 'pending', 'pending_dirty', 'nomanifest', 'gitmodule'] if quick else list(kinds)
        mfuts = {k: ex.submit(run_mcp_world, k, mseeds[k], known_k8a) for k in mkinds}
        hfuts = [ex.submit(run_world, k, sd, quick, known_k8a, hs) for k, hs, sd in hjobs]
        for k in kinds:
            results[k] = futs[k].result()
        for i, f in enumerate(hfuts):
            kinds.append('history-%d' % i); results['history-%d' % i] = f.result()
        mres = {k: mfuts[k].result() for k in mkinds}
    cases = []; refused = set(); exercised = set(); pool = []
    for k in kinds:
        r = results[k]
        r['col'].flush(ctx, pool)
        cases += r['cases']; refused |= r['refused']; exercised |= r['exercised']
        for key, nt, tags in r['counts']:
            ctx.count('cli', key=key, nontrivial=nt, tags=tags)
        for s_ in r['samples']:
            ctx.sample(s_)
        ctx.log('world %s: %d invocations, %d rejected by clap, %d full resets' % (k, r['n'], r['usage'], r.get('resets', 0)))
        ctx.count('human', key=(k, r.get('human_n', 0)), nontrivial=r.get('human_n', 0) > 0, tags=['world:' + k, 'human_yes_runs:%d' % r.get('human_n', 0)])
        if r.get('human_mismatch'):
            # not part of the property (C08 speaks about --json and MCP only): recorded, never an alarm
            hm = r['human_mismatch']
            ctx.notes.append('world %s: %d of %d `--yes` runs without --json differ from the --json --yes run in exit status class or areas written '
                             '(outside C08; the human-mode half of C08_yes_mode_independent does not describe the binary there), first: %r'
                             % (k, len(hm), r.get('human_n', 0), hm[0].get('invocation')))
    # exactness on the binary: the commands observed refusing are exactly the advertised mutating set
    complete = exercised >= {i for i in cat.leaf_ids() if cat.supports_json(i)}
    missing = [m for m in cat.mutating if m not in refused]
    if complete and missing:
        ctx.violation('help --json advertises %r as mutating but no invocation of it was refused in any world class' % (missing,),
                      {'stream': 'exactness', 'advertised': cat.mutating, 'observed_refusing': sorted(refused)})
    ctx.count('exactness', key=tuple(sorted(refused)), tags=['refusing_ids:%d' % len(refused)])
    for c in ctx.corr('cli', HEADER, 'check_cli', 'str * facts * option str * str * bool * list N', cases)[:6]:
        ctx.violation('model and implementation disagree on guard / would_write / command id / write areas', c, no_input=True)
    mcases = []
    for k, r in mres.items():
        r['col'].flush(ctx, pool)
        mcases += r['cases']
        for key, nt, tags in r['counts']:
            ctx.count('mcp', key=key, nontrivial=nt, tags=tags)
    if mcases:
        ctx.sample(mcases[0][1])
    kept, dropped = C.cap_violations(pool)
    for what, case, ni in kept:
        ctx.violation(what, case, no_input=ni)
    if dropped:
        ctx.notes.append('%d further violations of the same (command, kind) not written as replays' % dropped)
    for c in ctx.corr('mcp', HEADER, 'check_mcp', 'str * bool * facts * option str * bool * list N', mcases)[:6]:
        ctx.violation('model and implementation disagree on an MCP mutating tool (guard / would_write / areas)', c, no_input=True)
