"""C07 — Apply and rollback stay consistent under crashes and I/O errors."""
import os, json, hashlib, shutil, stat, re
from vlib.common import *
from vlib import coqrun as cq
from vlib import deploysim as ds, world
from vlib.impl import Sandbox

HEADER = 'From AP Require Import Corr.Check_C07.\nOpen Scope N_scope.\n'
KINDC = {'mkdir': 0, 'tmp_create': 1, 'tmp_write': 2, 'rename': 3, 'backup': 4, 'remove': 5, 'copy': 9}

def save_world(sb):
    saved = {}
    for dp, dns, fns in os.walk(sb.root):
        for dn in dns: saved[os.path.join(dp, dn)] = None
        for fn in fns:
            p = os.path.join(dp, fn)
            saved[p] = ('link', os.readlink(p)) if os.path.islink(p) else open(p, 'rb').read()
        for dn in list(dns):
            p = os.path.join(dp, dn)
            if os.path.islink(p): saved[p] = ('link', os.readlink(p)); dns.remove(dn)
    return saved

def restore_world(sb, saved):
    for name in os.listdir(sb.root):
        p = os.path.join(sb.root, name)
        if os.path.isdir(p): shutil.rmtree(p)
        else: os.remove(p)
    for p in sorted(saved):
        if saved[p] is None: os.makedirs(p, exist_ok=True)
    for p, b in saved.items():
        if isinstance(b, tuple):
            os.makedirs(os.path.dirname(p), exist_ok=True)
            if os.path.lexists(p): os.rmdir(p) if os.path.isdir(p) and not os.path.islink(p) else os.remove(p)
            os.symlink(b[1], p)
    for p, b in saved.items():
        if b is not None and not isinstance(b, tuple):
            os.makedirs(os.path.dirname(p), exist_ok=True)
            with open(p, 'wb') as f: f.write(b)

def read_trace(path):
    out = []
    if os.path.exists(path):
        for line in open(path, errors='replace'):
            parts = line.rstrip('\n').split('\t')
            if len(parts) == 3: out.append((int(parts[0]), parts[1], parts[2]))
    return out

def canon_trace(sb, lines, candidates):
    """-> (offset, [(kind, class, text)]) for the apply / rollback phase (from the first point under aphome/state)"""
    snaps = os.path.join(sb.aphome, 'state', 'snapshots')
    hmap = {}
    for p in candidates:
        hmap[hashlib.sha256(p.encode()).hexdigest()[:16]] = p
    start = next((i for i, (_, k, p) in enumerate(lines) if p.startswith(snaps) or p.startswith(sb.home) or p.startswith(sb.project)), None)
    if start is None:
        return None, []
    out = []
    for _, kind, p in lines[start:]:
        kc = KINDC.get(kind, 9)
        if p == snaps: out.append((kc, 1, ''))
        elif p.startswith(snaps + '/'):
            rest = p[len(snaps) + 1:].split('/')
            if len(rest) == 1 and rest[0].endswith('.json'): out.append((kc, 7, ''))
            elif len(rest) == 2: out.append((kc, 2 if rest[1] == 'backup' else 3, ''))
            elif len(rest) == 3: out.append((kc, 4 if rest[1] == 'backup' else 5, rest[2]))
            elif len(rest) == 4:
                orig = hmap.get(rest[3], '?' + rest[3])
                orig = orig[len(sb.root):] if orig.startswith(sb.root) else orig
                out.append((kc, 8 if rest[1] == 'backup' else 6, orig))
            else: out.append((kc, 99, p))
        elif p.startswith(sb.home) or p.startswith(sb.project): out.append((kc, 0, p[len(sb.root):]))
        else: out.append((kc, 98, p))
    return start, out

def visible(tree):
    """drop orphaned temp files (NamedTempFile names: .tmpXXXXXX)"""
    return {p: b for p, b in tree.items() if not re.match(r'^\.tmp[A-Za-z0-9]{4,}$', os.path.basename(p))}

def snapshot_records(sb):
    d = os.path.join(sb.aphome, 'state', 'snapshots')
    return sorted(x for x in os.listdir(d) if x.endswith('.json')) if os.path.isdir(d) else []

def check_record_complete(sb, rec_name):
    """a visible snapshot record implies everything needed to roll back to it is on disk"""
    d = os.path.join(sb.aphome, 'state', 'snapshots')
    try:
        v = json.load(open(os.path.join(d, rec_name)))
    except Exception:
        return 'snapshot record %s is not complete JSON' % rec_name
    sid = v['id']
    for f in v.get('managed_files', []):
        sp = os.path.join(d, sid, 'state', ds.mf_name('x')[:0] + ''.join(c if (c.isascii() and c.isalnum()) or c in '-_' else '_' for c in f['target']),
                          hashlib.sha256(f['path'].encode()).hexdigest()[:16])
        if not os.path.exists(sp) or hashlib.sha256(open(sp, 'rb').read()).hexdigest() != f['sha256']:
            return 'record %s visible but state file for %s missing or wrong' % (rec_name, f['path'])
    for c in v.get('changes', []):
        if c.get('backup_path') and c['op'] in ('update', 'delete'):
            if not os.path.exists(c['backup_path']):
                return 'record %s visible but backup for %s missing' % (rec_name, c['path'])
            if c.get('before_sha256') and hashlib.sha256(open(c['backup_path'], 'rb').read()).hexdigest() != c['before_sha256']:
                return 'record %s visible but backup for %s is not byte-identical to the replaced content' % (rec_name, c['path'])
    return None

def backup_of(sb, target, abs_path, since):
    d = os.path.join(sb.aphome, 'state', 'snapshots')
    key = hashlib.sha256(abs_path.encode()).hexdigest()[:16]
    safe = ''.join(c if (c.isascii() and c.isalnum()) or c in '-_' else '_' for c in target)
    out = []
    if os.path.isdir(d):
        for sid in os.listdir(d):
            p = os.path.join(d, sid, 'backup', safe, key)
            if os.path.isfile(p) and sid not in since:
                out.append(open(p, 'rb').read())
    return out

def classified(tree, ids):
    return {p: ds.fobj_of(p, b, ids) for p, b in tree.items()}

def norm_manifest(o):
    return ('P', o[1], o[2], tuple(sorted(o[3]))) if o[0] == 'P' else o

def same_final(a, b, ids):
    ca = {p: norm_manifest(o) for p, o in classified(visible(a), ids).items()}
    cb = {p: norm_manifest(o) for p, o in classified(visible(b), ids).items()}
    return ca == cb, [p for p in set(ca) | set(cb) if ca.get(p) != cb.get(p)]

def directed_legacy_unused(cw, sb, rng):
    """regression for K7d: every root only keeps a legacy-named manifest, and the next deploy removes
    the last managed files of some roots (their modules are switched off)"""
    for r in cw.roots(None):
        pref = r['root'] + '/' + ds.mf_name(r['target']); leg = r['root'] + '/' + ds.LEGACY
        if os.path.exists(pref) and not os.path.exists(leg):
            os.rename(pref, leg)
    kinds = sorted({m['type'] for m in cw.modules})
    off = set(rng.sample(kinds, rng.randrange(1, len(kinds) + 1))) if kinds else set()
    for m in cw.modules:
        if m['type'] in off: m['enabled'] = False
    return ['directed:legacy_unused']

def directed_symlink(cw, sb, rng):
    """the user keeps some deployed files as symlinks to files elsewhere; the deploy updates them"""
    tree = ds.world_tree(sb)
    deployed = sorted(sb.root + p for p in tree if not ds.is_manifest_name(os.path.basename(p)))
    for p in rng.sample(deployed, min(len(deployed), rng.randrange(1, 3))):
        own = os.path.join(sb.home, 'userfiles', 'own%d.txt' % rng.randrange(3))
        ds.world.write(own, open(p, 'rb').read() if rng.random() < 0.5 else b'my own notes\n')
        os.remove(p); os.symlink(own, p)
    for m in cw.modules:
        for fn in sorted(m['files']):
            if fn == 'SKILL.md': m['files'][fn] = ds.skill_md(m['id'].split(':')[1], 'rev')
            elif m['type'] == 'command': m['files'][fn] = ds.command_md('do rev')
            else: m['files'][fn] = b'revision\n' * 3
    return ['directed:symlink']

def directed_legacy_used(cw, sb, rng):
    """regression for /repo 800fc7e (was half of K7f): every root keeps only a legacy-named manifest with the right
    entries; one module changes, so the deploy rewrites the manifests; after an interruption between two manifest
    writes the re-run must migrate the remaining legacy manifests too"""
    for r in cw.roots(None):
        pref = r['root'] + '/' + ds.mf_name(r['target']); leg = r['root'] + '/' + ds.LEGACY
        if os.path.exists(pref) and not os.path.exists(leg):
            os.rename(pref, leg)
    mods = [m for m in cw.modules if m['enabled']]
    m = sorted(mods, key=lambda m: m['id'])[0]
    fn = 'SKILL.md' if m['type'] == 'skill' else sorted(m['files'])[0]
    m['files'][fn] = ds.skill_md(m['id'].split(':')[1], 'changed') if fn == 'SKILL.md' else (ds.command_md('do changed') if m['type'] == 'command' else b'changed\n')
    return ['directed:legacy_used']

def directed_no_manifests_empty(cw, sb, rng):
    """witness for K7f: the user removed every manifest (the snapshot is the record) and every module is switched off;
    the deploy deletes everything and writes an empty manifest into each root it deleted from; after an
    interruption the re-run only does that for the roots that still had something to delete"""
    for r in cw.roots(None):
        for q in (r['root'] + '/' + ds.mf_name(r['target']), r['root'] + '/' + ds.LEGACY):
            if os.path.exists(q): os.remove(q)
    for m in cw.modules: m['enabled'] = False
    return ['directed:no_manifests_empty']

def directed_all_empty(cw, sb, rng):
    """regression for K7e: the deploy empties every remaining root (all manifests are rewritten empty) while an
    earlier snapshot still lists files of a nested root that is switched off now; an interruption after the last
    manifest write must not make the re-run fall back to that snapshot"""
    cw.opts['write_agents_global'] = True
    nested = [o for o in ('write_user_skills', 'write_user_prompts') if cw.opts[o]]
    if nested:
        cw.opts[rng.choice(nested)] = False
    for m in cw.modules:
        m['enabled'] = False
    return ['directed:all_empty']

def directed_adopt(cw, sb, rng):
    """the deploy adopts files the user wrote: new outputs (a prompt added to the configuration, the files of modules
    switched on again) land on paths where files of the user's own already are; an interruption between the backup and
    the write must leave the user's file (or the new one) in place"""
    before = {d['path'] for d in cw.desired(None)}
    for _ in range(rng.randrange(1, 3)): cw.add_prompt()
    for m in cw.modules:
        if not m['enabled']: m['enabled'] = True
    n = 0
    for d in cw.desired(None):
        if d['path'] not in before and not os.path.lexists(d['path']):
            ds.world.write(d['path'], b'written by the user before agentpack knew this path\n'); n += 1
    return ['directed:adopt', 'adopted:%d' % n]

def first_deploy_all_on(cw):
    cw.opts = {k: True for k in cw.opts}
    if not any(m['type'] == 'instructions' for m in cw.modules):
        cw.modules.append({'id': 'instructions:base', 'type': 'instructions', 'dir': 'modules/instructions/base',
                           'files': {'AGENTS.md': b'# rules\n'}, 'targets': [], 'enabled': True})
    if not any(m['type'] == 'skill' for m in cw.modules):
        cw.modules.append({'id': 'skill:s9', 'type': 'skill', 'dir': 'modules/skills/s9', 'files': {'SKILL.md': ds.skill_md('s9', 'one')}, 'targets': [], 'enabled': True})
    if not any(m['type'] == 'prompt' for m in cw.modules): cw.add_prompt()

def run_scenario(ctx, idx, kinds, max_points, cases, directed=None):
    rng = ctx.rng
    sb = Sandbox('c07'); sb.git_init_project()
    try:
        cw = ds.CfgWorld(sb, rng)
        while not cw.desired(None):
            cw = ds.CfgWorld(sb, rng)
        if directed in (directed_all_empty, directed_legacy_used, directed_no_manifests_empty):
            first_deploy_all_on(cw)
        cw.write()
        base = sb.root
        sb.cli_json(['deploy', '--apply', '--yes', '--adopt'])
        tags = []
        if directed is not None:
            tags += directed(cw, sb, rng)
            cw.write()
        else:
            for _ in range(rng.randrange(1, 4)):
                tags.append('cfg:' + cw.edit_config())
            cw.write()
            for _ in range(rng.randrange(0, 3)):
                t = ds.user_edit(rng, cw)
                if not t.startswith('manifest:'): tags.append('user:' + t)
        flt = None
        saved = save_world(sb)
        before = ds.world_tree(sb)
        since = set(os.listdir(os.path.join(sb.aphome, 'state', 'snapshots'))) if os.path.isdir(os.path.join(sb.aphome, 'state', 'snapshots')) else set()
        recs_before = snapshot_records(sb)
        D = ds.relD(cw.desired(flt), base); R = ds.relR(cw.roots(flt), base)
        D.sort(key=lambda d: (d['target'], d['path'].split('/')))    # DesiredState is a BTreeMap<(target, PathBuf)>: component-wise order
        ids = ds.Ids()
        lm = ds.latest_managed_of(sb, base)
        tr = os.path.join(sb.canary, 'trace.txt')
        rc, doc, out, err = sb.cli_json(['deploy', '--apply', '--yes', '--adopt'], extra_env={'AGENTPACK_VERIF_TRACE': tr})
        lines = read_trace(tr)
        rec = {'stream': 'crash', 'scenario': idx, 'tags': tags,
               'config': {'opts': cw.opts, 'claude': cw.claude, 'modules': [{k: (v if k != 'files' else {a: b.hex() for a, b in v.items()}) for k, v in m.items()} for m in cw.modules]},
               'before': {p: b.hex() for p, b in before.items()}}
        if not (doc and doc.get('ok')):
            ctx.notes.append('scenario %d: reference deploy failed (%s); skipped' % (idx, out[:120])); return
        if not doc['data'].get('applied'):
            ctx.count('crash', key=('noop',), nontrivial=False, tags=['noop']); return
        final = ds.world_tree(sb)
        plan = doc['data']['changes']
        cands = [base + d['path'] for d in D] + [c['path'] for c in plan] + [base + r['root'] + '/' + ds.mf_name(r['target']) for r in R]
        offset, ctrace = canon_trace(sb, lines, cands)
        nlines = len(ctrace)
        msrc = ds.snapshot_fallback(before, R, ids, lm)      # None: the manifests decide
        # which fault points to exercise
        points = list(range(nlines))
        if max_points and len(points) > max_points:
            points = sorted(rng.sample(points, max_points))
        prefixes = []
        universe = ds.hist_universe([before, final], [D], [R])
        for j in points:
            for kind in kinds:
                restore_world(sb, saved)
                k = offset + j + 1
                p = sb.cli(['deploy', '--apply', '--yes', '--adopt', '--json'], extra_env={'AGENTPACK_VERIF_FAULT': '%d:%s' % (k, kind)})
                after = ds.world_tree(sb)
                so = p.stdout.decode('utf-8', 'replace')
                r2 = dict(rec, fault_point=j, fault_kind=kind, trace_line=ctrace[j], rc=p.returncode, stdout=so[:600])
                ctx.count('crash', key=(kind, ctrace[j][0], ctrace[j][1]), nontrivial=True, tags=['fault:' + kind, 'at:%d/%d' % (ctrace[j][0], ctrace[j][1])])
                # exit status / envelope
                if p.returncode == 0:
                    ctx.violation('%s injected at fault point %d (%s) but the command exited 0 (silent partial success)' % (kind, j, ctrace[j]), r2); continue
                if kind != 'abort':
                    try:
                        env = json.loads(so)
                        okenv = env.get('ok') is False and env.get('errors') and isinstance(env['errors'][0].get('code'), str) and env.get('data') == {}
                    except Exception:
                        env = None; okenv = False
                    if not okenv:
                        ctx.violation('I/O error at fault point %d (%s) did not produce a well-formed error envelope' % (j, ctrace[j]), r2)
                    elif kind == 'EACCES':
                        code = env['errors'][0]['code']
                        if code != 'E_IO_PERMISSION_DENIED':
                            kf = 'K7a'
                            if ctx.is_known(kf): ctx.known_finding(kf, KNOWN['K7a'])
                            else: ctx.violation('permission error at fault point %d (%s) reported as %s, not the stable E_IO_PERMISSION_DENIED' % (j, ctrace[j], code), r2)
                # old-or-new for every target file
                vis = visible(after)
                for q in set(before) | set(vis) | set(final):
                    if vis.get(q) not in (before.get(q), final.get(q)):
                        if ds.is_manifest_name(os.path.basename(q)):
                            ca = norm_manifest(ds.fobj_of(q, vis[q], ids)) if q in vis else None
                            cf = norm_manifest(ds.fobj_of(q, final[q], ids)) if q in final else None
                            if ca == cf: continue
                        ctx.violation('after %s at point %d file %s holds neither its previous nor its new content' % (kind, j, q), r2)
                # backups
                for c in plan:
                    q = c['path'][len(base):] if c['path'].startswith(base) else c['path']
                    if q in before and vis.get(q) != before[q]:
                        if before[q] not in backup_of(sb, c['target'], c['path'], since):
                            ctx.violation('after %s at point %d %s was replaced/removed without a byte-identical backup' % (kind, j, q), r2)
                # record visibility
                for rn in snapshot_records(sb):
                    if rn not in recs_before:
                        msg = check_record_complete(sb, rn)
                        if msg: ctx.violation('after %s at point %d: %s' % (kind, j, msg), r2)
                if kind == 'abort':
                    prefixes.append((j, after))
                # re-run reaches the uninterrupted final state
                rc3, doc3, out3, err3 = sb.cli_json(['deploy', '--apply', '--yes', '--adopt'])
                again = ds.world_tree(sb)
                same, diffp = same_final(again, final, ids)
                if not (doc3 and doc3.get('ok')) or not same:
                    only_manifests = bool(doc3 and doc3.get('ok')) and all(ds.is_manifest_name(os.path.basename(q)) for q in diffp)
                    noop = bool(doc3 and doc3.get('ok')) and not doc3['data'].get('applied')
                    # class K7f: the re-run succeeded, only manifest FILES differ and every root lists exactly the same
                    # files in both states (an empty manifest of a root without outputs was not re-created, or a
                    # legacy-named manifest with the right entries was not migrated to the per-target name)
                    same_listing = bool(doc3 and doc3.get('ok')) and all(
                        ds.accepted_entries(visible(again), [r], ids) == ds.accepted_entries(visible(final), [r], ids) for r in R)
                    if only_manifests and noop and ctx.is_known('K7c'):
                        # class K7c: all file changes were done, only (stale) manifests differ, the re-run took the no-change shortcut
                        ctx.known_finding('K7c', KNOWN['K7c'])
                    elif only_manifests and same_listing and ctx.is_known('K7f'):
                        ctx.known_finding('K7f', KNOWN['K7f'])
                    else:
                        ctx.violation('re-running after %s at point %d does not reach the uninterrupted final state (%s)' % (kind, j, diffp[:3] or out3[:120]), r2)
        # Coq case: trace + abort prefixes
        obs_tr = cq.clist([cq.cpair(cq.cN(a), cq.cN(b), cq.cstr(c)) for a, b, c in ctrace])
        prefs = cq.clist([cq.cpair(cq.cnat(j), ds.c_obs_after(universe, visible(a), ids)) for j, a in prefixes])
        term = cq.cpair(ds.c_disk(before, ids), ds.c_roots(R), ds.c_desired(D, ids),
                        cq.copt(msrc, lambda l: cq.clist([cq.cpair(cq.cstr(t), cq.cstr(p_)) for t, p_ in l])), obs_tr, prefs)
        cases.append((term, dict(rec, trace=ctrace)))
        if idx < 2:
            ctx.sample({'stream': 'crash', 'tags': tags, 'points': nlines, 'plan': [(c['op'], c['path'][len(base):]) for c in plan][:6]})
    finally:
        sb.close()

KNOWN = {'K7a': 'a permission error outside write_atomic (backup copy, remove_file, create_dir_all of snapshot dirs) is reported as E_UNEXPECTED instead of the stable E_IO_PERMISSION_DENIED',
         'K7b': 'rollback ignores remove_file errors: it exits 0 and records rollback_delete although the file is still there',
         'K7f': 'after a re-run the manifest FILES can differ from the uninterrupted run although every root lists exactly the same files: an empty manifest of a root without outputs (written by the uninterrupted run because it deleted files there) is not re-created',
         'K7c': 're-running deploy after an interruption between the file writes and the manifest writes takes the no-change shortcut and never rewrites the stale manifests'}

def snapshot_term(sb, sid, ids, base, with_manifests):
    """Coq term (SN ...) of a real snapshot record: managed files and (optionally) the manifests it wrote, read from state/"""
    d = os.path.join(sb.aphome, 'state', 'snapshots')
    v = json.load(open(os.path.join(d, sid + '.json')))
    managed = [cq.cpair(cq.cstr(f['target']), cq.cstr(f['path'][len(base):]), cq.cN(ids.of_sha(f['sha256']))) for f in v.get('managed_files', [])]
    mans = []
    if with_manifests:
        for c in v.get('changes', []):
            if ds.is_manifest_name(os.path.basename(c['path'])) and c['op'] in ('create', 'update'):
                safe = ''.join(ch if (ch.isascii() and ch.isalnum()) or ch in '-_' else '_' for ch in c['target'])
                sp = os.path.join(d, sid, 'state', safe, hashlib.sha256(c['path'].encode()).hexdigest()[:16])
                if os.path.exists(sp):
                    rel = c['path'][len(base):]
                    mans.append(cq.cpair(cq.cstr(c['target']), cq.cstr(rel), ds.c_fobj(ds.fobj_of(rel, open(sp, 'rb').read(), ids))))
    return '(SN %s %s)' % (cq.clist(managed), cq.clist(mans)), v

def head_of(sb):
    head = None
    for sid in ds.list_snapshot_ids(sb):
        v = ds.load_snapshot(sb, sid)
        k = v.get('kind', 'deploy')
        if k in ('deploy', 'bootstrap'): head = sid
        elif k == 'rollback' and v.get('rolled_back_to'): head = v['rolled_back_to']
    return head

def rollback_faults(ctx, nscen, kinds, cases):
    """rollback under faults: trace and abort prefixes go to Coq (steps_of_rollback); oracle: old-or-new, non-zero exit,
    re-run reaches the uninterrupted result"""
    rng = ctx.rng
    for idx in range(nscen):
        sb = Sandbox('c07r'); sb.git_init_project()
        try:
            cw = ds.CfgWorld(sb, rng)
            while not cw.desired(None):
                cw = ds.CfgWorld(sb, rng)
            cw.write(); base = sb.root
            rc, d1, _, _ = sb.cli_json(['deploy', '--apply', '--yes', '--adopt'])
            for _ in range(3): cw.edit_config()
            if rng.random() < 0.6: cw.add_prompt()
            cw.write()
            rc, d2, _, _ = sb.cli_json(['deploy', '--apply', '--yes', '--adopt'])
            if not (d1 and d1.get('ok') and d1['data'].get('applied') and d2 and d2.get('ok') and d2['data'].get('applied')):
                continue
            if rng.random() < 0.5:
                ds.user_edit(rng, cw, manifests=False)
            S = d1['data']['snapshot_id']
            ids = ds.Ids()
            saved = save_world(sb); before = ds.world_tree(sb)
            tgt_term, tgt_json = snapshot_term(sb, S, ids, base, True)
            cur_term, cur_json = snapshot_term(sb, head_of(sb), ids, base, False)
            tr = os.path.join(sb.canary, 'trace.txt')
            rc, doc, out, err = sb.cli_json(['rollback', '--to', S, '--yes'], extra_env={'AGENTPACK_VERIF_TRACE': tr})
            lines = read_trace(tr); final = ds.world_tree(sb)
            if not (doc and doc.get('ok')): continue
            cands = [f['path'] for f in tgt_json.get('managed_files', [])] + [f['path'] for f in cur_json.get('managed_files', [])] + \
                    [c['path'] for c in tgt_json.get('changes', [])]
            offset, ctrace = canon_trace(sb, lines, cands)
            prefixes = []
            for j in range(len(lines)):
                for kind in kinds:
                    restore_world(sb, saved)
                    p = sb.cli(['rollback', '--to', S, '--yes', '--json'], extra_env={'AGENTPACK_VERIF_FAULT': '%d:%s' % (j + 1, kind)})
                    after = visible(ds.world_tree(sb))
                    r2 = {'stream': 'rollback_fault', 'scenario': idx, 'fault_point': j, 'fault_kind': kind, 'line': lines[j][1:], 'rc': p.returncode,
                          'stdout': p.stdout.decode('utf-8', 'replace')[:400]}
                    ctx.count('rollback_fault', key=(kind, lines[j][1]), tags=['fault:' + kind, 'op:' + lines[j][1]])
                    if p.returncode == 0:
                        same, diffp = same_final(after, final, ids)
                        ctx.violation('%s at rollback point %d (%s) but exit 0%s' % (kind, j, lines[j][1], '' if same else ' with a partial result (%s)' % diffp[:3]), r2)
                        continue
                    if kind != 'abort':
                        try:
                            env = json.loads(p.stdout.decode('utf-8', 'replace'))
                            okenv = env.get('ok') is False and env.get('errors') and env.get('data') == {}
                        except Exception:
                            env = None; okenv = False
                        if not okenv:
                            ctx.violation('I/O error at rollback point %d (%s) did not produce a well-formed error envelope' % (j, lines[j][1]), r2)
                        elif kind == 'EACCES' and env['errors'][0]['code'] != 'E_IO_PERMISSION_DENIED':
                            ctx.violation('permission error at rollback point %d (%s) reported as %s' % (j, lines[j][1], env['errors'][0]['code']), r2)
                    for q in set(before) | set(after) | set(final):
                        if after.get(q) not in (before.get(q), final.get(q)):
                            ctx.violation('after %s at rollback point %d file %s holds neither its previous nor its new content' % (kind, j, q), r2)
                    if any(x not in ds.list_snapshot_ids(sb) for x in []): pass
                    if kind == 'abort' and offset is not None and j >= offset:
                        prefixes.append((j - offset, after))
                    rc3, doc3, out3, _ = sb.cli_json(['rollback', '--to', S, '--yes'])
                    again = ds.world_tree(sb)
                    same, diffp = same_final(again, final, ids)
                    if not (doc3 and doc3.get('ok')) or not same:
                        ctx.violation('re-running rollback after %s at point %d does not reach the uninterrupted result (%s)' % (kind, j, diffp[:3] or out3[:100]), r2)
            if offset is not None:
                universe = set(before) | set(final)
                obs_tr = cq.clist([cq.cpair(cq.cN(a), cq.cN(b), cq.cstr(c)) for a, b, c in ctrace])
                prefs = cq.clist([cq.cpair(cq.cnat(j), ds.c_obs_after(universe, a, ids)) for j, a in prefixes])
                term = cq.cpair(ds.c_disk(before, ids), tgt_term, cur_term, obs_tr, prefs, ds.c_obs_after(universe, visible(final), ids))
                cases.append((term, {'stream': 'rollback_crash', 'scenario': idx, 'trace': ctrace, 'before': {p: b.hex() for p, b in before.items()}}))
        finally:
            sb.close()

def run(ctx):
    quick = ctx.tier == 'quick'
    ctx.rule = ('crash: generated (config, earlier deploy, config + user edits) scenarios; the reference deploy is traced through the cfg(agentpack_verif) fault points; '
                'then for every fault point k of the apply phase (quick: a sample) and every fault kind the command is re-executed from the same saved world with the fault '
                'injected: exit status / envelope, old-or-new, backups, record visibility, then a re-run must reach the reference final state; abort prefixes and the trace go to Coq; '
                'rollback_fault: the same over rollback; distinct = distinct (fault kind, step kind, step class)')
    ctx.trusted = ['Coq 8.16.1 kernel + vm_compute', 'hand-written models coq/Model/Crash.v, Deploy.v', 'fault hook cfg(agentpack_verif) verif_hooks::point (placement before each mutating fs operation)',
                   'harness world save/restore, trace canonicaliser (hash -> original path), manifest classifier', 'reference desired state (harness CfgWorld)']
    ctx.assumptions = ['a crash is modelled as process abort at a fault point: operations before it are complete, later ones not started (no torn single write, no lost rename; power loss / page cache are outside)',
                       'orphaned temp files and orphaned snapshot directories of an aborted run are excluded from the final-state comparison',
                       'SHA-256 injective on the file contents at hand']
    ctx.proof_phase(extra_targets=['Corr/Check_C07.vo'])
    cases = []
    kinds = ['abort', 'EACCES'] if quick else ['abort', 'EACCES', 'ENOSPC', 'EIO']
    for i in range(5 if quick else 60):
        run_scenario(ctx, i, kinds, 14 if quick else None, cases)
    for i in range(2 if quick else 6):
        run_scenario(ctx, 1000 + i, kinds, 14 if quick else None, cases, directed=directed_legacy_unused)
    for i in range(2 if quick else 6):
        run_scenario(ctx, 2000 + i, kinds, 20 if quick else None, cases, directed=directed_all_empty)
    for i in range(2 if quick else 6):
        run_scenario(ctx, 3000 + i, kinds, 20 if quick else None, cases, directed=directed_symlink)
    for i in range(2 if quick else 6):
        run_scenario(ctx, 4000 + i, ['abort'], None, cases, directed=directed_legacy_used)      # regression for fix 800fc7e
    for i in range(2 if quick else 6):
        run_scenario(ctx, 5000 + i, ['abort'], None, cases, directed=directed_no_manifests_empty)   # witness for K7f
    for i in range(2 if quick else 12):
        run_scenario(ctx, 6000 + i, ['abort'], 24 if quick else None, cases, directed=directed_adopt)
    for c in ctx.corr('crash', HEADER, 'check_crash', 'crash_case', cases, shard_chars=40000):
        ctx.violation('model and implementation disagree on the sequence of mutating operations / a crash-prefix disk', c, no_input=True)
    rcases = []
    rollback_faults(ctx, 3 if quick else 30, kinds, rcases)
    for c in ctx.corr('rollback_crash', HEADER, 'check_rollback_crash', 'rb_case', rcases, shard_chars=40000):
        ctx.violation('model and implementation disagree on rollback\'s sequence of mutating operations / a crash-prefix disk', c, no_input=True)
