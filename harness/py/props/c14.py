"""C14 — Overlay rebase is a faithful three-way merge that never loses an edit."""
import os, re, json, shutil, concurrent.futures
from vlib.common import *
from vlib import coqrun as cq
from vlib.impl import Sandbox, snap_diff
from vlib import world
_run = run      # vlib.common.run (the module-level run(ctx) below shadows the name)

HEADER = 'From AP Require Import Corr.Check_C14.\nOpen Scope N_scope.\n'
MODULE_ID = 'skill:demo'
MODULE_REL = 'modules/skills/demo'
SKILL_MD = '---\nname: demo\ndescription: d\n---\nbody\n'
INDEX_RE = re.compile(rb'^index [0-9a-f]{7,40}\.\.[0-9a-f]{7,40}', re.M)
CORPUS_DIR = os.path.join(CORPUS, 'C14')
MARK_RE = re.compile(rb'^([+\- ]?)(<<<<<<<|>>>>>>>) \S*/\.tmp\w+(\r?)$', re.M)

# ------------------------------------------------------------------ sandbox / world

class Sb(Sandbox):
    """Sandbox whose agentpack home is either <root>/aphome (AGENTPACK_HOME set) or the DEFAULT
    <home>/.agentpack with AGENTPACK_HOME unset ('default') / set to it ('dotset')."""
    def __init__(self, home_mode='aphome'):
        super().__init__('c14')
        self.home_mode = home_mode
        if home_mode in ('default', 'dotset'):
            self.aphome = os.path.join(self.home, '.agentpack')
            os.makedirs(self.aphome, exist_ok=True)
            self.repo = os.path.join(self.aphome, 'repo')
    def env(self, extra=None):
        # TMPDIR is left at the system default on purpose: agentpack runs `git apply` in a private
        # temp dir, and git silently skips patches when that directory lies inside a git work tree
        # (the scratch area is below /verif, which is one)
        e = super().env(extra)
        e['EDITOR'] = ''
        # the scratch area lies inside /verif's own git work tree: keep git's repository discovery
        # inside the sandbox, so "config repo is not a git repo" really is one
        e['GIT_CEILING_DIRECTORIES'] = self.root
        if self.home_mode == 'default':
            e.pop('AGENTPACK_HOME', None)
        return e

def norm_markers(b):
    """conflict-marker labels are temp-file names of the merging process: canonicalise them"""
    def f(m):
        return m.group(1) + m.group(2) + (b' OURS' if m.group(2) == b'<<<<<<<' else b' THEIRS') + m.group(3)
    b = MARK_RE.sub(f, b)
    if b.startswith(b'diff --git '):
        # blob ids in a patch's index line hash the marker labels too: not compared
        b = INDEX_RE.sub(b'index 0000000..0000000', b)
    return b

class Git:
    """the harness's own calls to git: oracle values for merge3 / apply / diff"""
    def __init__(self, sb):
        self.sb = sb; self.n = 0
        self.merge_cache = {}; self.apply_cache = {}; self.diff_cache = {}
        # the oracle calls run below the scratch root, i.e. inside /verif's work tree: stop discovery
        self.env = sb.env()
    def _dir(self):
        self.n += 1
        d = os.path.join(self.sb.root, 'oracle', str(self.n)); os.makedirs(d)
        return d
    def merge3(self, base, ours, theirs):
        k = (base, ours, theirs)
        if k not in self.merge_cache:
            d = self._dir()
            for nm, c in (('o', ours), ('b', base), ('t', theirs)):
                world.write(os.path.join(d, nm), c)
            p = _run(['git', 'merge-file', '-p', '-L', 'OURS', '-L', 'BASE', '-L', 'THEIRS', 'o', 'b', 't'], cwd=d, env=self.env)
            self.merge_cache[k] = (p.returncode, p.stdout)
            shutil.rmtree(d, ignore_errors=True)
        return self.merge_cache[k]
    def apply(self, patch, rel, target):
        k = (patch, rel, target)
        if k not in self.apply_cache:
            d = self._dir()
            world.write(os.path.join(d, 'w', rel), target)
            world.write(os.path.join(d, 'p.patch'), patch)
            p = _run(['git', '-c', 'core.autocrlf=false', 'apply', '--whitespace=nowarn', os.path.join(d, 'p.patch')],
                    cwd=os.path.join(d, 'w'), env=self.env)
            res = None
            if p.returncode == 0:
                try:
                    res = open(os.path.join(d, 'w', rel), 'rb').read()
                except OSError:
                    res = None
            self.apply_cache[k] = res
            shutil.rmtree(d, ignore_errors=True)
        return self.apply_cache[k]
    def diff(self, rel, a, b):
        k = (rel, a, b)
        if k not in self.diff_cache:
            d = self._dir()
            world.write(os.path.join(d, 'a', rel), a)
            world.write(os.path.join(d, 'b', rel), b)
            p = _run(['git', '-c', 'core.autocrlf=false', 'diff', '--no-index', '--src-prefix=', '--dst-prefix=', '--',
                     'a/' + rel, 'b/' + rel], cwd=d, env=self.env)
            self.diff_cache[k] = p.stdout if p.returncode == 1 else (None if p.returncode == 0 else b'?diff-failed')
            shutil.rmtree(d, ignore_errors=True)
        return self.diff_cache[k]

def read_tree(root, skip_meta=True):
    """relative posix path -> bytes for regular files below root (optionally without .agentpack/.git)"""
    out = {}
    if not os.path.isdir(root):
        return out
    for dp, dns, fns in os.walk(root):
        if skip_meta:
            dns[:] = [d for d in dns if d not in ('.agentpack', '.git')]
        for fn in fns:
            p = os.path.join(dp, fn)
            if os.path.isfile(p) and not os.path.islink(p):
                out[os.path.relpath(p, root).replace(os.sep, '/')] = open(p, 'rb').read()
    return out

class World:
    """git-backed config repo with one local_path skill module and one overlay of it"""
    def __init__(self, home_mode='aphome', git_repo=True):
        self.sb = Sb(home_mode); self.sb.git_init_project()
        self.repo = self.sb.repo
        self.git_repo = git_repo
        self.codex_home = os.path.join(self.sb.home, 'codex_home'); os.makedirs(self.codex_home)
        self.mod = os.path.join(self.repo, MODULE_REL)
        self.g = Git(self.sb)
        self.commits = []          # commit ids in order
        self.heads = []            # committed upstream tree per commit (rel -> bytes)
        man = {'version': 1, 'profiles': {'default': {'include_tags': ['base']}},
               'targets': {'codex': {'mode': 'files', 'scope': 'user', 'options': {
                   'codex_home': self.codex_home, 'write_agents_global': False, 'write_agents_repo_root': False,
                   'write_user_skills': True, 'write_repo_skills': False, 'write_user_prompts': False}}},
               'modules': [{'id': MODULE_ID, 'type': 'skill', 'tags': ['base'],
                            'source': {'local_path': {'path': MODULE_REL}}}]}
        world.write(os.path.join(self.mod, 'SKILL.md'), SKILL_MD)
        world.write_config(self.repo, man)
        self.overlay_dir = None
    def git(self, *a, check=True):
        p = _run(['git', '-C', self.repo] + list(a), env=self.sb.env())
        if check and p.returncode != 0:
            raise InfraError('git %r failed: %s' % (a, p.stderr.decode('utf-8', 'replace')[:300]))
        return p.stdout.decode('utf-8', 'replace')
    def set_upstream(self, files):
        """files: rel -> bytes or None (delete); SKILL.md is left alone"""
        for rel, c in files.items():
            p = os.path.join(self.mod, rel)
            if c is None:
                if os.path.exists(p): os.remove(p)
                d = os.path.dirname(p)
                while d != self.mod and os.path.isdir(d) and not os.listdir(d):
                    os.rmdir(d); d = os.path.dirname(d)
            else:
                world.write(p, c)
    def upstream(self):
        return read_tree(self.mod, skip_meta=False)
    def commit(self):
        if not self.git_repo:
            return None
        if not self.commits:
            self.git('init', '-q')
        self.git('add', '-A', MODULE_REL, 'agentpack.yaml')
        self.git('commit', '-q', '--allow-empty', '-m', 'c%d' % len(self.commits))
        h = self.git('rev-parse', 'HEAD').strip()
        self.commits.append(h); self.heads.append(self.upstream())
        return h
    def head_tree(self):
        return self.heads[-1] if self.heads else {}
    def cli_json(self, args):
        rc, doc, out, err = self.sb.cli_json(args)
        if doc is None:
            raise InfraError('no JSON envelope from %r: %s %s' % (args, out[:300], err[:300]))
        return rc, doc
    def overlay_edit(self, scope, kind='dir', sparse=False):
        args = ['overlay', 'edit', MODULE_ID, '--scope', scope, '--yes']
        if kind == 'patch': args += ['--kind', 'patch']
        elif sparse: args += ['--sparse']
        rc, doc = self.cli_json(args)
        if not doc.get('ok'):
            raise InfraError('overlay edit failed: %r' % (doc.get('errors'),))
        self.overlay_dir = doc['data']['overlay_dir']
        return doc
    # ---- observation of the overlay directory
    def ov_files(self):
        t = read_tree(self.overlay_dir); return t
    def ov_sub(self, sub):
        return read_tree(os.path.join(self.overlay_dir, '.agentpack', sub), skip_meta=False)
    def ov_kind(self):
        p = os.path.join(self.overlay_dir, '.agentpack', 'overlay.json')
        if not os.path.exists(p): return 'dir'
        return json.load(open(p)).get('overlay_kind', 'dir')
    def baseline(self):
        p = os.path.join(self.overlay_dir, '.agentpack', 'baseline.json')
        if not os.path.exists(p): return None
        return json.load(open(p))
    def snapshot(self):
        """canonical overlay-directory snapshot: every file's bytes, baseline.json without created_at"""
        t = read_tree(self.overlay_dir, skip_meta=False)
        k = '.agentpack/baseline.json'
        if k in t:
            try:
                d = json.loads(t[k]); d.pop('created_at', None); t[k] = json.dumps(d, sort_keys=True).encode()
            except Exception:
                pass
        return t
    def raw_snapshot(self):
        return read_tree(self.overlay_dir, skip_meta=False)
    def rebase(self, scope, sparsify=False, dry=False, yes=True):
        args = ['overlay', 'rebase', MODULE_ID, '--scope', scope]
        if sparsify: args.append('--sparsify')
        if dry: args.append('--dry-run')
        if yes: args.append('--yes')
        rc, doc = self.cli_json(args)
        obs = {'rc': rc, 'ok': bool(doc.get('ok')), 'code': None, 'updated': None, 'deleted': None, 'skipped': None,
               'conflicts': None, 'summary': None}
        if doc.get('ok'):
            rep = doc['data']['report']
            for k in ('updated', 'deleted', 'skipped', 'conflicts'):
                obs[k] = list(rep[k])
            obs['summary'] = rep['summary']
        else:
            e = doc['errors'][0]; obs['code'] = e['code']
            det = e.get('details') or {}
            if e['code'] == 'E_OVERLAY_REBASE_CONFLICT':
                obs['conflicts'] = list(det.get('conflicts') or []); obs['summary'] = det.get('summary')
        return obs
    def materialised(self):
        """what deploys from an empty target root: rel -> sha256 (plan --json), or an error code"""
        rc, doc = self.cli_json(['plan'])
        if not doc.get('ok'):
            return {'code': doc['errors'][0]['code']}
        pre = os.path.join(self.codex_home, 'skills', 'demo') + os.sep
        out = {}
        for c in doc['data']['changes']:
            if c['path'].startswith(pre):
                out[c['path'][len(pre):].replace(os.sep, '/')] = c.get('after_sha256')
        return {'files': out}
    def close(self):
        self.sb.close()

# ------------------------------------------------------------------ spec helpers

def L1(b):
    return b.decode('latin-1') if b is not None else None
def B1(t):
    return t.encode('latin-1') if t is not None else None

def render(lines, nl=True):
    return ('\n'.join(lines) + ('\n' if (nl and lines) else '')).encode()

def edit(lines, *eds):
    out = list(lines)
    for e in eds:
        if e[0] == 'rep' and out: out[min(e[1], len(out) - 1)] = e[2]
        elif e[0] == 'ins': out.insert(min(e[1], len(out)), e[2])
        elif e[0] == 'del' and len(out) > 1: del out[min(e[1], len(out) - 1)]
    return out

DIR_PATHS = ['a.md', 'b.txt', 'd/c.md', 'd/e/f.md', 'z.md', 'a-b.md', 'a/b.md', 'Ü.md', 'sp ace.md', 'x.patch', '.hid', 'd.e/g']
PATCH_PATHS = ['a.md', 'b.txt', 'd/c.md', 'd/e/f.md', 'z.md', 'a-b.md', 'a/b.md', 'q.patch', 'd.e/g']
FAMILIES = ['unchanged', 'disjoint', 'adjacent', 'overlap', 'overlap_same', 'multi', 'up_unchanged', 'up_deleted',
            'ov_deleted', 'up_added', 'ov_added', 'no_newline', 'insdel', 'revert', 'takes_ours', 'binary']

def gen_file(rng, fam, nsteps, idx, kind):
    """-> dict(base, ours, ups): base bytes|None; ours bytes | None (copy removed / no patch) | 'copy';
    ups: list per step of bytes | None (deleted) | 'same'"""
    c = 'abcdefghijklmnop'[idx % 16]
    L = ['%s%d' % (c, i) for i in range(7)]
    tok = lambda s: '%s%s' % (c.upper(), s)
    base = render(L); ours = 'copy'; ups = []
    cur = list(L)
    def later(k):
        nonlocal cur
        r = rng.random()
        if cur is None:
            if r < 0.3:
                cur = edit(L, ('rep', rng.randrange(7), tok('r%d' % k))); return render(cur)
            return 'same'
        if r < 0.45:
            cur = edit(cur, rng.choice([('rep', rng.randrange(7), tok('u%d' % k)), ('ins', rng.randrange(8), tok('i%d' % k)),
                                        ('del', rng.randrange(7))]))
            return render(cur)
        if r < 0.52:
            cur = None; return None
        return 'same'
    if fam == 'unchanged':
        cur = edit(L, ('rep', 5, tok('u'))); ups.append(render(cur) if rng.random() < 0.8 else 'same')
    elif fam == 'disjoint':
        ours = render(edit(L, ('rep', rng.choice([0, 1]), tok('o'))))
        cur = edit(L, ('rep', rng.choice([5, 6]), tok('u'))); ups.append(render(cur))
    elif fam == 'adjacent':
        ours = render(edit(L, ('rep', 2, tok('o')))); cur = edit(L, ('rep', 3, tok('u'))); ups.append(render(cur))
    elif fam == 'overlap':
        ours = render(edit(L, ('rep', 3, tok('o')))); cur = edit(L, ('rep', 3, tok('u'))); ups.append(render(cur))
    elif fam == 'overlap_same':
        ours = render(edit(L, ('rep', 3, tok('s')))); cur = edit(L, ('rep', 3, tok('s'))); ups.append(render(cur))
    elif fam == 'multi':
        ours = render(edit(L, ('rep', 0, tok('o')), ('rep', 6, tok('p'))))
        cur = edit(L, ('rep', 0, tok('u')), ('rep', 6, tok('v'))); ups.append(render(cur))
    elif fam == 'up_unchanged':
        ours = render(edit(L, rng.choice([('rep', 2, tok('o')), ('ins', 0, tok('o')), ('del', 6)]))); ups.append('same')
    elif fam == 'up_deleted':
        if rng.random() < 0.6: ours = render(edit(L, ('rep', 1, tok('o'))))
        cur = None; ups.append(None)
    elif fam == 'ov_deleted':
        ours = None; cur = edit(L, ('rep', 4, tok('u'))); ups.append(render(cur) if rng.random() < 0.7 else 'same')
    elif fam == 'up_added':
        base = None; ours = None; cur = edit(L, ('rep', 0, tok('n'))); ups.append(render(cur))
    elif fam == 'ov_added':
        base = None; ours = render(edit(L, ('rep', 0, tok('n')))); cur = None
        r = rng.random()
        if r < 0.45: cur = edit(L, ('rep', 0, tok('n'))); ups.append(render(cur))          # upstream adds the same bytes
        elif r < 0.75: cur = edit(L, ('rep', 0, tok('m'))); ups.append(render(cur))       # ... different bytes
        else: ups.append('same')
    elif fam == 'no_newline':
        base = render(L, nl=rng.random() < 0.5)
        ours = render(edit(L, ('rep', rng.choice([0, 6]), tok('o'))), nl=rng.random() < 0.5)
        cur = edit(L, ('rep', rng.choice([3, 6]), tok('u'))); ups.append(render(cur, nl=rng.random() < 0.5))
    elif fam == 'insdel':
        ours = render(edit(L, ('ins', 0, tok('o')))); cur = edit(L, ('del', 6)); ups.append(render(cur))
    elif fam == 'revert':
        ours = render(edit(L, ('rep', 1, tok('o')))); cur = edit(L, ('rep', 5, tok('u'))); ups.append(render(cur))
        if nsteps > 1: cur = list(L); ups.append(render(cur))
    elif fam == 'takes_ours':
        ours = render(edit(L, ('rep', 1, tok('o')))); cur = edit(L, ('rep', 5, tok('u'))); ups.append(render(cur))
        if nsteps > 1: cur = edit(cur, ('rep', 1, tok('o'))); ups.append(render(cur))
    elif fam == 'binary':
        base = b'\x00\xff' + render(L); ours = b'\x00\xff' + render(edit(L, ('rep', 1, tok('o'))))
        cur = None; ups.append(b'\x00\xff' + render(edit(L, ('rep', 5, tok('u')))) if rng.random() < 0.7 else 'same')
        while len(ups) < nsteps: ups.append('same')
    while len(ups) < nsteps:
        ups.append(later(len(ups) + 1))
    return {'fam': fam, 'base': base, 'ours': ours, 'ups': ups[:nsteps]}

def gen_spec(rng, idx, kind=None, quick=True):
    kind = kind or ('dir' if rng.random() < 0.6 else 'patch')
    nsteps = rng.choice([1, 1, 2, 2, 3])
    pool = list(DIR_PATHS if kind == 'dir' else PATCH_PATHS); rng.shuffle(pool)
    nfiles = rng.randrange(3, 8 if kind == 'dir' else 6)
    fams = [f for f in FAMILIES if kind == 'dir' or f not in ('ov_added', 'binary')]
    weights = [{'binary': 0.2, 'overlap': 0.45, 'multi': 0.3, 'adjacent': 0.45}.get(f, 1.0) for f in fams]
    spec = {'name': 'gen%d' % idx, 'kind': kind, 'scope': rng.choice(['global', 'machine', 'project']),
            'home_mode': rng.choice(['aphome', 'aphome', 'aphome', 'default', 'default', 'dotset']),
            'git_repo': rng.random() >= 0.04, 'edit_mode': rng.choice(['full', 'full', 'sparse']) if kind == 'dir' else 'sparse',
            'base': {}, 'ours': {}, 'raw_patches': {}, 'meta': {}, 'fams': {}, 'steps': []}
    files = []
    for i in range(nfiles):
        fam = rng.choices(fams, weights)[0]
        g = gen_file(rng, fam, nsteps, i, kind); g['path'] = pool[i]; files.append(g)
        spec['fams'][pool[i]] = fam
        if g['base'] is not None: spec['base'][pool[i]] = L1(g['base'])
        if g['ours'] is None: spec['ours'][pool[i]] = None
        elif g['ours'] != 'copy': spec['ours'][pool[i]] = L1(g['ours'])
        elif spec['edit_mode'] == 'sparse' and kind == 'dir' and rng.random() < 0.7:
            spec['ours'][pool[i]] = L1(g['base'])        # an unmodified copy placed by hand
    dirty_at = rng.randrange(nsteps) if rng.random() < 0.08 else -1
    for k in range(nsteps):
        up = {}
        for g in files:
            v = g['ups'][k]
            if v != 'same': up[g['path']] = L1(v)
        spec['steps'].append({'up': up, 'commit': k != dirty_at, 'sparsify': rng.random() < 0.35,
                              'dry_first': rng.random() < 0.55, 'second': rng.random() < 0.6,
                              'noyes': rng.random() < 0.06})
    return spec

# ------------------------------------------------------------------ running one scenario

class Run:
    def __init__(self, spec):
        self.spec = spec
        self.viol = []      # (what, extra dict)
        self.known = []     # (id, what)
        self.counts = []    # (stream, key, nontrivial, tags)
        self.known_bytes = {}
        self.steps_enc = []
        self.trace = []
    def reg(self, b):
        if b is not None: self.known_bytes[sha256_hex(b)] = b
        return b
    def by_sha(self, h):
        return self.known_bytes.get(h, b'?unknown-sha:' + str(h)[:12].encode())

def patch_target(rp):
    return rp[:-len('.patch')] if rp.endswith('.patch') and len(rp) > len('.patch') or rp == '.patch' else None

def valid_rel(p):
    return p != '' and not p.startswith('/') and all(seg not in ('', '.', '..') for seg in p.split('/'))

def has_patch_ext(rp):
    name = rp.split('/')[-1]
    if '.' not in name: return False
    before, ext = name.rsplit('.', 1)
    return before != '' and ext.lower() == 'patch'

def observe(w, R):
    st = {'exists': os.path.isdir(w.overlay_dir) if w.overlay_dir else False, 'files': {}, 'patches': {}, 'conflicts': {},
          'kind': 'dir', 'baseline': None}
    if not st['exists']:
        return st
    st['files'] = w.ov_files(); st['patches'] = w.ov_sub('patches'); st['conflicts'] = w.ov_sub('conflicts')
    for d in (st['files'], st['patches'], st['conflicts']):
        for b in d.values(): R.reg(b)
    st['kind'] = w.ov_kind()
    bl = w.baseline()
    if bl is not None:
        up = bl.get('upstream') or {}
        rev = up.get('repo_git_rev')
        st['baseline'] = {'manifest': {f['path']: f['sha256'] for f in bl['file_manifest']},
                          'rev': (w.commits.index(rev) if rev in w.commits else (None if rev is None else 999)),
                          'raw_rev': rev}
    return st

def base_of(w, st):
    """the merge base the recorded revision denotes (the harness's own record of what it committed)"""
    bl = st['baseline']
    if not bl or bl['rev'] is None or bl['rev'] >= len(w.heads):
        return {}
    return w.heads[bl['rev']]

def collect_oracles(w, R, st, up):
    """ask git (not agentpack) every question the rebase of this state against [up] can raise"""
    g = w.g
    if not st['baseline']:
        return
    base = base_of(w, st)
    if st['kind'] == 'dir':
        for r, o in st['files'].items():
            b = base.get(r); u = up.get(r)
            if b is not None and u is not None and o != b and u != b and o != u:
                rc, m = g.merge3(b, o, u); R.reg(m)
    for rp, p in st['patches'].items():
        rt = patch_target(rp)
        if rt is None or not valid_rel(rt): continue
        b = base.get(rt)
        if b is None: continue
        o = g.apply(p, rt, b)
        if o is None: continue
        R.reg(o)
        u = up.get(rt)
        if u is None: continue
        rc, m = g.merge3(b, o, u); R.reg(m)
        if rc <= 127:
            d = g.diff(rt, u, m); R.reg(d)

def collect_mat_oracles(w, R, st, up):
    for rp, p in st['patches'].items():
        rt = patch_target(rp)
        if rt is not None and valid_rel(rt) and up.get(rt) is not None:
            R.reg(w.g.apply(p, rt, up[rt]))

def invoke(w, R, spec, stepspec, up, dry, yes=True):
    """one `overlay rebase` invocation + observation of everything compared with the model"""
    pre = observe(w, R)
    collect_oracles(w, R, pre, up)
    raw_before = w.raw_snapshot() if pre['exists'] else {}
    ob = w.rebase(spec['scope'], sparsify=stepspec['sparsify'], dry=dry, yes=yes)
    raw_after = w.raw_snapshot() if pre['exists'] else {}
    post = observe(w, R)
    collect_mat_oracles(w, R, post, up)
    mat = w.materialised()
    return {'pre': pre, 'post': post, 'ob': ob, 'mat': mat, 'raw_before': raw_before, 'raw_after': raw_after,
            'dry': dry, 'yes': yes, 'sparsify': stepspec['sparsify'], 'up': dict(up), 'head': dict(w.head_tree()),
            'rev': (len(w.commits) - 1) if w.commits else None}

# ---- the property oracle (independent of the Coq model): C14's own case analysis on observed bytes

def expected_for(w, b, o, u):
    """(kind, expected materialised bytes, conflicted)"""
    if u is None:
        return ('up_deleted_unedited', None, False) if o == b else ('up_deleted_edited', o, False)
    if o == b: return ('ours_eq_base', u, False)
    if u == b: return ('up_eq_base', o, False)
    if o == u: return ('ours_eq_up', o, False)
    rc, m = w.g.merge3(b, o, u)
    if rc > 127: return ('merge_failed', None, False)
    return ('merge_conflict' if rc else 'merge_clean', m, rc != 0)

def mat_sha(iv, r):
    m = iv['mat']
    return m['files'].get(r) if 'files' in m else None

def oracle_real(w, R, spec, iv):
    """a non-dry invocation that answered ok or E_OVERLAY_REBASE_CONFLICT"""
    V = []
    pre, post, ob, up = iv['pre'], iv['post'], iv['ob'], iv['up']
    base = base_of(w, pre); man = pre['baseline']['manifest']
    lists_ok = ob['ok']
    tags = []
    any_conflict = False
    if pre['kind'] == 'dir':
        items = [(r, r, o) for r, o in pre['files'].items()]
    else:
        items = []
        for rp, p in pre['patches'].items():
            rt = patch_target(rp)
            if rt is None or not has_patch_ext(rp) or not valid_rel(rt): continue
            b = base.get(rt)
            items.append((rp, rt, w.g.apply(p, rt, b) if (b is not None and rt in man) else None))
    for key, r, o in items:
        store = post['files'] if pre['kind'] == 'dir' else post['patches']
        before = pre['files'][key] if pre['kind'] == 'dir' else pre['patches'][key]
        if r not in man:
            tags.append('untracked')
            if store.get(key) != before: V.append('untracked overlay file %s was modified or removed by rebase' % key)
            if lists_ok and r not in ob['skipped']: V.append('untracked overlay file %s not reported as skipped' % r)
            continue
        b = base.get(r)
        if b is None or sha256_hex(b) != man[r] or o is None:
            tags.append('base_unusable'); continue      # the command must have failed; checked by the caller
        u = up.get(r)
        kind, exp, conf = expected_for(w, b, o, u)
        tags.append(kind)
        if kind == 'merge_failed': continue
        edited = o != b
        now = store.get(key)
        if pre['kind'] == 'dir':
            held = norm_markers(now) if now is not None else None
            # materialised bytes = what plan would deploy for this path
            want_sha = sha256_hex(now) if now is not None else (sha256_hex(u) if u is not None else None)
            if 'files' in iv['mat'] and mat_sha(iv, r) != want_sha:
                V.append('materialised %s is not overlay-over-upstream' % r)
            if exp is None:
                if now is not None: V.append('%s: unedited copy of a file deleted upstream was kept' % r)
            elif held is None:
                # deleted: only an unedited copy, or under sparsify a result identical to upstream
                if not ((not edited) or (iv['sparsify'] and u is not None and exp == u and not conf)):
                    V.append('edited overlay file %s was deleted (family %s)' % (r, kind))
                if u is not None and exp != u: V.append('%s deleted although the merged result differs from upstream' % r)
            elif held != norm_markers(exp):
                V.append('%s: overlay does not hold the expected %s result' % (r, kind))
            if kind == 'up_deleted_edited':
                if now != o: V.append('%s: edited file whose upstream was deleted was not left untouched' % r)
                if lists_ok and r not in ob['skipped']: V.append('%s: upstream-deleted edited file not reported as skipped' % r)
            if edited and held is not None and held not in (norm_markers(o), norm_markers(exp)):
                V.append('no-silent-loss: %s holds neither ours nor the merge output' % r)
        else:
            # patch overlay: materialisation = new patch applied to new upstream
            if u is None:
                any_conflict = True
                if r not in (ob['conflicts'] or []): V.append('patch %s: upstream deleted but not reported as conflict' % r)
                art = post['conflicts'].get(r)
                if art is None or o not in art or b'<<<<<<<' not in art: V.append('patch %s: no conflict artefact holding the edited text' % r)
                if now != before: V.append('patch %s: patch file changed although upstream was deleted' % r)
                continue
            if conf:
                art = post['conflicts'].get(r)
                if art is None or norm_markers(art) != norm_markers(exp): V.append('patch %s: conflict artefact is not the merge-file output' % r)
                got = w.g.apply(now, r, u) if now is not None else u
                if got is None or norm_markers(got) != norm_markers(exp): V.append('patch %s: rewritten patch does not produce the conflict-marked text' % r)
            else:
                got = w.g.apply(now, r, u) if now is not None else u
                if got != exp: V.append('patch %s: rebased patch applied to the new upstream is not the %s result' % (r, kind))
                if now is None and exp != u: V.append('patch %s deleted although merged result differs from upstream' % r)
                if 'files' in iv['mat'] and mat_sha(iv, r) != sha256_hex(exp): V.append('materialised %s differs from the %s result' % (r, kind))
        if conf:
            any_conflict = True
            if r not in (ob['conflicts'] or []): V.append('%s: merge conflicted but the file is not listed in conflicts' % r)
            if pre['kind'] == 'dir' and (now is None or b'<<<<<<<' not in now): V.append('%s: conflicted but the overlay holds no conflict markers' % r)
        elif ob['conflicts'] and r in ob['conflicts'] and kind != 'merge_conflict':
            V.append('%s listed in conflicts without a conflict' % r)
    # files outside the overlay materialise as upstream
    if 'files' in iv['mat'] and pre['kind'] == 'dir':
        for r, u in up.items():
            if r not in pre['files'] and r not in post['files'] and mat_sha(iv, r) != sha256_hex(u):
                V.append('%s is not overlaid but does not materialise as upstream' % r)
    if any_conflict and ob['code'] != 'E_OVERLAY_REBASE_CONFLICT':
        V.append('conflicts exist but the command did not answer E_OVERLAY_REBASE_CONFLICT (got %r)' % (ob['code'] or 'ok'))
    if not any_conflict and ob['code'] == 'E_OVERLAY_REBASE_CONFLICT':
        V.append('E_OVERLAY_REBASE_CONFLICT without any conflicting file')
    # baseline refreshed to the upstream now / HEAD
    nb = post['baseline']
    if nb is None or nb['manifest'] != {r: sha256_hex(c) for r, c in up.items()} or nb['rev'] != iv['rev']:
        V.append('baseline was not refreshed to the current upstream / HEAD after a completed rebase')
    return V, tags, any_conflict

def run_scenario(spec):
    R = Run(spec)
    w = World(spec['home_mode'], spec.get('git_repo', True))
    try:
        base = {k: B1(v) for k, v in spec['base'].items()}
        base['SKILL.md'] = SKILL_MD.encode()
        for c in base.values(): R.reg(c)
        w.set_upstream(base); w.commit()
        meta = spec.get('meta', {})
        if not meta.get('skip_edit'):
            w.overlay_edit(spec['scope'], kind=spec['kind'], sparse=(spec.get('edit_mode') == 'sparse'))
            for p, c in spec['ours'].items():
                if spec['kind'] == 'dir':
                    f = os.path.join(w.overlay_dir, p)
                    if c is None:
                        if os.path.exists(f): os.remove(f)
                    else:
                        world.write(f, B1(c))
                elif c is not None and p in base:
                    d = w.g.diff(p, base[p], B1(c))
                    if d is not None: world.write(os.path.join(w.overlay_dir, '.agentpack/patches', p + '.patch'), d)
            for rp, c in spec.get('raw_patches', {}).items():
                world.write(os.path.join(w.overlay_dir, '.agentpack/patches', rp), B1(c))
            for p, c in meta.get('raw_files', {}).items():
                world.write(os.path.join(w.overlay_dir, p), B1(c))
            if meta.get('kind_override'):
                world.write(os.path.join(w.overlay_dir, '.agentpack/overlay.json'), json.dumps({'overlay_kind': meta['kind_override']}))
            if meta.get('remove_baseline'):
                os.remove(os.path.join(w.overlay_dir, '.agentpack/baseline.json'))
        else:
            rc, doc = w.cli_json(['overlay', 'path', MODULE_ID, '--scope', spec['scope']])
            w.overlay_dir = doc['data']['overlay_dir']
        init = observe(w, R)
        init_base = base_of(w, init)
        ivs = []
        for k, st in enumerate(spec['steps']):
            upd = {p: B1(c) for p, c in st['up'].items()}
            for c in upd.values(): R.reg(c)
            w.set_upstream(upd)
            if st.get('commit', True): w.commit()
            up = w.upstream()
            if st.get('materialize') and spec['kind'] == 'dir' and w.overlay_dir and os.path.isdir(w.overlay_dir):
                # `overlay edit --materialize` between the upstream update and the rebase: it may add files the overlay
                # lacks (copies of the current upstream); the recorded baseline of the EXISTING overlay - the revision
                # its edits were made against - and its existing files must stay as they are
                pre_m = observe(w, R); snap_m = w.snapshot()
                rc_m, doc_m = w.cli_json(['overlay', 'edit', MODULE_ID, '--scope', spec['scope'], '--materialize', '--yes'])
                post_m = observe(w, R); snap_m2 = w.snapshot()
                if doc_m.get('ok') and pre_m['baseline'] is not None:
                    if (post_m['baseline'] or {}).get('raw_rev') != pre_m['baseline'].get('raw_rev') or (post_m['baseline'] or {}).get('manifest') != pre_m['baseline']['manifest']:
                        R.viol.append(('overlay edit --materialize moved the recorded baseline of an existing overlay (the next rebase merges against the wrong base: upstream edits to files the overlay changed are dropped silently)',
                                       {'scenario': spec['name'], 'kind': spec['kind'], 'step': k, 'before': pre_m['baseline'].get('raw_rev'), 'after': (post_m['baseline'] or {}).get('raw_rev')}))
                    changed_m = sorted(q for q in snap_m if not q.startswith('.agentpack/') and snap_m2.get(q) != snap_m[q])
                    if changed_m:
                        R.viol.append(('overlay edit --materialize changed existing overlay files', {'scenario': spec['name'], 'files': changed_m}))
            seq = []
            if st.get('noyes'): seq.append(('noyes', False, False))
            if st.get('dry_noyes'): seq.append(('dry_noyes', True, False))
            if st.get('dry_first'): seq.append(('dry', True, True))
            seq.append(('real', False, True))
            if st.get('second'): seq.append(('second', False, True))
            got = {}
            for name, dry, yes in seq:
                iv = invoke(w, R, spec, st, up, dry, yes); iv['name'] = name; iv['step'] = k
                ivs.append(iv); got[name] = iv
            check_step(w, R, spec, st, got)
        R.term = scenario_term(w, R, init, init_base, ivs)
        R.ivs_summary = [{'step': iv['step'], 'name': iv['name'], 'code': iv['ob']['code'], 'updated': iv['ob']['updated'],
                          'deleted': iv['ob']['deleted'], 'skipped': iv['ob']['skipped'], 'conflicts': iv['ob']['conflicts'],
                          'mat_error': iv['mat'].get('code')} for iv in ivs]
        return R
    finally:
        w.close()

ALLOWED_ERRS = {'E_OVERLAY_BASELINE_UNSUPPORTED', 'E_UNEXPECTED', 'E_CONFIG_INVALID', 'E_OVERLAY_NOT_FOUND', 'E_OVERLAY_BASELINE_MISSING'}

def k14b_class(iv1):
    """sparsify, and an overlay file the old baseline did not track equals the new upstream file"""
    man = (iv1['pre']['baseline'] or {}).get('manifest', {})
    return iv1['sparsify'] and iv1['pre']['kind'] == 'dir' and any(
        r not in man and iv1['up'].get(r) == o for r, o in iv1['pre']['files'].items())

def check_step(w, R, spec, st, got):
    real = got['real']; ob = real['ob']
    ident = {'scenario': spec['name'], 'kind': spec['kind'], 'sparsify': st['sparsify']}
    def viol(what, **kw):
        d = dict(ident); d.update(kw); R.viol.append((what, d))
    # refused without --yes: nothing may change
    if 'noyes' in got:
        iv = got['noyes']
        if iv['ob']['code'] != 'E_CONFIRM_REQUIRED': viol('overlay rebase --json without --yes was not refused with E_CONFIRM_REQUIRED', got=iv['ob']['code'])
        if iv['raw_before'] != iv['raw_after']: viol('refused overlay rebase changed the overlay directory')
    # --json --dry-run without --yes is allowed to run, but like every invocation without --yes it writes nothing
    if 'dry_noyes' in got:
        iv = got['dry_noyes']
        if iv['raw_before'] != iv['raw_after']:
            viol('overlay rebase --json --dry-run without --yes changed the overlay directory',
                 changed=sorted(k for k in set(iv['raw_before']) | set(iv['raw_after']) if iv['raw_before'].get(k) != iv['raw_after'].get(k)))
    # dry run: byte-identical overlay dir (baseline included) and the same report as the real run
    if 'dry' in got:
        iv = got['dry']
        if iv['raw_before'] != iv['raw_after']:
            viol('overlay rebase --dry-run changed the overlay directory', changed=sorted(k for k in set(iv['raw_before']) | set(iv['raw_after']) if iv['raw_before'].get(k) != iv['raw_after'].get(k)))
        a, b = iv['ob'], ob
        if (a['code'], a['updated'], a['deleted'], a['skipped'], a['conflicts'], a['summary']) != (b['code'], b['updated'], b['deleted'], b['skipped'], b['conflicts'], b['summary']):
            viol('dry-run report differs from the report of the real run that followed', dry=a, real=b)
    tags = []
    pre = real['pre']
    if pre['exists'] and pre['baseline'] and (ob['ok'] or ob['code'] == 'E_OVERLAY_REBASE_CONFLICT'):
        V, tags, anyc = oracle_real(w, R, spec, real)
        for v in V: viol(v)
        # idempotence of a conflict-free rebase
        clean = real['head'] == real['up'] and real['rev'] is not None
        dangling = spec['kind'] == 'patch' and any(
            (patch_target(rp) or rp) not in pre['baseline']['manifest'] and (patch_target(rp) or rp) in real['up'] for rp in pre['patches'])
        if 'second' in got and ob['ok'] and clean and not dangling:
            s2 = got['second']; o2 = s2['ob']
            snap1 = canon(real['raw_after']); snap2 = canon(s2['raw_after'])
            bad = []
            if not o2['ok']: bad.append('second rebase failed with %s' % o2['code'])
            elif snap1 != snap2: bad.append('second rebase changed the overlay directory: %s' % sorted(k for k in set(snap1) | set(snap2) if snap1.get(k) != snap2.get(k)))
            elif o2['deleted'] or o2['conflicts'] or (spec['kind'] == 'dir' and o2['updated']): bad.append('second rebase reports changes: %r' % ({k: o2[k] for k in ('updated', 'deleted', 'conflicts')},))
            if real['mat'] != s2['mat']: bad.append('materialisation changed on the second rebase')
            for x in bad:
                if k14b_class(real) and 'materialisation' not in x and 'failed' not in x:
                    R.known.append(('K14b', 'second --sparsify rebase deletes an untracked overlay file that equals a file newly added upstream (first pass skipped it); materialisation unchanged'))
                else:
                    viol('idempotence: ' + x)
    elif not ob['ok']:
        if ob['code'] not in ALLOWED_ERRS:
            viol('overlay rebase failed with an undocumented code %r' % ob['code'])
        if ob['code'] == 'E_UNEXPECTED' and pre['exists'] and pre['baseline']:
            # only a missing merge base or a merge-file failure (binary input) explains it; overlapping
            # edits must come back as E_OVERLAY_REBASE_CONFLICT
            base0 = base_of(w, pre); man0 = pre['baseline']['manifest']; cause = False; conflicts = []
            items = list(pre['files'].items()) if pre['kind'] == 'dir' else []
            if pre['kind'] == 'patch':
                for rp, p in pre['patches'].items():
                    rt = patch_target(rp)
                    if rt and valid_rel(rt) and rt in man0 and base0.get(rt) is not None:
                        o = w.g.apply(p, rt, base0[rt])
                        if o is not None: items.append((rt, o))
                    elif rt in man0: cause = True
            for r, o in items:
                if r not in man0: continue
                b = base0.get(r); u = real['up'].get(r)
                if b is None: cause = True; continue
                if u is None: continue
                kind, exp, conf = expected_for(w, b, o, u)
                if kind == 'merge_failed': cause = True
                if conf: conflicts.append(r)
            if not cause:
                viol('overlay rebase answered E_UNEXPECTED although every merge base exists and git merge-file succeeded'
                     + (' - conflicting files %s must be reported as E_OVERLAY_REBASE_CONFLICT' % conflicts if conflicts else ''))
        # an aborted rebase must still not lose an edit: every overlay file is either untouched or holds merge output
        base = base_of(w, pre) if pre['baseline'] else {}
        for r, o in pre['files'].items():
            now = real['post']['files'].get(r)
            if now == o: continue
            b = base.get(r); u = real['up'].get(r)
            okv = set()
            if b is not None and u is not None:
                kind, exp, conf = expected_for(w, b, o, u)
                if exp is not None: okv.add(exp)
                if o == b and kind == 'ours_eq_base' and st['sparsify']: okv.add(None)
                if st['sparsify'] and exp == u: okv.add(None)
            elif b is not None and u is None and o == b:
                okv.add(None)
            if (norm_markers(now) if now is not None else None) not in {norm_markers(x) if x is not None else None for x in okv}:
                viol('aborted rebase (%s) left %s neither untouched nor holding the merge result' % (ob['code'], r))
        nbj = real['raw_after'].get('.agentpack/baseline.json'); obj = real['raw_before'].get('.agentpack/baseline.json')
        if nbj != obj: viol('failed rebase (%s) rewrote the baseline' % ob['code'])
    key = (spec['kind'], st['sparsify'], tuple(sorted(set(tags))), ob['code'] or 'ok', tuple(sorted(got)))
    R.counts.append(('scenarios', key, bool(set(tags) - {'untracked'}) or not ob['ok'],
                     ['kind:' + spec['kind'], 'scope:' + spec['scope'], 'home:' + spec['home_mode'], 'outcome:' + (ob['code'] or 'ok'),
                      'sparsify:%s' % st['sparsify']] + ['file:' + t for t in tags] + ['inv:' + n for n in got]))

def canon(snap):
    t = dict(snap); k = '.agentpack/baseline.json'
    if k in t:
        try:
            d = json.loads(t[k]); d.pop('created_at', None); t[k] = json.dumps(d, sort_keys=True).encode()
        except Exception:
            pass
    return t

# ------------------------------------------------------------------ Coq terms

class T:
    """term builder with let-bound literals: every distinct content / path is written once per case"""
    def __init__(self):
        self.names = {}; self.lets = []
    def _bind(self, key, lit, pre):
        n = self.names.get(key)
        if n is None:
            n = '%s%d' % (pre, len(self.names)); self.names[key] = n; self.lets.append('let %s := %s in' % (n, lit))
        return n
    def cc(self, b):
        nb = norm_markers(b)
        return '[]' if nb == b'' else self._bind(('c', nb), cq.cbytes(nb), 'c')
    def cs(self, t):
        return '[]' if t == '' else self._bind(('s', t), cq.cstr(t), 'p')
    def files(self, d):
        return cq.clist([cq.cpair(self.cs(k), self.cc(v)) for k, v in sorted(d.items())])
    def ofiles(self, d, keys):
        return cq.clist([cq.cpair(self.cs(k), cq.copt(d.get(k), self.cc)) for k in sorted(keys)])
    def wrap(self, body):
        return '(' + ' '.join(self.lets) + ' ' + body + ')'

def cordn(x):
    return cq.copt(x, cq.cN)

def state_term(t, w, R, st, base):
    if st['baseline'] is None:
        bl = 'None'
    else:
        man = {r: R.by_sha(h) for r, h in st['baseline']['manifest'].items()}
        bl = '(Some %s)' % cq.cpair(t.files(man), cordn(st['baseline']['rev']), t.files(base))
    return cq.cpair(cq.cbool(st['exists']), '0' if st['kind'] == 'dir' else '1', t.files(st['files']), t.files(st['patches']),
                    t.files(st['conflicts']), bl)

def obs_term(t, w, R, iv):
    ob, post, up = iv['ob'], iv['post'], iv['up']
    outcome = 0 if ob['ok'] else (1 if ob['code'] == 'E_OVERLAY_REBASE_CONFLICT' else 2)
    sm = ob['summary'] or {}
    summ = [sm.get(k, 0) for k in ('processed_files', 'updated_files', 'deleted_files', 'skipped_files', 'conflict_files')]
    uni = set(up) | set(post['files']) | {patch_target(p) or p for p in post['patches']}
    if post['baseline'] is None:
        bl = 'None'
    else:
        man = {r: R.by_sha(h) for r, h in post['baseline']['manifest'].items()}
        bl = '(Some %s)' % cq.cpair(t.ofiles(man, uni | set(man)), cordn(post['baseline']['rev']))
    mat = iv['mat']
    if 'files' in mat:
        mf = {r: R.by_sha(h) for r, h in mat['files'].items()}
        mcode = '[]'; mlist = t.ofiles(mf, uni | set(mf))
    else:
        mcode = t.cs(mat['code']); mlist = '[]'
    sl = lambda l: cq.clist([t.cs(x) for x in (l or [])])
    return '(mkObs %d %s %s %s %s %s %s %s %s %s %s %s %s)' % (
        outcome, t.cs(ob['code'] or ''), sl(ob['updated']), sl(ob['deleted']), sl(ob['skipped']), sl(ob['conflicts']),
        cq.clist([cq.cN(x) for x in summ]), t.files(post['files']), t.files(post['patches']), t.files(post['conflicts']),
        bl, mcode, mlist)

def scenario_term(w, R, init, init_base, ivs):
    g = w.g; t = T()
    mt = []; seen = set()
    for (b, o, u), (rc, m) in g.merge_cache.items():
        k = (norm_markers(b), norm_markers(o), norm_markers(u))
        if k in seen: continue
        seen.add(k)
        res = 'None' if rc > 127 else '(Some %s)' % cq.cpair(t.cc(m), cq.cbool(rc != 0))
        mt.append(cq.cpair(t.cc(b), t.cc(o), t.cc(u), res))
    at = []; seen = set()
    for (p, r, x), res in g.apply_cache.items():
        k = (norm_markers(p), r, norm_markers(x))
        if k in seen: continue
        seen.add(k)
        at.append(cq.cpair(t.cc(p), t.cs(r), t.cc(x), cq.copt(res, t.cc)))
    dt = []; seen = set()
    for (r, a, b), res in g.diff_cache.items():
        k = (r, norm_markers(a), norm_markers(b))
        if k in seen: continue
        seen.add(k)
        dt.append(cq.cpair(t.cs(r), t.cc(a), t.cc(b), cq.copt(res, t.cc)))
    steps = []
    for iv in ivs:
        we = cq.cpair(t.files(iv['up']), t.files(iv['head']), cordn(iv['rev']))
        steps.append(cq.cpair('true', cq.cbool(iv['yes']), cq.cbool(iv['dry']), cq.cbool(iv['sparsify']), we, obs_term(t, w, R, iv)))
    body = cq.cpair(state_term(t, w, R, init, init_base), cq.cpair(cq.clist(mt), cq.clist(at), cq.clist(dt)), cq.clist(steps))
    return t.wrap(body)

# ------------------------------------------------------------------ hand-written worlds

B7 = 'x0\nx1\nx2\nx3\nx4\nx5\nx6\n'

def base_spec(name, kind='dir', **kw):
    s = {'name': name, 'kind': kind, 'scope': 'global', 'home_mode': 'aphome', 'git_repo': True,
         'edit_mode': 'full' if kind == 'dir' else 'sparse', 'base': {'a.md': B7, 'b.md': 'y0\ny1\n'}, 'ours': {}, 'raw_patches': {},
         'meta': {}, 'fams': {}, 'steps': [{'up': {'a.md': B7.replace('x5', 'U5')}, 'commit': True, 'sparsify': False,
                                           'dry_first': True, 'second': True, 'noyes': False}]}
    s.update(kw)
    return s

def corpus_specs():
    """witnesses of repaired defects (must pass now, fail on regression) and of the known finding"""
    out = []
    # F10: default ~/.agentpack/repo — unmodified copies must follow upstream
    out.append(base_spec('f10_default_home', home_mode='default'))
    out.append(base_spec('f10_default_home_patch', kind='patch', home_mode='default', ours={'a.md': B7.replace('x1', 'O1')}))
    # F14m: two separate conflict hunks in one file
    out.append(base_spec('multi_conflict', ours={'a.md': B7.replace('x0', 'O0').replace('x6', 'O6')},
                         steps=[{'up': {'a.md': B7.replace('x0', 'U0').replace('x6', 'U6')}, 'commit': True, 'sparsify': False,
                                 'dry_first': True, 'second': True, 'noyes': False}]))
    out.append(base_spec('multi_conflict_patch', kind='patch', ours={'a.md': B7.replace('x0', 'O0').replace('x6', 'O6')},
                         steps=[{'up': {'a.md': B7.replace('x0', 'U0').replace('x6', 'U6')}, 'commit': True, 'sparsify': False,
                                 'dry_first': True, 'second': True, 'noyes': False}]))
    return out

def k14b_spec():
    return base_spec('k14b_witness', ours={'n.md': 'new\n'},
                     steps=[{'up': {'n.md': 'new\n'}, 'commit': True, 'sparsify': True, 'dry_first': False, 'second': True, 'noyes': False}])

def error_specs(rng):
    S = []
    S.append(base_spec('no_overlay', meta={'skip_edit': True}))
    S.append(base_spec('no_baseline', meta={'remove_baseline': True}))
    S.append(base_spec('no_git', git_repo=False, ours={'a.md': B7.replace('x1', 'O1')}))
    S.append(base_spec('no_git_patch', kind='patch', git_repo=False, ours={'a.md': B7.replace('x1', 'O1')}))
    good = None  # a valid patch text is produced at run time from 'ours'; raw ones below are literal
    hdr = '--- a/a.md\n+++ b/a.md\n@@ -1,3 +1,3 @@\n x0\n-x1\n+O1\n x2\n'
    S.append(base_spec('mixed_dir_with_patch', raw_patches={'a.md.patch': hdr}))
    S.append(base_spec('dir_meta_says_patch', meta={'kind_override': 'patch'}))
    S.append(base_spec('patch_with_override_file', kind='patch', ours={'a.md': B7.replace('x1', 'O1')}, meta={'raw_files': {'b.md': 'y0\nyy\n'}}))
    S.append(base_spec('patches_but_meta_dir', kind='patch', ours={'a.md': B7.replace('x1', 'O1')}, meta={'kind_override': 'dir'}))
    S.append(base_spec('empty_sparse', edit_mode='sparse'))
    S.append(base_spec('non_patch_file_in_patches', edit_mode='sparse', raw_patches={'note.txt': 'hello\n', 'd/.patch': 'x\n'}))
    return S

def malformed_specs(rng):
    ok = '--- a/a.md\n+++ b/a.md\n@@ -1,3 +1,3 @@\n x0\n-x1\n+O1\n x2\n'
    variants = {
        'plain_header_ok': ok,
        'timestamps': '--- a/a.md\t2026-01-01 00:00:00\n+++ b/a.md\t2026-01-01 00:00:01\n@@ -1,3 +1,3 @@\n x0\n-x1\n+O1\n x2\n',
        'no_prefix': '--- a.md\n+++ a.md\n@@ -1,3 +1,3 @@\n x0\n-x1\n+O1\n x2\n',
        'dev_null_new': '--- a/a.md\n+++ /dev/null\n@@ -1,7 +0,0 @@\n' + ''.join('-x%d\n' % i for i in range(7)),
        'dev_null_old': '--- /dev/null\n+++ b/a.md\n@@ -0,0 +1 @@\n+z\n',
        'two_files': ok + '--- a/b.md\n+++ b/b.md\n@@ -1,2 +1,2 @@\n y0\n-y1\n+Y1\n',
        'no_header': '@@ -1,3 +1,3 @@\n x0\n-x1\n+O1\n x2\n',
        'other_path': ok.replace('a.md', 'b.md'),
        'binary_marker': 'diff --git a/a.md b/a.md\nGIT binary patch\nliteral 0\n',
        'not_utf8': ok.replace('O1', 'O\xff'),
        'context_mismatch': ok.replace(' x0', ' q0'),
        'removes_dashdash_line': '--- a/a.md\n+++ b/a.md\n@@ -1,3 +1,3 @@\n x0\n--- x1\n+O1\n x2\n',
        'empty': '',
    }
    S = []
    for nm, text in variants.items():
        S.append(base_spec('patch_' + nm, kind='patch', raw_patches={'a.md.patch': text}))
    S.append(base_spec('patch_upper_ext', kind='patch', raw_patches={'a.md.PATCH': ok}))
    S.append(base_spec('patch_upper_ext_twice', kind='patch', raw_patches={'a.md.PATCH': ok, 'a.md.PATCH.patch': ok.replace('a.md', 'a.md.PATCH')}))
    S.append(base_spec('patch_dotdot', kind='patch', raw_patches={'..patch': ok}))
    S.append(base_spec('patch_untracked_target', kind='patch', raw_patches={'new.md.patch': ok.replace('a.md', 'new.md')},
                       steps=[{'up': {'new.md': B7}, 'commit': True, 'sparsify': False, 'dry_first': True, 'second': True, 'noyes': False}]))
    S.append(base_spec('patch_binary_base', kind='patch', base={'a.md': '\x00\xffbin\n', 'b.md': 'y0\ny1\n'},
                       raw_patches={'a.md.patch': '--- a/a.md\n+++ b/a.md\n@@ -1 +1 @@\n-x\n+y\n'}))
    S.append(base_spec('patch_crlf', kind='patch', base={'a.md': 'x0\r\nx1\r\nx2\r\n', 'b.md': 'y0\n'}, ours={'a.md': 'x0\r\nO1\r\nx2\r\n'},
                       steps=[{'up': {'a.md': 'x0\r\nx1\r\nU2\r\n'}, 'commit': True, 'sparsify': False, 'dry_first': True, 'second': True, 'noyes': False}]))
    return S

# ------------------------------------------------------------------ driver

def utf8_cases(rng, n):
    seeds = [b'', b'abc', 'é'.encode(), '€'.encode(), '😀'.encode(), b'\x80', b'\xc0\x80', b'\xc1\xbf', b'\xc2', b'\xc2\x41', b'\xe0\x80\x80',
             b'\xe0\x9f\xbf', b'\xe0\xa0\x80', b'\xed\x9f\xbf', b'\xed\xa0\x80', b'\xef\xbf\xbf', b'\xf0\x8f\xbf\xbf', b'\xf0\x90\x80\x80',
             b'\xf4\x8f\xbf\xbf', b'\xf4\x90\x80\x80', b'\xf5\x80\x80\x80', b'\xff', b'a\xe2\x82', b'\xe2\x82\xac\xe2', b'\xf0\x9f\x98']
    out = list(seeds)
    for _ in range(n):
        k = rng.randrange(1, 7)
        out.append(bytes(rng.choice([rng.randrange(256), rng.choice([0x41, 0x80, 0xbf, 0xc2, 0xe0, 0xed, 0xf0, 0xf4, 0x9f, 0xa0, 0x8f, 0x90])]) for _ in range(k)))
    return out

def is_utf8(b):
    try:
        b.decode('utf-8'); return True
    except UnicodeDecodeError:
        return False

def report(ctx, R, stream):
    case = {'stream': stream, 'spec': R.spec, 'observations': getattr(R, 'ivs_summary', None)}
    for what, extra in R.viol:
        d = dict(case); d['detail'] = extra
        ctx.violation(what, d)
    for kid, what in R.known:
        if ctx.is_known(kid):
            ctx.known_finding(kid, what)
        else:
            d = dict(case); d['class'] = kid
            ctx.violation(what, d)
    for (st, key, nontriv, tags) in R.counts:
        ctx.count(stream, key=key, nontrivial=nontriv, tags=tags)
    return case

def run_specs(ctx, stream, specs, workers=8):
    """run scenarios (in parallel: each has its own sandbox), evaluate the oracle, then the model"""
    results = [None] * len(specs)
    def job(i):
        try:
            return i, run_scenario(specs[i]), None
        except InfraError as e:
            return i, None, str(e)
    with concurrent.futures.ThreadPoolExecutor(max_workers=workers) as ex:
        for i, R, err in ex.map(job, range(len(specs))):
            if err:
                raise InfraError('scenario %s: %s' % (specs[i].get('name'), err))
            results[i] = R
    cases = []
    for R in results:
        case = report(ctx, R, stream)
        cases.append((R.term, case))
    if cases:
        ctx.sample({'stream': stream, 'spec': cases[0][1]['spec'], 'observations': cases[0][1]['observations']})
    for c in ctx.corr(stream, HEADER, 'check_scenario', 'scenario', cases, shard_chars=40000):
        if not neighbours_violate(ctx, c):
            ctx.violation('model and implementation disagree on overlay rebase (%s)' % stream, c, no_input=True)
    return results

def neighbours_violate(ctx, case):
    """a model/implementation disagreement: look for a concrete property violation around it"""
    spec = case['spec']; found = False
    variants = []
    for k in range(len(spec['steps'])):
        for sp in (False, True):
            v = json.loads(json.dumps(spec)); v['name'] = spec['name'] + '~%d%s' % (k, 's' if sp else '')
            v['steps'] = v['steps'][:k + 1]
            for st in v['steps']: st.update({'dry_first': True, 'second': True})
            v['steps'][k]['sparsify'] = sp
            variants.append(v)
    for v in variants[:8]:
        try:
            R = run_scenario(v)
        except InfraError:
            continue
        for what, extra in R.viol:
            ctx.violation(what, {'stream': 'neighbour', 'spec': v, 'detail': extra}); found = True
        if found:
            break
    return found

def materialize_stream(ctx, n):
    """`overlay edit --materialize` between an upstream update and the rebase (dir overlays): it may add copies of
    upstream files the overlay lacks, but the recorded baseline of an existing overlay - the revision its edits were
    made against - and its existing files stay. Judged by these two predicates only (the scenario model does not
    thread the extra command)."""
    import concurrent.futures
    rng = ctx.rng
    specs = []
    for i in range(n):
        sp = gen_spec(rng, 100000 + i, kind='dir', quick=True)
        for st in sp['steps']:
            st['materialize'] = True; st['noyes'] = False; st['dry_first'] = False; st['second'] = False
        specs.append(sp)
    def job(sp):
        try: return run_scenario(sp)
        except InfraError: return None
    with concurrent.futures.ThreadPoolExecutor(max_workers=8) as ex:
        results = list(ex.map(job, specs))
    for sp, R in zip(specs, results):
        if R is None:
            ctx.count('materialize', key=('infra', sp.get('name')), nontrivial=False, tags=['skipped']); continue
        ctx.count('materialize', key=(len(sp['steps']), sp.get('name')), tags=['steps:%d' % len(sp['steps'])])
        for what, extra in R.viol:
            if what.startswith('overlay edit --materialize'):
                ctx.violation(what, {'stream': 'materialize', 'spec': sp, 'detail': extra})

def run(ctx):
    quick = ctx.tier == 'quick'
    ctx.rule = ('scenario = git-backed config repo (aphome / default ~/.agentpack / AGENTPACK_HOME=~/.agentpack) with one local_path skill module of 3-7 files, '
                'one overlay (dir full|sparse / patch, scope global|machine|project) whose per-file (base, ours, upstream_1..3) come from line-edit families '
                '(unchanged, disjoint, adjacent, overlapping, identical edit, two conflict hunks, upstream unchanged/deleted/added, overlay copy removed/added, '
                'no trailing newline, insert+delete, revert, upstream adopts ours, binary); per upstream update: optional refused --json call, optional '
                '--dry-run, real rebase, optional second rebase; --sparsify 35%; 8% uncommitted upstream, 4% non-git repo. After every invocation: overlay '
                'dir snapshot, report/error code, baseline.json, plan --json from an empty target root. git merge-file / apply / diff --no-index are run by '
                'the harness itself as oracle values. non-trivial = some tracked overlay file or an error outcome; distinct = (kind, sparsify, set of '
                'per-file relation classes, outcome, invocation kinds). Plus hand-written error worlds and malformed patches; UTF-8 validity cases.')
    ctx.trusted = ['Coq 8.16.1 kernel + vm_compute', 'hand-written model coq/Model/Rebase.v (rebase_dir_file, rebase_patch_file, rebase_overlay, overlay_rebase_cmd, materialize)',
                   'git itself (merge-file, apply, diff --no-index) as oracle of the Section variables merge3/git_apply/diff; premises diff_ok / merge answers named per theorem',
                   'SHA-256 collision freedom (model compares contents where the code compares digests)',
                   'Python harness: world builder, canonicaliser (conflict-marker temp-file labels, patch index line), property oracle']
    ctx.assumptions = ['what `git merge-file` returns IS the combination of both edits (git\'s contract; the theorems hold for every merge3)',
                       'patch overlays: apply (diff a b) a = Some b as explicit premise diff_ok on the triple at hand',
                       'baseline identity = config repo revision; idempotence assumes the upstream module state is committed (w_head = w_up)',
                       'known finding K14b excluded from C14_idempotent_partial',
                       'environment: the temp dir agentpack runs `git apply` in is not inside a git work tree (git silently skips such patches)']
    ctx.proof_phase(extra_targets=['Corr/Check_C14.vo'])
    if ctx.replay:
        doc = json.load(open(ctx.replay))
        spec = doc.get('spec')
        if not spec:
            ctx.log('replay file names no scenario (%s); nothing to re-run' % (doc.get('broken') or doc.get('what')))
            return
        run_specs(ctx, 'replay', [spec], workers=1)
        return
    # known finding: replay its witness first
    Rk = run_scenario(k14b_spec())
    if any(k == 'K14b' for k, _ in Rk.known):
        if ctx.is_known('K14b'):
            ctx.known_finding('K14b', Rk.known[0][1])
    else:
        ctx.notes.append('K14b witness no longer reproduces')
    materialize_stream(ctx, 24 if quick else 200)
    # corpus: repaired defects and minimised past failures
    corpus = corpus_specs()
    names = {c['name'] for c in corpus}
    if os.path.isdir(CORPUS_DIR):
        for fn in sorted(os.listdir(CORPUS_DIR)):
            if fn.endswith('.json'):
                try:
                    sp = json.load(open(os.path.join(CORPUS_DIR, fn)))['spec']
                except Exception:
                    continue
                if sp.get('name') not in names:
                    corpus.append(sp); names.add(sp.get('name'))
    run_specs(ctx, 'corpus', corpus + [k14b_spec()])
    run_specs(ctx, 'errors', error_specs(ctx.rng))
    run_specs(ctx, 'malformed', malformed_specs(ctx.rng))
    n = 400 if quick else 4000
    specs = [gen_spec(ctx.rng, i, quick=quick) for i in range(n)]
    for chunk in range(0, n, 300):
        run_specs(ctx, 'scenarios', specs[chunk:chunk + 300])
    # UTF-8 validity (patch overlays refuse non-UTF-8 text): Gallina validator vs CPython's strict decoder
    cases = []
    for b in utf8_cases(ctx.rng, 600 if quick else 20000):
        ok = is_utf8(b)
        ctx.count('utf8', key=b.hex(), nontrivial=any(x >= 0x80 for x in b), tags=['valid' if ok else 'invalid'])
        cases.append((cq.cpair(cq.cbytes(b), cq.cbool(ok)), {'stream': 'utf8', 'bytes': b.hex(), 'valid': ok}))
    for c in ctx.corr('utf8', HEADER, 'check_utf8', 'content * bool', cases):
        ctx.violation('Gallina utf8_valid disagrees with the reference decoder', c, no_input=True)
