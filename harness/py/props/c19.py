"""C19 — The event log survives concurrent writers and arbitrary corruption."""
import os, json, random, subprocess, concurrent.futures, re
from fractions import Fraction
from vlib.common import *
from vlib.common import run as _cmd_run      # this module's own run(ctx) shadows it below
from vlib import coqrun as cq
from vlib.impl import Avh, Sandbox

HEADER = 'From AP Require Import Corr.Check_C19.\nOpen Scope N_scope.\n'
U64 = 2 ** 64

def gen_quad(rng):
    k = rng.randrange(8)
    def big(): return rng.choice([U64 - 1, U64 - 2, U64 - rng.randrange(1, 1000), 2 ** 63, 2 ** 63 + rng.randrange(100), 2 ** 32, 2 ** 32 + 1, rng.randrange(U64)])
    def small(): return rng.randrange(0, 6)
    if k == 0:
        return (small(), small(), small(), small())
    if k == 1:
        return (big(), big(), big(), big())
    if k == 2:   # equal ratios
        a, b = rng.randrange(0, 50), rng.randrange(1, 50)
        m, n = rng.randrange(1, 2 ** 40), rng.randrange(1, 2 ** 40)
        return (a * m, b * m, a * n, b * n)
    if k == 3:   # zero totals
        return (rng.choice([0, small(), big()]), 0, small(), rng.choice([0, small(), big()]))
    if k == 4:   # adjacent huge ratios (differ only beyond f64 precision)
        t = U64 - 1
        f = rng.randrange(t - 5, t + 1)
        return (f, t, f - rng.randrange(0, 2), t - rng.randrange(0, 2))
    if k == 5:
        return (rng.randrange(U64), rng.randrange(1, U64), rng.randrange(U64), rng.randrange(1, U64))
    if k == 6:   # products that would wrap u64 but not u128
        return (2 ** 63 + rng.randrange(1000), 2 ** 63 + rng.randrange(1000), 2 ** 63 + rng.randrange(1000), 2 ** 63 + rng.randrange(1000))
    return (small(), big(), big(), small())

def exact_cmp(q):
    af, at, bf, bt = q
    if at == 0 and bt == 0: return 0
    if at == 0: return 1
    if bt == 0: return -1
    ra, rb = Fraction(af, at), Fraction(bf, bt)
    return -1 if ra > rb else (1 if ra < rb else 0)

# ---------------------------------------------------------------- score stream

TS = ['2026-01-01T00:00:00Z', '2026-01-01T00:00:00.5Z', '2025-12-31T23:59:59Z', '2026-09-26T10:00:00Z',
      '2026-09-26T10:00:00+02:00', '1999-01-01T00:00:00Z', '', 'zzz', '2026-01-01T00:00:00z']
MODS = ['skill:a', 'skill:b', 'instructions:base', 'prompt:x', 'm', 'Ünï:cödé', 'cmd/with/slash', 'a b']

def gen_line(rng):
    """returns (bytes_without_newline, coq_raw_line_term, class_tag)"""
    k = rng.random()
    if k < 0.07:
        b = rng.choice([b'\xff\xfe{"a":1}', b'{"schema_version":1,"x":"\xc3\x28"}', b'\x80', b'ok\xf0\x28\x8c\x28'])
        return b, 'RInvalidUtf8', 'io'
    if k < 0.17:
        t = rng.choice(['', ' ', '\t', '   \t ', '\u00a0', '\u2003 \u3000', '\u0085', '\r', ' \r'])
        return t.encode('utf-8'), 'RText %s None' % cq.cstr(t), 'empty'
    if k < 0.32:
        t = rng.choice(['{', 'not json', '{"schema_version":1', '[1,2,3]', '"str"', '42', 'null',
                        '{"schema_version":"1","recorded_at":"x","machine_id":"m","event":{}}',
                        '{"schema_version":1,"recorded_at":"x","event":{}}',                 # missing machine_id
                        '{"schema_version":1,"recorded_at":"x","machine_id":"m"}',           # missing event
                        '{"schema_version":1,"recorded_at":"x","machine_id":"m","event":{},"module_id":5}',
                        '{"schema_version":1,"recorded_at":"x","machine_id":"m","event":{},"success":"yes"}',
                        '{"schema_version":1,"recorded_at":"x","machine_id":"m","event":{},"duration_ms":18446744073709551616}',
                        '{"schema_version":-1,"recorded_at":"x","machine_id":"m","event":{}}',
                        '{"schema_version":4294967296,"recorded_at":"x","machine_id":"m","event":{}}',
                        '{"schema_version":1,"recorded_at":"x","machine_id":"m","event":{}} trailing',
                        '\u00a0{', '{"schema_version":1.0,"recorded_at":"x","machine_id":"m","event":{}}']
                       # long torn records made of multi-byte text at several byte alignments (anything that slices or
                       # truncates a bad line for a message must do so on character boundaries)
                       + [('x' * sh) + '{"schema_version":1,"recorded_at":"2026-01-01T00:00:00Z","machine_id":"m1","module_id":"' + ch * n
                          for sh in (0, 1, 2) for ch, n in (('\u6f22', 60), ('\u00e9', 90), ('\U0001f600', 40))])
        pad = rng.choice(['', ' ', '\t', '  '])
        t = pad + t + rng.choice(['', ' ', '\r'])
        return t.encode('utf-8'), 'RText %s None' % cq.cstr(t), 'malformed'
    # structurally valid record
    ver = rng.choice([1, 1, 1, 1, 1, 1, 0, 2, 999, 4294967295])
    at = rng.choice(TS)
    top_mod = rng.choice([None, None] + MODS)
    top_succ = rng.choice([None, None, True, False])
    ev = {}
    ev_mod = None
    mk = rng.randrange(6)
    if mk == 1: ev['module_id'] = ev_mod = rng.choice(MODS)
    elif mk == 2: ev['moduleId'] = ev_mod = rng.choice(MODS)
    elif mk == 3:
        ev['module_id'] = ev_mod = rng.choice(MODS); ev['moduleId'] = rng.choice(MODS)
    elif mk == 4:
        ev['module_id'] = 7; ev['moduleId'] = rng.choice(MODS); ev_mod = None   # get() finds module_id first; as_str fails
    ev_succ = None
    sk = rng.randrange(7)
    if sk == 1: ev['success'] = ev_succ = rng.choice([True, False])
    elif sk == 2: ev['ok'] = ev_succ = rng.choice([True, False])
    elif sk == 3: ev['successful'] = ev_succ = rng.choice([True, False])
    elif sk == 4:
        ev['success'] = 'nope'; ev['ok'] = ev_succ = rng.choice([True, False])      # success not bool -> falls to ok
    elif sk == 5:
        ev['ok'] = 'x'; ev['successful'] = ev_succ = rng.choice([True, False])       # ok not bool -> falls through to successful
    rec = {'schema_version': ver, 'recorded_at': at, 'machine_id': 'm1'}
    if top_mod is not None or rng.random() < 0.1:
        rec['module_id'] = top_mod
    if top_succ is not None:
        rec['success'] = top_succ
    if rng.random() < 0.2:
        rec['duration_ms'] = rng.choice([0, 5, U64 - 1])
    if rng.random() < 0.2:
        rec['unknown_field'] = {'x': [1, 2, 3]}
    if rng.random() < 0.2:
        rec['targets'] = ['codex']
    rec['event'] = ev
    items = list(rec.items())
    if rng.random() < 0.3:
        rng.shuffle(items)
    txt = json.dumps(dict(items), ensure_ascii=rng.random() < 0.5)
    txt = rng.choice(['', '', ' ', '\t']) + txt + rng.choice(['', '', ' ', '\r'])
    parsed = 'mkp %d %s %s %s %s %s' % (ver, cq.copt(top_mod, cq.cstr), cq.copt(top_succ, cq.cbool), cq.cstr(at),
                                         cq.copt(ev_mod, cq.cstr), cq.copt(ev_succ, cq.cbool))
    tag = 'ok' if ver == 1 else 'unsupported'
    return txt.encode('utf-8'), 'RText %s (Some (%s))' % (cq.cstr(txt), parsed), tag

def gen_log(rng, maxlines):
    n = rng.choice([0, 1, 2, 3, rng.randrange(0, maxlines), rng.randrange(0, maxlines)])
    lines = [gen_line(rng) for _ in range(n)]
    # bursts: runs of consecutive lines of one class (a reader that gives up, resynchronises or counts per
    # run instead of per line is only visible on runs), always followed by at least one more line
    for _ in range(rng.choice([0, 0, 1, 1, 2])):
        cls = rng.choice(['io', 'io', 'malformed', 'empty', 'unsupported', 'ok'])
        run = []
        while len(run) < rng.choice([2, 3, 3, 4, 6, 9]):
            ln = gen_line(rng)
            if ln[2] == cls: run.append(ln)
        at = rng.randrange(0, len(lines) + 1)
        tail = [gen_line(rng) for _ in range(rng.randrange(1, 4))] if at == len(lines) else []
        lines[at:at] = run
        lines += tail
    data = b''
    for i, (b, _, _) in enumerate(lines):
        last = i == len(lines) - 1
        data += b
        # a final line keeps its terminator unless it is non-empty (an empty unterminated tail is not a line)
        if not last or len(b) == 0 or rng.random() < 0.7:
            data += b'\n'
    mods = rng.sample(MODS, rng.randrange(0, 4)) if rng.random() < 0.7 else None
    return lines, data, mods

def write_manifest(sb, mods):
    os.makedirs(sb.repo, exist_ok=True)
    man = {'version': 1, 'profiles': {'default': {}}, 'targets': {},
           'modules': [{'id': m, 'type': 'prompt', 'source': {'local_path': {'path': 'modules/x'}}} for m in mods]}
    with open(os.path.join(sb.repo, 'agentpack.yaml'), 'w') as f:
        json.dump(man, f)

def oracle_score(ctx, case, doc):
    """property predicate evaluated on the implementation's own output"""
    bad = []
    st = doc['data']['read_stats']
    nlines = case['nlines']
    if st['lines_total'] != nlines:
        bad.append('lines_total %d != physical lines %d' % (st['lines_total'], nlines))
    if st['lines_total'] != st['lines_empty'] + st['records_ok'] + st['skipped_total']:
        bad.append('counters do not add up to lines_total')
    if st['skipped_total'] != st['skipped_io_errors'] + st['skipped_malformed_json'] + st['skipped_unsupported_schema_version']:
        bad.append('skip reasons do not add up to skipped_total')
    exp = case['expected_classes']
    for key, tag in (('lines_empty', 'empty'), ('records_ok', 'ok'), ('skipped_io_errors', 'io'),
                     ('skipped_malformed_json', 'malformed'), ('skipped_unsupported_schema_version', 'unsupported')):
        if st[key] != exp.get(tag, 0):
            bad.append('%s=%d but %d lines of that class were written' % (key, st[key], exp.get(tag, 0)))
    mods = doc['data']['modules']
    for a, b in zip(mods, mods[1:]):
        c = exact_cmp((a['failures'], a['total'], b['failures'], b['total']))
        if c > 0 or (c == 0 and not (a['module_id'].encode() < b['module_id'].encode())):
            bad.append('ranking not ordered by exact failure ratio then id at %s / %s' % (a['module_id'], b['module_id']))
    return bad

def run_score_stream(ctx, ncases, maxlines):
    rng = ctx.rng
    sb = Sandbox('c19')
    cases = []
    try:
        logdir = os.path.join(sb.aphome, 'state', 'logs')
        os.makedirs(logdir)
        for i in range(ncases):
            lines, data, mods = gen_log(rng, maxlines)
            with open(os.path.join(logdir, 'events.jsonl'), 'wb') as f:
                f.write(data)
            man = os.path.join(sb.repo, 'agentpack.yaml')
            if mods is None:
                if os.path.exists(man): os.remove(man)
            else:
                write_manifest(sb, mods)
            rc, doc, out, err = sb.cli_json(['score'])
            classes = {}
            for _, _, tag in lines:
                classes[tag] = classes.get(tag, 0) + 1
            case = {'stream': 'score', 'index': i, 'log_hex': data.hex(), 'manifest_modules': mods,
                    'nlines': len(lines), 'expected_classes': classes, 'rc': rc, 'stdout': out[:4000]}
            if rc != 0 or not doc or not doc.get('ok'):
                ctx.violation('score failed on a corrupt log (must succeed for any byte content)', case)
                continue
            bad = oracle_score(ctx, case, doc)
            if bad:
                case['oracle'] = bad
                ctx.violation('score output violates the property: ' + bad[0], case)
            st = doc['data']['read_stats']
            ost = [st['lines_total'], st['lines_empty'], st['records_ok'], st['skipped_total'], st['skipped_io_errors'],
                   st['skipped_malformed_json'], st['skipped_unsupported_schema_version']]
            omods = [cq.cpair(cq.cstr(m['module_id']), cq.cN(m['total']), cq.cN(m['failures']), cq.copt(m['last_seen_at'], cq.cstr))
                     for m in doc['data']['modules']]
            term = cq.cpair(cq.clist([l[1] for l in lines]), cq.clist([cq.cstr(m) for m in (mods or [])]),
                            cq.cpair(cq.clist([cq.cN(x) for x in ost]), cq.clist(omods)))
            cases.append((term, case))
            key = (tuple(sorted(classes.items())), len(doc['data']['modules']))
            ctx.count('score', key=key, nontrivial=len(classes) >= 2, tags=['class:' + t for t in classes])
            if i < 2:
                ctx.sample({'stream': 'score', 'log': data.decode('utf-8', 'replace')[:600], 'read_stats': st,
                            'modules': doc['data']['modules'][:4]})
    finally:
        sb.close()
    failing = ctx.corr('score', HEADER, 'check_score', 'list raw_line * list str * obs_score', cases, shard_chars=40000)
    for c in failing:
        ctx.violation('model and implementation disagree on score --json for this log', c, no_input=True)

# ---------------------------------------------------------------- concurrent writers

def run_writers(ctx, rounds, nproc, big, barrier=False):
    rng = ctx.rng
    for r in range(rounds):
        sb = Sandbox('c19w')
        try:
            n = rng.randrange(2, nproc + 1) if not barrier else nproc
            per = rng.randrange(1, 4) if not barrier else 1
            events = []
            for w in range(n):
                for j in range(per):
                    size = rng.choice([10, 200, 4000, 9000] + ([65536, 70000] if big else [])) if not barrier else rng.choice([9000, 12000, 20000, 40000, 66000])
                    events.append({'module_id': 'skill:w%d' % w, 'success': rng.random() < 0.5, 'seq': j, 'writer': w,
                                   'pad': ''.join(rng.choice('abcdefghij \\"\u00e9') for _ in range(size))})
            if barrier:
                # every writer is started and handed its event first; `record` reads its input to the end, so closing all
                # the pipes back to back releases the writers together (the appends race as closely as processes can)
                procs = []
                for ev in events:
                    pr = subprocess.Popen([AGENTPACK_BIN, 'record'], cwd=sb.project, env=sb.env(), stdin=subprocess.PIPE,
                                          stdout=subprocess.DEVNULL, stderr=subprocess.DEVNULL)
                    procs.append(pr)
                def feed(a):
                    pr, ev = a
                    try: pr.stdin.write(json.dumps(ev).encode('utf-8')); pr.stdin.flush()
                    except Exception: pass
                with concurrent.futures.ThreadPoolExecutor(max_workers=len(procs)) as ex:
                    list(ex.map(feed, zip(procs, events)))
                for pr in procs:
                    try: pr.stdin.close()
                    except Exception: pass
                rcs = [pr.wait(timeout=120) for pr in procs]
            else:
                def one(ev):
                    return sb.cli(['record'], input=json.dumps(ev).encode('utf-8')).returncode
                with concurrent.futures.ThreadPoolExecutor(max_workers=n) as ex:
                    rcs = list(ex.map(one, events))
            path = os.path.join(sb.aphome, 'state', 'logs', 'events.jsonl')
            data = open(path, 'rb').read() if os.path.exists(path) else b''
            case = {'stream': 'writers', 'round': r, 'writers': n, 'released_together': barrier, 'events': len(events), 'sizes': sorted({len(e['pad']) for e in events})}
            bad = None
            if not data.endswith(b'\n') and data:
                bad = 'log does not end with a newline (a line was cut)'
            got = []
            for ln in data.split(b'\n')[:-1]:
                try:
                    got.append(json.loads(ln.decode('utf-8'))['event'])
                except Exception:
                    bad = bad or 'a log line is not one complete JSON record (interleaved or truncated write)'
            accepted = [e for e, rc in zip(events, rcs) if rc == 0]
            canon = lambda e: json.dumps(e, sort_keys=True)
            if not bad and sorted(map(canon, got)) != sorted(map(canon, accepted)):
                bad = 'log is not a permutation of the accepted events (lost or duplicated event)'
            ctx.count('writers', key=(n, per, barrier, tuple(case['sizes'])), nontrivial=n >= 2, tags=['writers:%d' % n] + (['released_together'] if barrier else []))
            if r == 0:
                ctx.sample({'stream': 'writers', 'writers': n, 'events': len(events), 'log_lines': len(got)})
            if bad:
                case['log_head'] = data[:2000].decode('utf-8', 'replace')
                ctx.violation(bad, case)
        finally:
            sb.close()

def strace_audit(ctx):
    """thorough: the log is opened O_APPEND and each event is exactly one write syscall"""
    sb = Sandbox('c19s')
    try:
        tr = os.path.join(sb.root, 'strace.out')
        ev = json.dumps({'module_id': 'skill:s', 'pad': 'x' * 70000}).encode()
        p = _cmd_run(['strace', '-f', '-e', 'trace=openat,write', '-o', tr, AGENTPACK_BIN, 'record'], cwd=sb.project,
                env=sb.env(), input=ev, timeout=120)
        if p.returncode != 0 or not os.path.exists(tr):
            ctx.notes.append('strace audit unavailable (rc=%s)' % p.returncode); return
        txt = open(tr, errors='replace').read()
        fd = None; nwrites = 0; append = False
        for line in txt.split('\n'):
            m = re.search(r'openat\(.*events\.jsonl", ([A-Z_|]+).*\) = (\d+)', line)
            if m:
                fd = m.group(2); append = 'O_APPEND' in m.group(1)
            elif fd and re.search(r'write\(%s, ' % fd, line):
                nwrites += 1
        ctx.count('strace', key=('append', append, nwrites), tags=['strace'])
        if fd is None:
            ctx.notes.append('strace audit: log open not seen'); return
        if not append or nwrites != 1:
            ctx.violation('record does not append the event with one O_APPEND write (O_APPEND=%s, writes=%d)' % (append, nwrites),
                          {'stream': 'strace', 'trace_tail': txt[-3000:]})
    finally:
        sb.close()

def run(ctx):
    quick = ctx.tier == 'quick'
    ctx.rule = ('cmp: quadruples from 8 families (small, huge, equal ratios, zero totals, adjacent huge ratios, random u64, wrap-prone); '
                'score: logs built line by line from known classes (valid/unsupported/malformed/blank/invalid-UTF-8) with optional manifest; '
                'writers: N parallel `record` processes. non-trivial = log mixes >=2 line classes / >=2 writers; distinct = distinct '
                '(class multiset, #modules) resp. quadruple resp. (writers, per-writer, sizes)')
    ctx.trusted = ['Coq 8.16.1 kernel + vm_compute', 'hand-written model coq/Model/Events.v (JSON parsing not modelled: parse result supplied by construction)',
                   'correspondence harness (Python generators, avh, CLI driver)', 'tools/gen_tables.py (EVENTS_SCHEMA_VERSION)',
                   'kernel atomicity of a single O_APPEND write (assumed by C19_interleave; audited by strace in thorough tier)']
    ctx.assumptions = ['one O_APPEND write(2) of a whole line is atomic w.r.t. other appenders (POSIX; not derivable from the model)',
                       'serde_json parse results are as constructed by the generator']
    ctx.proof_phase(extra_targets=['Corr/Check_C19.vo'])
    # ---- cmp_rate
    n = 3000 if quick else 60000
    quads = [gen_quad(ctx.rng) for _ in range(n)]
    with Avh() as avh:
        out = avh.call({'op': 'cmp_rate', 'cases': [list(q) for q in quads]})['out']
    cases = []
    for q, r in zip(quads, out):
        ctx.count('cmp', key=q, nontrivial=(q[1] != 0 and q[3] != 0))
        e = exact_cmp(q)
        c = {'stream': 'cmp', 'quad': list(map(str, q)), 'impl': r, 'exact': e}
        if r != e:
            ctx.violation('cmp_failure_rate disagrees with the exact rational order', c)
        cases.append((cq.cpair(*(cq.cN(x) for x in q), cq.cZ(r)), c))
    ctx.sample({'stream': 'cmp', 'quad': list(map(str, quads[1])), 'impl': out[1]})
    for c in ctx.corr('cmp', HEADER, 'check_cmp', 'N * N * N * N * Z', cases):
        ctx.violation('model cmp_rate and implementation disagree', c, no_input=True)
    # ---- score
    run_score_stream(ctx, 120 if quick else 1500, 14 if quick else 40)
    # ---- writers
    run_writers(ctx, 4 if quick else 30, NCPU, big=not quick)
    run_writers(ctx, 6 if quick else 60, NCPU, big=True, barrier=True)
    if not quick:
        strace_audit(ctx)
