"""C01 — User-owned files are never overwritten without an explicit adopt."""
from vlib.common import *
from vlib import deploysim as ds

def import_stream(ctx, n):
    """import --apply is create-only: over generated user-home / project assets and config repos in which some of
    the import destinations already exist (files, or skill directories with any subset of the skill's files - with or
    without SKILL.md), no existing file of the config repo is modified or removed; and when a destination path exists
    the command is refused (E_IMPORT_CONFLICT) before anything is written.  JSON and human mode."""
    import os, json
    from vlib.impl import Sandbox
    from vlib import world
    rng = ctx.rng
    def tree(root):
        out = {}
        for dp, dns, fns in os.walk(root):
            if '.git' in dp.split(os.sep): continue
            for fn in fns:
                q = os.path.join(dp, fn)
                if os.path.isfile(q) and not os.path.islink(q): out[q[len(root):]] = open(q, 'rb').read()
        return out
    for i in range(n):
        sb = Sandbox('c01i'); sb.git_init_project()
        try:
            world.write_config(sb.repo, {'version': 1, 'profiles': {'default': {'include_tags': ['base']}},
                                          'targets': {'codex': {'mode': 'files', 'scope': 'user', 'options': {}}}, 'modules': []})
            for k in range(rng.randrange(0, 3)):
                world.write(os.path.join(sb.home, '.codex/prompts/p%d.md' % k), '# prompt %d\n' % k)
            skills = {}
            for k in range(rng.randrange(1, 3)):
                files = {'SKILL.md': '---\nname: s%d\ndescription: d\n---\nbody\n' % k}
                for extra in rng.sample(['README.md', 'scripts/run.sh', 'ref/notes.md'], rng.randrange(0, 4)):
                    files[extra] = 'from home: %s\n' % extra
                skills['s%d' % k] = files
                base = os.path.join(sb.home if rng.random() < 0.7 else sb.project, '.codex/skills/s%d' % k)
                for rel, txt in files.items(): world.write(os.path.join(base, rel), txt)
            if rng.random() < 0.6: world.write(os.path.join(sb.home, '.claude/commands/c.md'), '---\ndescription: "c"\n---\n\ndo\n')
            if rng.random() < 0.6: world.write(os.path.join(sb.project, 'AGENTS.md'), '# project rules\n')
            rc, doc, out, err = sb.cli_json(['import'])
            if not (doc and doc.get('ok')):
                ctx.notes.append('import dry run failed: %s' % out[:200]); continue
            items = [it for it in doc['data']['plan'] if it['op'] == 'create']
            pre = []
            for it in rng.sample(items, rng.randrange(0, min(3, len(items)) + 1)):
                dst = it['dest_path']
                if it['module_type'] == 'skill':
                    name = os.path.basename(dst); fl = skills.get(name, {'SKILL.md': 'x'})
                    chosen = rng.sample(sorted(fl), rng.randrange(0, len(fl) + 1))
                    if rng.random() < 0.6 and 'SKILL.md' in chosen: chosen.remove('SKILL.md')     # the directory exists, its SKILL.md does not
                    os.makedirs(dst, exist_ok=True)
                    for rel in chosen: world.write(os.path.join(dst, rel), 'hand-written in the config repo: %s\n' % rel)
                    if rng.random() < 0.3: world.write(os.path.join(dst, 'mine.txt'), 'mine\n')
                    pre.append((dst, 'skill', chosen))
                elif it['module_type'] == 'instructions':
                    world.write(os.path.join(dst, rng.choice(['AGENTS.md', 'NOTES.md'])), 'hand-written\n'); pre.append((dst, 'instructions', None))
                else:
                    world.write(dst, 'hand-written\n'); pre.append((dst, it['module_type'], None))
            before = tree(sb.repo)
            human = rng.random() < 0.3
            if human:
                pr = sb.cli(['import', '--apply', '--yes']); rc2 = pr.returncode; doc2 = None; out2 = pr.stdout.decode('utf-8', 'replace') + pr.stderr.decode('utf-8', 'replace')
            else:
                rc2, doc2, out2, err2 = sb.cli_json(['import', '--apply', '--yes'])
            after = tree(sb.repo)
            rec = {'stream': 'import', 'index': i, 'human': human, 'preexisting': [(d[len(sb.repo):], t, c) for d, t, c in pre],
                   'plan': [(it['module_type'], it['dest_path'][len(sb.repo):]) for it in items], 'exit': rc2, 'out': out2[:600]}
            ctx.count('import', key=(human, len(items), tuple(sorted((t, tuple(c) if c is not None else None) for _, t, c in pre)), rc2),
                      nontrivial=bool(pre), tags=['preexisting:%d' % len(pre), 'exit:%s' % rc2, 'human' if human else 'json'])
            changed = sorted(q for q in before if after.get(q) != before[q] and q != '/agentpack.yaml')   # the manifest itself gains the new modules
            if changed:
                ctx.violation('import --apply modified or removed an existing file of the config repo: %s' % changed[:3], dict(rec, changed=changed))
            if pre:
                refused = (rc2 != 0) and (human or (doc2 is not None and not doc2.get('ok') and doc2['errors'][0]['code'] == 'E_IMPORT_CONFLICT'))
                if not refused:
                    ctx.violation('an import destination already existed but import --apply was not refused with E_IMPORT_CONFLICT', rec)
                elif after != before:
                    ctx.violation('import --apply was refused but wrote to the config repo', dict(rec, new=sorted(set(after) - set(before))[:5]))
        finally:
            sb.close()

def run(ctx):
    quick = ctx.tier == 'quick'
    ctx.rule = ('cli_deploy: histories of (config edit, user edit incl. colliding files and manifest corruption, deploy through one of '
                '{CLI --json, CLI human --yes / prompt y / prompt n, MCP deploy+deploy_apply, TUI apply core}) x adopt x --target; '
                'lib_apply: library-level plan+apply over generated roots/manifests; non-trivial = non-empty plan or a refusal; '
                'distinct = distinct (entry, adopt, target, outcome, op set, edit tags)')
    ctx.trusted = ['Coq 8.16.1 kernel + vm_compute', 'hand-written model coq/Model/Deploy.v', 'harness manifest classifier (serde rules re-implemented in Python)',
                   'reference desired state of the restricted configuration family (harness CfgWorld)', 'avh harness crate, MCP client', 'tools/gen_tables.py']
    ctx.assumptions = ['SHA-256 injective on the file contents at hand (content ids)', 'target roots contain no symlinks; directories at file paths are outside the model',
                       'bootstrap is not one of the entry points the property names (it applies adopt updates by design)']
    ctx.proof_phase(extra_targets=['Corr/Check_Deploy.vo'])
    ds.run_cli_stream(ctx, 14 if quick else 200, 4 if quick else 8, props={'C01'})
    ds.run_cli_stream(ctx, 8 if quick else 120, 2, props={'C01'}, stream='partly_managed', script=ds.script_partial_manifest)
    ds.run_hist_stream(ctx, 6 if quick else 80, 8, props={'C01'}, weights={'deploy': 1}, stream='after_empty_rollback',
                       plan_script=ds.hist_after_empty_rollback, setup=ds.setup_two_roots)
    ds.run_cli_stream(ctx, 6 if quick else 100, 3, props={'C01'}, stream='symlinked_outputs', script=ds.script_symlinked_outputs, setup=ds.setup_two_roots)
    ds.run_cli_stream(ctx, 6 if quick else 100, 4, props={'C01'}, stream='case_rename', script=ds.script_case_rename, setup=ds.setup_all_targets)
    ds.run_cli_stream(ctx, 6 if quick else 100, 3, props={'C01'}, stream='hidden_user_files', script=ds.script_remove_with_hidden_user_files, setup=ds.setup_all_targets)
    ds.run_cli_stream(ctx, 6 if quick else 100, 3, props={'C01'}, stream='foreign_manifest', script=ds.script_foreign_manifest, setup=ds.setup_all_targets)
    ds.run_cli_stream(ctx, 5 if quick else 80, 2, props={'C01'}, stream='prefix_siblings', script=ds.script_prefix_siblings)
    ds.run_hist_stream(ctx, 6 if quick else 80, 4, props={'C01'}, weights={'deploy': 1}, stream='restore_over_user_files',
                       plan_script=ds.hist_restore_over_user_files, setup=ds.setup_all_targets)
    import_stream(ctx, 24 if quick else 400)
    ds.run_lib_stream(ctx, 80 if quick else 1500, props={'C01'})
