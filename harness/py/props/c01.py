"""C01 — User-owned files are never overwritten without an explicit adopt."""
from vlib.common import *
from vlib import deploysim as ds

def run(ctx):
    quick = ctx.tier == 'quick'
    ctx.rule = ('cli_deploy: histories of (config edit, user edit incl. colliding files and manifest corruption, deploy through one of '
                '{CLI --json, CLI human --yes / prompt y / prompt n, MCP deploy+deploy_apply, TUI apply core}) x adopt x --target; '
                'lib_apply: library-level plan+apply over generated roots/manifests; non-trivial = non-empty plan or a refusal; '
                'distinct = distinct (entry, adopt, target, outcome, op set, edit tags)')
    ctx.trusted = ['Coq 8.16.1 kernel + vm_compute', 'hand-written model coq/Model/Deploy.v', 'harness manifest classifier (serde rules re-implemented in Python)',
                   'reference desired state of the restricted configuration family (harness CfgWorld)', 'avh harness crate, MCP client', 'tools/gen_tables.py']
    ctx.assumptions = ['SHA-256 injective on the file contents at hand (content ids)', 'target roots contain no symlinks; directories at file paths are outside the model',
                       'bootstrap is not one of the entry points the property names (it applies adopt updates by design)']
    ctx.proof_phase(extra_targets=['Corr/Check_Deploy.vo'])
    ds.run_cli_stream(ctx, 14 if quick else 200, 4 if quick else 8, props={'C01'})
    ds.run_cli_stream(ctx, 8 if quick else 120, 2, props={'C01'}, stream='partly_managed', script=ds.script_partial_manifest)
    ds.run_hist_stream(ctx, 6 if quick else 80, 8, props={'C01'}, weights={'deploy': 1}, stream='after_empty_rollback',
                       plan_script=ds.hist_after_empty_rollback, setup=ds.setup_two_roots)
    ds.run_cli_stream(ctx, 6 if quick else 100, 3, props={'C01'}, stream='symlinked_outputs', script=ds.script_symlinked_outputs, setup=ds.setup_two_roots)
    ds.run_cli_stream(ctx, 6 if quick else 100, 4, props={'C01'}, stream='case_rename', script=ds.script_case_rename, setup=ds.setup_all_targets)
    ds.run_lib_stream(ctx, 80 if quick else 1500, props={'C01'})
