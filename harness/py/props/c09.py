"""C09 — Read-only and dry-run invocations leave everything untouched."""
import os, json, concurrent.futures, random
from vlib.common import *
from vlib import coqrun as cq
from vlib.impl import Sandbox, Mcp, snap_diff
from vlib import catalogue as C

HEADER = 'From AP Require Import Corr.Check_C08.\nOpen Scope N_scope.\n'

DRY_CAPABLE = {'deploy': ['apply'], 'import': ['apply'], 'bootstrap': [], 'overlay rebase': [], 'evolve propose': [], 'evolve restore': []}
MCP_READONLY = {'plan': [{}], 'diff': [{}], 'preview': [{}, {'diff': True}], 'status': [{}, {'only': ['missing']}], 'doctor': [{}],
                'deploy': [{}, {'target': 'codex'}], 'explain': [{'kind': 'plan'}, {'kind': 'diff'}, {'kind': 'status'}]}
MCP_DRY = {'deploy_apply': [{}, {'yes': True}, {'yes': True, 'adopt': True}], 'evolve_propose': [{}, {'yes': True}, {'yes': True, 'scope': 'machine'}],
           'evolve_restore': [{}, {'yes': True}]}

def outside_statement(p, w):
    """cache and private temp dirs are outside the statement (materialisation, auto-fetched checkouts)"""
    cache = os.path.join(w.sb.aphome, 'cache')
    return p == cache or p.startswith(cache + os.sep)

def judged_delta(delta, w):
    return {p: v for p, v in delta.items() if not outside_statement(p, w)}

def report_of(cid, doc):
    """the change list / report a dry run and the corresponding real run both print"""
    d = doc['data']
    if cid in ('deploy', 'bootstrap'):
        return {'changes': d.get('changes'), 'summary': d.get('summary')}
    if cid == 'import':
        return {'plan': d.get('plan'), 'summary': d.get('summary'), 'conflicts': d.get('conflicts')}
    if cid == 'overlay rebase':
        return {'report': d.get('report')}
    if cid == 'evolve restore':
        return {'restored': d.get('restored'), 'missing': (d.get('summary') or {}).get('missing')}
    if cid == 'evolve propose':
        if d.get('reason') in ('no_drift', 'no_proposeable_drift'):
            return {'n': 0}
        if 'candidates' in d:
            return {'n': len(d['candidates'])}
        return {'n': len(d.get('files') or [])}
    return None

class Out:
    def __init__(self):
        self.viol = []; self.counts = []; self.cases = []; self.samples = []; self.n = 0; self.usage = 0; self.cache_deltas = 0

def run_world(kind, seed, quick, failure=False, hist_steps=0):
    rng = random.Random(seed)
    gen = C.gen_tables(); cat, _ = C.load_catalogue()
    w = C.build_failure_world(kind, 'c09') if failure else C.build_world(kind, 'c09')
    o = Out()
    name = kind
    try:
        if hist_steps:
            hist = C.perturb(w, rng, abs(hist_steps) % 100, last=('legacy_manifests' if hist_steps > -100 else 'overlay_subset') if hist_steps < 0 else None)
            name = kind + '+' + '/'.join(h['op'] for h in hist)
        R = C.Runner(w, cat)
        mut = set(cat.mutating)
        invs = []
        for cid in cat.leaf_ids():
            for inv in C.invocations_for(cat, cid, w, rng, alternates=2 if quick else 0, full=not quick):
                exp = C.expected_command_id(inv)
                readonly = exp not in mut
                dry = inv.dry and cid in DRY_CAPABLE and set(DRY_CAPABLE[cid]) <= set(inv.flags)
                if readonly or dry:
                    invs.append((inv, 'dryrun' if dry else 'readonly'))
        for inv, cls in invs:
            exp = C.expected_command_id(inv)
            modes = [(True, False), (True, True), (False, True), (False, False)]
            if not cat.supports_json(inv.cid) or 'markdown' in inv.flags:
                modes = [(False, False)]
            results = {}
            for json_mode, yes in modes:
                r = R.run(inv, json_mode=json_mode, yes=yes, stdin=inv.stdin if inv.stdin is not None else b'n\n')
                if C.is_usage_error(r['rc'], r['out'], r['err']):
                    o.usage += 1; break
                o.n += 1
                results[(json_mode, yes)] = r
                jd = judged_delta(r['delta'], w)
                if len(jd) != len(r['delta']): o.cache_deltas += 1
                argv = inv.argv + (['--json'] if json_mode else []) + (['--yes'] if yes else []) + (['--dry-run'] if inv.dry else [])
                case = {'stream': cls, 'world': name, 'base_world': kind, 'failure_world': failure, 'history': w.info.get('history'),
                        'argv': argv, 'exit': r['rc'], 'changed_paths': C.diff_paths(jd, w.sb.root)[:25], 'stdout_head': r['out'][:300]}
                if jd:
                    o.viol.append(('%s invocation `agentpack %s` changed %s (%s)' % (cls, ' '.join(argv), sorted(C.classify_delta(jd, w)), C.diff_paths(jd, w.sb.root)[:4]), case))
                outcome = 'ok' if r['rc'] == 0 else 'error'
                o.counts.append((cls, (name, tuple(argv), outcome), True, ['world:' + kind, 'mode:' + ('json' if json_mode else 'human'), 'class:' + cls, 'outcome:' + outcome]))
            if not results:
                continue
            # model: no effects, no refusal, command id (json runs only)
            rj = results.get((True, False))
            if rj and isinstance(rj['doc'], dict):
                f = dict(w.facts); f.pop('healthy', None)
                f.update(C.flag_facts(inv, json_mode=True, yes=False))
                f['body_writes'] = True; f['pre_ok'] = True     # the model's answer must not depend on them here
                term = cq.cpair(cq.cstr(inv.cid), C.facts_term(f), cq.cstr(rj['doc'].get('command_id') or ''))
                o.cases.append((term, {'stream': cls, 'world': name, 'argv': inv.argv, 'dry_run': inv.dry, 'command_id': rj['doc'].get('command_id')}))
                if C.confirm_refusal(rj['doc']) is not None:
                    o.viol.append(('%s invocation `agentpack %s --json` is refused with E_CONFIRM_REQUIRED' % (cls, ' '.join(inv.argv)),
                                   {'stream': cls, 'world': name, 'argv': inv.argv, 'dry_run': inv.dry}))
            # dry-run report = real-run report from the same state
            if cls == 'dryrun' and rj and isinstance(rj['doc'], dict) and rj['doc'].get('ok'):
                real = C.Invocation(inv.cid, inv.argv, inv.flags, False, inv.stdin)
                rr = R.run(real, json_mode=True, yes=True)
                o.n += 1
                case = {'stream': 'dry_vs_real', 'world': name, 'base_world': kind, 'history': w.info.get('history'), 'argv': inv.argv}
                if isinstance(rr['doc'], dict) and rr['doc'].get('ok'):
                    a = report_of(inv.cid, rj['doc']); b = report_of(inv.cid, rr['doc'])
                    same = a == b
                    case.update({'dry_report': json.dumps(a)[:1500], 'real_report': json.dumps(b)[:1500]})
                    if not same:
                        o.viol.append(('the report of `agentpack %s --dry-run` differs from the report of the real run from the same state' % ' '.join(inv.argv), case))
                    wrote = bool(judged_delta(rr['delta'], w))
                    o.counts.append(('dry_vs_real', (name, tuple(inv.argv), same, wrote), wrote, ['world:' + kind, 'command:' + inv.cid, 'real_wrote:%s' % wrote]))
                    if wrote and len(o.samples) < 1:
                        o.samples.append(case)
                else:
                    code = (C.first_error(rr['doc']) or {}).get('code') if isinstance(rr['doc'], dict) else None
                    o.counts.append(('dry_vs_real', (name, tuple(inv.argv), 'real-failed', code), False, ['world:' + kind, 'command:' + inv.cid, 'real_failed:%s' % code]))
        # MCP: read-only tools and dry_run=true
        if not getattr(w, 'unpriv', False):
            env = {'EDITOR': ''}; env.update(getattr(w, 'extra_env', {}) or {})
            calls = [(t, dict(a), 'readonly') for t, vs in MCP_READONLY.items() for a in vs]
            calls += [(t, dict(a, dry_run=True), 'dryrun') for t, vs in MCP_DRY.items() for a in vs]
            for tool, args, cls in calls:
                srv = Mcp(w.sb, env)
                try:
                    msg, envl = srv.call(tool, args)
                finally:
                    srv.close()
                after = w.snapshot(); d = snap_diff(R.base, after)
                if d or R.base.raw_index != after.raw_index: R.back_to_base(after)
                jd = judged_delta(d, w)
                o.n += 1
                case = {'stream': 'mcp_' + cls, 'world': name, 'base_world': kind, 'history': w.info.get('history'), 'tool': tool, 'arguments': args,
                        'ok': (envl or {}).get('ok'), 'changed_paths': C.diff_paths(jd, w.sb.root)[:25]}
                if jd:
                    o.viol.append(('MCP %s tool %s %r changed %s' % (cls, tool, args, C.diff_paths(jd, w.sb.root)[:4]), case))
                if C.confirm_refusal(envl) is not None:
                    o.viol.append(('MCP %s call %s %r is refused with E_CONFIRM_REQUIRED' % (cls, tool, args), case))
                o.counts.append(('mcp', (name, tool, json.dumps(args, sort_keys=True), (envl or {}).get('ok')), True, ['world:' + kind, 'tool:' + tool, 'class:' + cls]))
                # dry-run report vs real run through the CLI handler of the same command
                if cls == 'dryrun' and isinstance(envl, dict) and envl.get('ok'):
                    cid = gen['mcp_mutating_tools'][tool].replace(' --apply', '')
                    rargs = {k: v for k, v in args.items() if k != 'dry_run'}; rargs['yes'] = True
                    srv = Mcp(w.sb, env)
                    try:
                        if tool == 'deploy_apply':
                            m0, e0 = srv.call('deploy', {})
                            if e0 and e0.get('ok'): rargs['confirm_token'] = e0['data'].get('confirm_token')
                        msg2, env2 = srv.call(tool, rargs)
                    finally:
                        srv.close()
                    after = w.snapshot(); d2 = snap_diff(R.base, after)
                    if d2 or R.base.raw_index != after.raw_index: R.back_to_base(after)
                    o.n += 1
                    if isinstance(env2, dict) and env2.get('ok'):
                        a = report_of(cid, envl); b = report_of(cid, env2)
                        wrote = bool(judged_delta(d2, w))
                        c2 = dict(case); c2.update({'stream': 'mcp_dry_vs_real', 'dry_report': json.dumps(a)[:1200], 'real_report': json.dumps(b)[:1200]})
                        if a != b:
                            o.viol.append(('MCP %s dry_run report differs from the report of the real call from the same state' % tool, c2))
                        o.counts.append(('dry_vs_real', (name, 'mcp:' + tool, json.dumps(args, sort_keys=True), a == b, wrote), wrote, ['world:' + kind, 'command:mcp ' + tool, 'real_wrote:%s' % wrote]))
    finally:
        w.close()
    return o

def replay(ctx):
    rep = json.load(open(ctx.replay))
    if 'argv' not in rep or rep.get('stream') not in ('readonly', 'dryrun') or rep.get('history'):
        ctx.notes.append('replay file is not a plain CLI case (or needs its history); running the full check instead')
        return False
    kind = rep['base_world']
    w = C.build_failure_world(kind, 'c09r') if rep.get('failure_world') else C.build_world(kind, 'c09r')
    try:
        base = w.snapshot()
        rc, doc, out, err = C.world_cli(w, rep['argv'], stdin=b'n\n')
        jd = judged_delta(snap_diff(base, w.snapshot()), w)
        if jd:
            ctx.violation('`agentpack %s` changed %s' % (' '.join(rep['argv']), C.diff_paths(jd, w.sb.root)[:6]), rep)
        ctx.count('replay', key=json.dumps(rep['argv']))
    finally:
        w.close()
    return True

def rebase_dry_stream(ctx, n):
    """overlay rebase --dry-run over generated (baseline, overlay edit, new upstream) triples, dir and patch overlays incl.
    files deleted upstream / in the overlay / added, conflicts: the overlay directory (baseline included) must be byte-identical
    and the dry-run report must equal the report of the real run that follows (scenario machinery of props/c14.py;
    only its dry-run predicates are judged here)"""
    import concurrent.futures
    from props import c14
    rng = ctx.rng
    specs = []
    for i in range(n):
        sp = c14.gen_spec(rng, i, kind=rng.choice(['dir', 'patch', 'patch']), quick=True)
        for st in sp['steps']:
            st['dry_first'] = True; st['noyes'] = False
        specs.append(sp)
    def job(sp):
        try:
            return c14.run_scenario(sp)
        except InfraError as e:
            return None
    with concurrent.futures.ThreadPoolExecutor(max_workers=8) as ex:
        results = list(ex.map(job, specs))
    for sp, R in zip(specs, results):
        if R is None:
            ctx.count('rebase_dry', key=('infra', sp.get('name')), nontrivial=False, tags=['skipped']); continue
        ctx.count('rebase_dry', key=(sp.get('kind'), len(sp['steps']), sp.get('name')), tags=['kind:%s' % sp.get('kind')])
        for what, extra in R.viol:
            if 'dry' in what.lower():
                ctx.violation(what, {'stream': 'rebase_dry', 'spec': sp, 'detail': extra})

def run(ctx):
    quick = ctx.tier == 'quick'
    ctx.rule = ('worlds: the fixed classes %s, failure worlds (overlay conflict / patch failure / baseline missing, read-only target), and worlds reached by '
                'random histories (depth 2-5 over %s) from the deployed/pending/fresh classes; invocations: every leaf command x flag subset x --dry-run whose '
                'command id is not a mutating id (read-only) or that is a --dry-run of a command documenting dry-run support, each in JSON and human mode, '
                'with and without --yes; MCP read-only tools and mutating tools with dry_run=true. Whole-sandbox snapshot (files, modes, git refs / index entries / '
                'config) before and after must be identical outside AGENTPACK_HOME/cache; then the real run (--yes, no --dry-run) is executed from the same state and '
                'its change list / report compared with the dry run\'s. distinct = (world+history, argv, outcome); non-trivial for dry_vs_real = the real run wrote.'
                % (C.WORLD_KINDS, C.HISTORY_OPS))
    ctx.trusted = ['Coq 8.16.1 kernel + vm_compute', 'hand-written model coq/Model/Dispatch.v', 'tools/gen_tables.py (catalogue, mutating ids, MCP tool registry)',
                   'Python world builder / snapshotter / MCP client']
    ctx.assumptions = ['PARTIAL: byte-identity of the config repo, target roots, snapshots and logs is an observation on the sampled worlds',
                       'AGENTPACK_HOME/cache (auto-fetched git checkouts, store layout) and private temp dirs are outside the statement',
                       'doctor\'s writability probe creates and removes a file: net effect nil unless the process dies in between',
                       'the deploy-specific dry-run theorem over plan contents belongs to the deploy model, not to this check']
    ctx.proof_phase(extra_targets=['Corr/Check_C08.vo'])
    gen = C.gen_tables()
    cat, helpdoc = C.load_catalogue()
    # the read-only list of the property, derived on the binary: catalogue minus advertised mutating ids
    ro = sorted(i for i in gen['catalogue_ids'] if i not in cat.mutating)
    expected = sorted(['plan', 'diff', 'preview', 'status', 'explain plan', 'explain diff', 'explain status', 'doctor', 'score', 'help', 'schema',
                       'policy lint', 'policy audit', 'overlay path', 'import', 'deploy', 'completions', 'mcp serve'])
    if ro != expected:
        ctx.violation('the read-only commands (catalogue minus help --json mutating_commands) are %r, the property lists %r' % (ro, expected),
                      {'stream': 'catalogue', 'derived': ro, 'expected': expected})
    ctx.count('catalogue', key='readonly-list', tags=['readonly:%d' % len(ro)])
    if ctx.replay and replay(ctx):
        return
    jobs = [(k, False, 0) for k in C.WORLD_KINDS]
    jobs += [(k, True, 0) for k in ('overlay_conflict', 'overlay_patch_fail', 'overlay_baseline_missing', 'ro_target', 'conflict', 'snapshot_corrupt')]
    nh = 20 if quick else 120
    for i in range(nh):
        jobs.append((ctx.rng.choice(['deployed', 'pending', 'fresh', 'pending', 'nomanifest', 'bootstrapped']), False, ctx.rng.randrange(2, 6)))
    for i in range(3 if quick else 16):     # histories ending with the roots holding legacy-named manifests only (negative = forced last op)
        jobs.append((ctx.rng.choice(['deployed', 'pending']), False, -ctx.rng.randrange(1, 4)))
    for i in range(3 if quick else 16):     # histories ending with an overlay whose edit upstream made too (<= -100: forced last op overlay_subset)
        jobs.append((ctx.rng.choice(['deployed', 'pending']), False, -100 - ctx.rng.randrange(1, 3)))
    seeds = [ctx.rng.randrange(1 << 30) for _ in jobs]
    outs = []
    with concurrent.futures.ProcessPoolExecutor(max_workers=min(8, NCPU)) as ex:
        futs = [ex.submit(run_world, k, seeds[i], quick, fl, hs) for i, (k, fl, hs) in enumerate(jobs)]
        for f in futs:
            outs.append(f.result())
    cases = []
    cache = 0
    kept, dropped = C.cap_violations([v for o in outs for v in o.viol])
    for what, case in kept:
        ctx.violation(what, case)
    if dropped:
        ctx.notes.append('%d further violations of the same (command, kind) not written as replays' % dropped)
    for o in outs:
        for stream, key, nt, tags in o.counts:
            ctx.count(stream, key=key, nontrivial=nt, tags=tags)
        for s_ in o.samples:
            ctx.sample(s_)
        cases += o.cases; cache += o.cache_deltas
    ctx.notes.append('%d invocations touched only AGENTPACK_HOME/cache (outside the statement)' % cache)
    # dedupe model cases
    seen = set(); uniq = []
    for t, c in cases:
        if t not in seen:
            seen.add(t); uniq.append((t, c))
    for c in ctx.corr('quiet', HEADER, 'check_quiet', 'str * facts * str', uniq)[:6]:
        ctx.violation('model and implementation disagree: the model predicts an effect / a refusal / another command id for a read-only or dry-run invocation', c, no_input=True)
    rebase_dry_stream(ctx, 24 if quick else 400)
