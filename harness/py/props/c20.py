"""C20 — A clean policy lint really means the governed rules hold.

Streams (all through the implementation built from /repo's working tree):
  tables   help --json / avh mutating_ids / Gen tables: one mutating set, one set of global flags
  corpus   the F9 witnesses (fixed defects) and hand-written edge cases: must pass the oracle
  cmdfile  generated Claude command markdown -> policy::lint (dangerous_defaults), hooks
           extract_bash_commands / extract_agentpack_invocations / agentpack_command_id; ORACLE = the
           reference shell reading below (independent of the model); a sample goes to the Coq model
  argv     raw argvs -> agentpack_command_id hook vs model; reference id vs the real clap parser
  url      remote spellings x allow entries -> normalize / matches hooks; ORACLE = the reference URL
           decomposition below; a sample goes to the Coq model and the Coq reference
  config   whole repositories (org policy, manifest, lockfile, skills, command files) through
           `agentpack policy lint --json`; oracle = every governed rule evaluated by the reference
"""
import os, json, re, shutil
from vlib.common import *
from vlib import coqrun as cq
from vlib.impl import Avh, Sandbox

HEADER = 'From AP Require Import Corr.Check_C20.\nOpen Scope N_scope.\n'

# ====================================================================== reference reading (oracle)
# Written from the specification's words (SPEC 4.19, the shell, clap, git/curl/ssh URL rules); it shares
# no code with the Coq model.  Coq's own reference (Model/PolicyCmd.v part 2, Model/PolicyUrl.v part 2)
# is compared against it case by case (check_ref_line / check_ref_id / check_ref_url).

WS = set([9, 10, 11, 12, 13, 32, 0x85, 0xA0, 0x1680, 0x2028, 0x2029, 0x202F, 0x205F, 0x3000] + list(range(0x2000, 0x200B)))

def is_ws(ch): return ord(ch) in WS

def ws_strip(t):
    i, j = 0, len(t)
    while i < j and is_ws(t[i]): i += 1
    while j > i and is_ws(t[j - 1]): j -= 1
    return t[i:j]

def ws_words(t):
    out, cur = [], ''
    for ch in t:
        if is_ws(ch):
            if cur: out.append(cur); cur = ''
        else:
            cur += ch
    if cur: out.append(cur)
    return out

def text_lines(md):
    """str::lines(): split at \\n, drop one \\r before it, no final empty line"""
    parts = md.split('\n')
    if parts and parts[-1] == '':
        parts.pop(); terminated = [True] * len(parts)
    else:
        terminated = [True] * (len(parts) - 1) + [False]
    return [p[:-1] if t and p.endswith('\r') else p for p, t in zip(parts, terminated)]

def ref_shell_lines(md):
    """every run of non-blank lines directly below a `!bash` / !`bash` line (duplicates possible, as in Coq)"""
    ls = text_lines(md)
    out = []
    for i, l in enumerate(ls):
        if ws_strip(l) in ('!bash', '!`bash`'):
            for m in ls[i + 1:]:
                t = ws_strip(m)
                if t == '': break
                out.append(t)
    return out

NAME_RE = re.compile(r'^[A-Za-z_][A-Za-z0-9_]*=')

def ref_command_word(w):
    if NAME_RE.match(w): return False
    w = w.strip('"\'')
    if w.split('/')[-1] == 'agentpack': return True
    return '\\' in w and w.split('\\')[-1] == 'agentpack.exe'

def ref_invocations_line(line):
    out = []
    for simple in re.split(r'[;|&]', line):
        ws = ws_words(simple)
        for k, w in enumerate(ws):
            if ref_command_word(w):
                if ws[k + 1:]: out.append(ws[k + 1:])
                break
    return out

class Catalogue:
    """what the binary says about itself (help --json)"""
    def __init__(self, helpdoc):
        d = helpdoc['data']
        self.mutating = list(d['mutating_commands'])
        self.ids = sorted(set(c['id'] for c in d['commands']) | set(self.mutating))
        self.value_flags = sorted('--' + a['long'] for a in d['global_args'] if a['kind'] == 'option')
        self.bool_flags = sorted('--' + a['long'] for a in d['global_args'] if a['kind'] == 'flag')
        self.groups = sorted({i.split(' ')[0] for i in self.ids if ' ' in i and not i.split(' ', 1)[1].startswith('-')})
        self.variants = sorted({(i.split(' ')[0], i.split(' ', 1)[1]) for i in self.ids if ' ' in i and i.split(' ', 1)[1].startswith('-')})
    def next_word(self, argv):
        i = 0
        while i < len(argv):
            t = argv[i]
            if t == '--': return None
            if t.startswith('-'):
                i += 2 if t in self.value_flags else 1
                continue
            return t, argv[i + 1:]
        return None
    def ref_id(self, argv):
        nw = self.next_word(argv)
        if nw is None: return None
        w1, after = nw
        if w1 in self.groups:
            n2 = self.next_word(after)
            return w1 + ' ' + n2[0] if n2 else w1
        for w, f in self.variants:
            if w == w1:
                return w1 + ' ' + f if f in after else w1
        return w1

def ref_violations_of_file(cat, md):
    """mutating reference invocations lacking --json or --yes"""
    bad = []
    for line in ref_shell_lines(md):
        for argv in ref_invocations_line(line):
            rid = cat.ref_id(argv)
            if rid in cat.mutating and not ('--json' in argv and '--yes' in argv):
                bad.append({'line': line, 'argv': argv, 'ref_id': rid})
    return bad

# ---------------------------------------------------------------------- reference URL decomposition

def ref_parse(url):
    t = ws_strip(url)
    while t.endswith('.git'): t = t[:-4]
    m = re.match(r'^([A-Za-z][A-Za-z0-9+.\-]*)://', t)
    def authority(form, scheme, auth, rest):
        k = auth.rfind('@')
        userinfo = auth[:k] if k >= 0 else None
        hostport = auth[k + 1:]
        c = hostport.find(':')
        host, port = (hostport, None) if c < 0 else (hostport[:c], hostport[c + 1:])
        if host == '': return None
        if port is not None and not all(ch in '0123456789' for ch in port): return None
        return {'form': form, 'scheme': scheme, 'userinfo': userinfo, 'host': host, 'port': port, 'path': rest}
    def cut(s_, stops):
        for i, ch in enumerate(s_):
            if ch in stops: return s_[:i], s_[i:]
        return s_, ''
    if m:
        sc = m.group(1); rest = t[m.end():]
        a, r = cut(rest, '/' if sc.lower() == 'ssh' else '/?#')
        return authority(0, sc, a, r)
    c = t.find(':')
    if c >= 0 and '/' not in t[:c]:
        d = authority(1, '', t[:c], '/' + t[c + 1:])
        return d
    a, r = cut(t, '/?#')
    return authority(2, '', a, r)

def ref_segments(d):
    return [p for p in re.split(r'[/?#]', d['path']) if p != '']

DOTS = {'.', '%2e', '%2E', '..', '.%2e', '.%2E', '%2e.', '%2E.', '%2e%2e', '%2e%2E', '%2E%2e', '%2E%2E'}

def ref_allow(a):
    d = ref_parse(a)
    if d is None: return None
    if any(ch in d['host'] + d['path'] for ch in '?#') or d['port'] is not None: return None
    if d['form'] == 2:
        ok = d['userinfo'] is None
    elif d['form'] == 1:
        ok = d['userinfo'] == 'git'
    else:
        ok = d['scheme'] == 'ssh' or (d['scheme'] in ('https', 'http') and d['userinfo'] is None)
    return d if ok else None

def lower(t):
    return t.lower()

def ref_under(du, da):
    if lower(du['host']) != lower(da['host']): return False
    su, sa = [lower(x) for x in ref_segments(du)], [lower(x) for x in ref_segments(da)]
    if su[:len(sa)] != sa: return False
    if any(x in DOTS for x in ref_segments(du)): return False
    if du['port'] is not None: return False
    if du['userinfo'] is not None and du['form'] == 0 and du['scheme'].lower() != 'ssh': return False
    return True

# ====================================================================== generators

def pick(rng, xs): return xs[rng.randrange(len(xs))]

BLANKS = [' ', ' ', ' ', '  ', '\t', ' \t', '\u00a0', '\u2003', '\u3000']
SEPS = [' ; ', ';', '; ', ' ;', ' && ', '&&', ' &&', '&& ', ' || ', '||', ' | ', '|', '| ', ' & ', '&', ';;', ' ;; ']
WORDS_AP = ['agentpack', 'agentpack', 'agentpack', './agentpack', '/usr/local/bin/agentpack', '"agentpack"', "'agentpack'",
            '"/opt/tools/agentpack"', "'~/bin/agentpack'", 'C:\\tools\\agentpack.exe', '"C:\\Program Files\\agentpack.exe"',
            '~/agentpack/bin/agentpack', '$HOME/.cargo/bin/agentpack']
WORDS_NEAR = ['agentpackx', 'agentpack.sh', 'myagentpack', 'agentpack/', '/agentpack/x', 'agentpack.exe', 'AGENTPACK', 'agentpack=1',
              '/opt/agentpack.exe', 'x\\agentpack']
ASSIGN = ['FOO=1', 'AGENTPACK_HOME=/home/u/agentpack', 'X=/opt/agentpack', 'RUST_LOG=debug', '_A1=', 'AP="agentpack"',
          'PATH=/opt/agentpack:$PATH', 'A=b=/x/agentpack', '1X=/x/agentpack', 'a-b=/x/agentpack', '=/x/agentpack']
WRAP = ['', '', '', 'sudo', 'sudo -E', 'env', 'time', 'nohup', 'exec', 'command', 'xargs -n1', 'sudo -u deploy']
OTHER = ['echo done', 'git status', 'tee log.txt', 'jq .', 'cat agentpack.yaml', 'echo agentpack lock', 'cd ~/agentpack', 'true', 'grep -q ok',
         'echo "run agentpack deploy --apply"', 'ls /opt/agentpack']
SUBARGS = {'add': ['skill:review', 'git:https://github.com/acme/skills#ref=v1.2.0'], 'remove': ['skill:x'], 'overlay edit': ['skill:x'], 'overlay rebase': ['skill:x'],
           'overlay path': ['skill:x'], 'remote set': ['https://github.com/acme/cfg.git'], 'rollback': ['--to', '1700000000000'],
           'evolve restore': [], 'evolve propose': ['--module-id', 'skill:x'], 'explain plan': [], 'completions': ['bash'],
           'init': ['--git'], 'bootstrap': ['--scope', 'project'], 'update': ['--lock'], 'deploy': [], 'doctor': [], 'import': []}

def gen_argv(rng, cat, want=None):
    """an agentpack argv: a catalogue command with global flags in any position"""
    cid = want or (pick(rng, cat.mutating) if rng.random() < 0.7 else pick(rng, cat.ids))
    words = cid.split(' ')
    base = [w for w in words if not w.startswith('-')]
    variant = [w for w in words if w.startswith('-')]
    k = rng.random()
    flags = ['--json', '--yes'] if k < 0.5 else (['--json'] if k < 0.62 else (['--yes'] if k < 0.74 else ([] if k < 0.9 else ['--yes', '--json'])))
    if rng.random() < 0.15: flags = flags + ['--dry-run']
    if rng.random() < 0.06: flags = [f.upper() if rng.random() < 0.5 else f + '=true' for f in flags]
    extra = []
    for _ in range(rng.choice([0, 0, 1, 1, 2])):
        f = pick(rng, cat.value_flags)
        v = pick(rng, ['x', '/tmp/repo', 'default', 'codex', 'm1', '~/agentpack', 'lock', 'deploy', '--json', 'overlay', 'a;b', 'team#2', 'a#b', '#7', "'#q'"])
        extra.append([f + '=' + v] if rng.random() < 0.25 else [f, v])
    if rng.random() < 0.05: extra.append([pick(rng, ['--verbose', '-v', '--no-color', '-'])])
    if rng.random() < 0.03: extra.append(['--'])
    # slots: 0 = before the command, 1..len(base)-1 = between group words, len(base) = after
    slots = [[] for _ in range(len(base) + 1)]
    for f in flags:
        slots[rng.randrange(len(slots))].append([f])
    for e in extra:
        slots[rng.randrange(len(slots))].append(e)
    tail = list(SUBARGS.get(' '.join(base), [])) if rng.random() < 0.7 else []
    after = slots[len(base)] + [[v] for v in variant] + [[t] for t in tail]
    rng.shuffle(after)
    if rng.random() < 0.08 and variant: after = [x for x in after if x != [variant[0]]]   # drop --apply / --fix
    out = []
    for i, w in enumerate(base):
        for e in slots[i]: out += e
        out.append(w)
    for e in after: out += e
    if rng.random() < 0.04: out = out[:rng.randrange(len(out) + 1)]
    return out

def gen_simple(rng, cat):
    k = rng.random()
    if k < 0.72:
        pre = []
        for _ in range(rng.choice([0, 0, 0, 1, 1, 2])): pre.append(pick(rng, ASSIGN))
        w = pick(rng, WRAP)
        if w: pre.append(w)
        if rng.random() < 0.15: pre.append(pick(rng, ASSIGN))
        word = pick(rng, WORDS_AP) if rng.random() < 0.9 else pick(rng, WORDS_NEAR)
        toks = pre + [word] + gen_argv(rng, cat)
        if rng.random() < 0.12: toks += [pick(rng, ['2>&1', '>/dev/null', '> out.json', '2>/dev/null', '<in.json'])]
        if rng.random() < 0.06: toks.insert(rng.randrange(1, len(toks) + 1), pick(rng, ['#', '# note', 'x#y', 'https://h/o/r#frag', '"#"']))
        b = pick(rng, BLANKS) if rng.random() < 0.15 else ' '
        return b.join(toks)
    return pick(rng, OTHER)

def gen_shell_line(rng, cat):
    n = rng.choice([1, 1, 1, 2, 2, 3])
    parts = [gen_simple(rng, cat) for _ in range(n)]
    line = parts[0]
    for p in parts[1:]:
        line += pick(rng, SEPS) + p
    if rng.random() < 0.05: line += pick(rng, [';', ' &', ' |'])
    if rng.random() < 0.1: line = pick(rng, BLANKS) + line
    if rng.random() < 0.1: line += pick(rng, BLANKS)
    return line

PROSE = ['# Deploy', 'Run the following.', 'Use `agentpack deploy --apply` to apply.', 'Never run agentpack lock by hand.', '- step one', '> note',
         'agentpack update; agentpack lock', 'See !bash blocks below.', '!bashx', '! bash', '!bash now', 'x !bash', '`!bash`', '!`bash` ', '']
MARKERS = ['!bash', '!bash', '!bash', '!`bash`', '  !bash', '!bash  ', '\t!`bash`\t', '!bash\u00a0']

def gen_cmdfile(rng, cat):
    """returns (markdown, frontmatter-structure)"""
    nl = '\r\n' if rng.random() < 0.12 else '\n'
    lines = []
    k = rng.random()
    fm = None
    if k < 0.8:
        tools = pick(rng, [['Bash("agentpack *")'], ['Read', 'Bash(agentpack:*)'], 'Bash(agentpack deploy:*)', ['Read'], 'Read, Write', None, ['bash(x)'], [3, 'Bash(x)']])
        fm = {'description': 'x'}
        if tools is not None: fm['allowed-tools'] = tools
        lines = ['---'] + [('%s: %s' % (json.dumps(kk), json.dumps(v))) for kk, v in fm.items()] + ['---', '']
    elif k < 0.9:
        fm = 'missing'
    else:
        fm = 'unterminated'
        lines += ['---', 'description: x', '']
    for _ in range(rng.choice([1, 1, 2, 2, 3, 4])):
        kind = rng.random()
        if kind < 0.55:
            lines.append(pick(rng, MARKERS))
            for _ in range(rng.choice([1, 1, 1, 2, 3])):
                lines.append(gen_shell_line(rng, cat))
            if rng.random() < 0.1: lines.append(pick(rng, MARKERS))          # marker inside a block = a command line
            if rng.random() < 0.8: lines.append(pick(rng, ['', '', ' ', '\t', '\u00a0']))
        elif kind < 0.75:
            lines.append(pick(rng, ['```bash', '```sh', '```', '~~~']))
            for _ in range(rng.choice([1, 2])): lines.append(gen_shell_line(rng, cat))
            lines.append('```'); lines.append('')
        else:
            for _ in range(rng.choice([1, 2, 3])): lines.append(pick(rng, PROSE))
            if rng.random() < 0.5: lines.append('')
    md = nl.join(lines)
    if rng.random() < 0.8: md += nl
    return md, fm

# ---------------------------------------------------------------------- URLs

HOSTS = ['github.com', 'gitlab.com', 'git.corp.example', 'bitbucket.org']
ORGS = ['org', 'acme', 'your-org', 'a.b', 'o_1']
def case_mix(rng, t):
    k = rng.random()
    if k < 0.7: return t
    if k < 0.85: return t.upper()
    return ''.join(ch.upper() if rng.random() < 0.4 else ch for ch in t)

def gen_allow(rng):
    h, o = pick(rng, HOSTS), pick(rng, ORGS)
    k = rng.random()
    forms = ['%s/%s' % (h, o), '%s/%s/' % (h, o), h, 'https://%s/%s' % (h, o), 'git@%s:%s' % (h, o), 'ssh://git@%s/%s' % (h, o),
             '%s/%s/repo' % (h, o), '%s/%s.git' % (h, o), 'http://%s/%s/' % (h, o), h + '/', 'https://%s' % h, 'ssh://%s/%s' % (h, o),
             '%s//%s' % (h, o)]
    odd = ['%s:443/%s' % (h, o), 'https://user@%s/%s' % (h, o), '%s/%s?x' % (h, o), '', ' ', '/%s/%s' % (h, o), 'git:', 'https:', h + ':',
           'git@%s/%s' % (h, o), 'ssh://git@%s:22/%s' % (h, o), '%s/%s/..' % (h, o), 'HTTPS://%s/%s' % (h, o), 'git://%s/%s' % (h, o),
           '%s@%s/%s' % (o, h, o), 'https://%s:%s' % (h, o), '%s:%s' % (h, o), 'https://%s/%s#x' % (h, o)]
    a = pick(rng, forms) if k < 0.8 else pick(rng, odd)
    a = case_mix(rng, a) if rng.random() < 0.3 else a
    if rng.random() < 0.1: a = ' ' + a + pick(rng, [' ', '\t', '\n'])
    return a, h, o

def gen_url(rng, h, o):
    """a remote spelling aimed at allow host h / org o"""
    if rng.random() < 0.3:        # a regular spelling (mostly under the entry), so that the matching branch is well exercised
        hh = case_mix(rng, h); oo = case_mix(rng, pick(rng, [o, o, o, o + '/team', o + 'x', 'other']))
        repo = pick(rng, ['r', 'repo.git', 'r/', 'sub/r.git', 'R', 'r.git.git', 'r?x=1', 'r#main', ''])
        k = rng.randrange(6)
        u = ['https://%s/%s/%s', 'http://%s/%s/%s', 'ssh://git@%s/%s/%s', 'git@%s:%s/%s', 'ssh://%s/%s/%s', 'ssh://deploy@%s/%s/%s'][k] % (hh, oo, repo)
        if rng.random() < 0.1: u = ' ' + u + pick(rng, [' ', '\n', '\t'])
        return u
    host = pick(rng, [h, h, h, h, h + '.evil.com', 'evil' + h, 'evil.com', h.upper(), h.replace('k', '\u212a') if 'k' in h else h, 'x.' + h, h + '.',
                      h[:-1], h + 'x', '', '[::1]', h.replace('i', '\u0130', 1)])
    user = pick(rng, [None, None, None, 'git', 'user', 'user:pw', h, h + ':x', h + '/' + o, 'a@b', '', 'git@' + h])
    port = pick(rng, [None, None, None, None, '22', '443', '', o, '22x'])
    org = pick(rng, [o, o, o, o, o + '-evil', o + 'x', 'other', o.upper(), '..', o + '/..', '%2e%2e', o + '/%2E%2e', o + '/.%2e', o + '/.', '', o + ':x', o[:-1]])
    repo = pick(rng, ['r', 'repo.git', 'repo.git/', 'r/', 'r.git.git', '../other/r', '..', '%2e%2e/x', 'r?x=1', 'r#frag', 'r?/../..', '..?x', 'r/..#f', 'x@' + h + '/' + o + '/r',
                      'sub/r', 'r:x', '', '.git', '\u00e9\u00c9', 'R'])
    scheme = pick(rng, ['https', 'https', 'https', 'http', 'ssh', 'ssh', 'scp', 'scp', 'bare', 'git', 'HTTPS', 'Ssh', 'file', 'ftp+x'])
    auth = ('' if user is None else user + '@') + host + ('' if port is None else ':' + port)
    path = '/'.join(x for x in [org, repo] if x != '' or rng.random() < 0.3)
    k = rng.random()
    if scheme == 'scp':
        u = ('' if user is None else user + '@') + host + ':' + (pick(rng, ['', '/', '']) + path)
    elif scheme == 'bare':
        u = auth + '/' + path
    else:
        glue = pick(rng, ['/', '/', '/', '/', '//', '?', '#', ''])
        u = scheme + '://' + auth + (glue + path if path or glue != '' else '')
    if k < 0.06:
        i = rng.randrange(len(u) + 1)
        u = u[:i] + pick(rng, ['@', ':', '/', '?', '#', '\\', '%2e', '..', ' ', '.git']) + u[i:]
    if rng.random() < 0.08: u = pick(rng, [' ', '\t', '\n']) + u + pick(rng, [' ', '\n', ''])
    return u

# ====================================================================== Coq terms

def cstrs(xs): return cq.clist([cq.cstr(x) for x in xs])
def cinv(argv, cid): return cq.cpair(cstrs(argv), cq.copt(cid, cq.cstr))

def c_refobs(d):
    if d is None: return 'None'
    return '(Some %s)' % cq.cpair(cq.cN(d['form']), cq.cstr(d['scheme']), cq.copt(d['userinfo'], cq.cstr), cq.cstr(d['host']),
                                   cq.copt(d['port'], cq.cstr), cstrs(ref_segments(d)))

COVERED_UPPER = set(range(65, 91)) | (set(range(192, 223)) - {215}) | {304, 8486, 8490, 8491} | (set(range(913, 940)) - {930, 931}) | set(range(1024, 1072))
def in_lower_alphabet(t):
    """characters whose to_lowercase the Coq model covers (see Model/PolicyUrl.v lower_char)"""
    for ch in t:
        o = ord(ch)
        if o in COVERED_UPPER: continue
        if ch.lower() != ch: return False
    return True

# ====================================================================== streams

def corr(ctx, stream, fn, ty, cases):
    """ctx.corr, except that a Coq side that no longer builds (changed table, broken model) must not stop the
    implementation-side oracle: it is recorded as a broken obligation and the streams go on"""
    try:
        return ctx.corr(stream, HEADER, fn, ty, cases)
    except InfraError as e:
        ctx.proof_broken('correspondence evaluator failed for stream %s (%s)' % (stream, fn), str(e)[-1500:])
        return []


def lint_batch(avh, root, files):
    """files: list of (name, bytes).  Writes them under <root>/.claude/commands and lints.  -> {name: [issue]}"""
    d = os.path.join(root, '.claude', 'commands')
    shutil.rmtree(d, ignore_errors=True); os.makedirs(d)
    for name, data in files:
        with open(os.path.join(d, name), 'wb') as f: f.write(data)
    r = avh.call({'op': 'policy_lint', 'root': root})
    if 'ok' not in r:
        raise InfraError('policy_lint failed: %r' % (r,))
    per = {name: [] for name, _ in files}
    for i in r['ok']['issues']:
        nm = i['path_posix'].rsplit('/', 1)[-1]
        per.setdefault(nm, []).append(i)
    return per

def judge_cmdfile(ctx, cat, case, md, issues, relint=None):
    """the property predicate on one command file; returns True if a violation was reported"""
    dd = [i for i in issues if i['rule'] == 'dangerous_defaults']
    bad = ref_violations_of_file(cat, md)
    case['ref_unflagged'] = bad[:3]
    if not dd and bad:
        ctx.violation("policy lint reports no dangerous_defaults issue, but the file runs mutating '%s' without --json/--yes: %s"
                      % (bad[0]['ref_id'], bad[0]['line'][:120]), case)
        return True
    flagged = {(i['details']['invocation']) for i in dd}
    missed = [b for b in bad if ' '.join(b['argv']) not in flagged]
    if missed and relint is not None:
        # lint is not clean, yet it overlooks this invocation: the neighbouring file holding only that line is the failing input
        md2 = FM_OK + missed[0]['line'] + '\n'
        iss2 = [i for i in relint(md2) if i['rule'] == 'dangerous_defaults']
        if not iss2 and ref_violations_of_file(cat, md2):
            ctx.violation("policy lint reports no dangerous_defaults issue, but the file runs mutating '%s' without --json/--yes: %s"
                          % (missed[0]['ref_id'], missed[0]['line'][:120]), dict(case, markdown=md2, derived_from=md[:2000], issues=[]))
            return True
    return False

def run_cmdfiles(ctx, avh, cat, n, ncoq, corpus=None):
    rng = ctx.rng
    root = os.path.join(ctx.scratch, 'lintroot'); os.makedirs(root, exist_ok=True)
    root2 = os.path.join(ctx.scratch, 'lintroot2'); os.makedirs(root2, exist_ok=True)
    files = corpus if corpus is not None else [gen_cmdfile(rng, cat) for _ in range(n)]
    stream = 'corpus' if corpus is not None else 'cmdfile'
    coq_file, coq_bash, coq_line, coq_ref = [], [], [], []
    B = 250
    for b0 in range(0, len(files), B):
        batch = files[b0:b0 + B]
        per = lint_batch(avh, root, [('f%05d.md' % (b0 + j), md.encode('utf-8')) for j, (md, fm) in enumerate(batch)])
        for j, (md, fm) in enumerate(batch):
            idx = b0 + j
            issues = per['f%05d.md' % idx]
            case = {'stream': stream, 'index': idx, 'markdown': md, 'issues': [{'rule': i['rule'], 'details': i.get('details')} for i in issues]}
            judge_cmdfile(ctx, cat, case, md, issues, relint=lambda m2: lint_batch(avh, root2, [('n.md', m2.encode('utf-8'))])['n.md'])
            rl = ref_shell_lines(md)
            invs = [a for l in rl for a in ref_invocations_line(l)]
            ids = sorted({cat.ref_id(a) or '-' for a in invs})
            nmut = sum(1 for a in invs if cat.ref_id(a) in cat.mutating)
            glued = any(re.search(r'\S[;|&]|[;|&]\S', l) for l in rl)
            ctx.count(stream, key=(tuple(ids), len(rl), glued, len([i for i in issues if i['rule'] == 'dangerous_defaults'])),
                      nontrivial=nmut > 0, tags=['lines:%d' % min(len(rl), 4), 'mutating_inv:%d' % min(nmut, 3), 'glued:%s' % glued,
                                                 'dd_issues:%d' % min(3, sum(1 for i in issues if i['rule'] == 'dangerous_defaults'))]
                      + ['id:' + x for x in ids])
            if idx < 2 and corpus is None:
                ctx.sample({'stream': stream, 'markdown': md[:500], 'dangerous_defaults': [i['details'] for i in issues if i['rule'] == 'dangerous_defaults'][:3]})
            if idx < ncoq or corpus is not None:
                dd = [(i['details']['line'], i['details']['invocation'].split(' ')) for i in issues if i['rule'] == 'dangerous_defaults']
                term = cq.cpair(cq.cstr(md), cq.clist([cq.cpair(cq.cN(l), cstrs(a)) for l, a in dd]), cstrs(rl))
                coq_file.append((term, dict(case, what_checked='dangerous_issues + ref_shell_lines')))
                # hooks on this file
                bc = avh.call({'op': 'bash_cmds', 'md': md})['out']
                coq_bash.append((cq.cpair(cq.cstr(md), cq.clist([cq.cpair(cq.cN(l), cq.cstr(t)) for l, t in bc])), dict(case, bash_cmds=bc)))
                for l, t in bc[:6]:
                    inv = avh.call({'op': 'invocations', 'line': t})['out']
                    cids = [avh.call({'op': 'command_id', 'argv': a})['out'] for a in inv]
                    coq_line.append((cq.cpair(cq.cstr(t), cq.clist([cinv(a, c) for a, c in zip(inv, cids)])),
                                     {'stream': stream, 'line': t, 'impl_invocations': inv, 'impl_ids': cids}))
                    rinv = ref_invocations_line(t)
                    coq_ref.append((cq.cpair(cq.cstr(t), cq.clist([cinv(a, cat.ref_id(a)) for a in rinv])),
                                    {'stream': stream, 'line': t, 'oracle_invocations': rinv, 'oracle_ids': [cat.ref_id(a) for a in rinv]}))
    T = 'str * list (N * list str) * list str'
    for c in corr(ctx, stream + '_file', 'check_file', T, coq_file):
        ctx.violation('model and implementation disagree on the dangerous_defaults issues of a command file (or Coq and Python reference on its shell lines)', c, no_input=True)
    for c in corr(ctx, stream + '_bash', 'check_bash', 'str * list (N * str)', coq_bash):
        ctx.violation('model and implementation disagree on extract_bash_commands', c, no_input=True)
    for c in corr(ctx, stream + '_line', 'check_line', 'str * list (list str * option str)', coq_line):
        ctx.violation('model and implementation disagree on extract_agentpack_invocations / agentpack_command_id', c, no_input=True)
    for c in corr(ctx, stream + '_ref', 'check_ref_line', 'str * list (list str * option str)', coq_ref):
        ctx.violation('Coq reference reading and the harness oracle disagree on a shell line (machinery defect)', c, no_input=True)

def run_argv(ctx, avh, cat, n, nclap):
    rng = ctx.rng
    cases, rcases = [], []
    argvs = []
    for i in range(n):
        a = gen_argv(rng, cat)
        if rng.random() < 0.1:
            a = [pick(rng, ['', '-', '--', 'lock', '--repo', 'deploy --apply', 'overlay', 'policy', '--apply', 'agentpack'])] + a if rng.random() < 0.5 else a + ['--']
        argvs.append(a)
    for want in cat.mutating:                 # every mutating id, canonical spelling
        argvs.append(want.split(' '))
    for a in argvs:
        cid = avh.call({'op': 'command_id', 'argv': a})['out']
        rid = cat.ref_id(a)
        case = {'stream': 'argv', 'argv': a, 'impl_id': cid, 'ref_id': rid}
        ctx.count('argv', key=tuple(a), nontrivial=rid in cat.mutating, tags=['ref:' + (rid if rid in cat.ids else 'other' if rid else 'none')])
        if rid in cat.mutating and cid != rid:
            ctx.violation("lint maps a mutating invocation of '%s' to '%s'" % (rid, cid), case)
        cases.append((cinv(a, cid), case))
        rcases.append((cinv(a, rid), dict(case, what='reference id: Coq vs oracle')))
    ctx.sample({'stream': 'argv', 'argv': argvs[0], 'impl_id': cases[0][1]['impl_id'], 'ref_id': cases[0][1]['ref_id']})
    for c in corr(ctx, 'argv', 'check_cmdid', 'list str * option str', cases):
        ctx.violation('model and implementation disagree on agentpack_command_id', c, no_input=True)
    for c in corr(ctx, 'argv_ref', 'check_ref_id', 'list str * option str', rcases):
        ctx.violation('Coq reference id and the harness oracle disagree (machinery defect)', c, no_input=True)
    # the reference id against the real parser: the envelope's command_id (run without --yes: nothing is applied)
    sb = Sandbox('c20clap')
    try:
        for a in argvs[:nclap] + [w.split(' ') for w in cat.mutating]:
            # never pass --yes (nothing may be applied); --dry-run changes the envelope id of deploy/import (command_path) — not generated here
            safe = []
            for t in a:
                if t in ('--yes', '--dry-run'): continue
                if t == '--json' and t in safe: continue
                safe.append(t)
            if '--json' not in safe: safe = ['--json'] + safe
            if any(t in ('mcp', 'tui', 'completions') for t in safe): continue
            p = sb.cli(safe, timeout=60, input=b'')
            try:
                doc = json.loads(p.stdout.decode('utf-8', 'replace'))
            except Exception:
                doc = None
            rid = cat.ref_id(safe)
            ctx.count('clap', key=tuple(safe), nontrivial=doc is not None, tags=['parsed:%s' % (doc is not None)])
            if doc is not None and doc.get('command_id') != rid:
                ctx.violation("the reference reading of an argv ('%s') differs from the real parser's command_id ('%s') — reference (machinery) or CLI changed"
                              % (rid, doc.get('command_id')), {'stream': 'clap', 'argv': safe, 'ref_id': rid, 'envelope_command_id': doc.get('command_id')}, no_input=True)
    finally:
        sb.close()

def run_urls(ctx, avh, n, ncoq, pairs=None):
    rng = ctx.rng
    stream = 'url' if pairs is None else 'url_corpus'
    if pairs is None:
        pairs = []
        for _ in range(n):
            a, h, o = gen_allow(rng)
            pairs.append((gen_url(rng, h, o), a))
    cases, rcases = [], []
    for i, (u, a) in enumerate(pairs):
        nu = avh.call({'op': 'url_norm', 'url': u})['out']
        na = avh.call({'op': 'url_norm', 'url': a})['out']
        m = avh.call({'op': 'url_match', 'remote': nu, 'allow': na})['out']
        du, da = ref_parse(u), ref_allow(a)
        under = ref_under(du, da) if (du and da) else None
        case = {'stream': stream, 'url': u, 'allow': a, 'impl_norm_url': nu, 'impl_norm_allow': na, 'impl_match': m,
                'ref_url': du, 'ref_allow': da, 'ref_under': under}
        ctx.count(stream, key=(u, a), nontrivial=bool(m) or bool(under),
                  tags=['match:%s' % m, 'under:%s' % under, 'form:%s' % (du['form'] if du else 'none')])
        if m and under is False:
            why = ('host %r is not the allow-listed %r' % (du['host'], da['host'])) if lower(du['host']) != lower(da['host']) else 'path/user-info/port/dot-segment'
            ctx.violation('allowlist accepts remote %r for entry %r although it is not under it (%s)' % (u, a, why), case)
        if i < 2 and stream == 'url': ctx.sample(case)
        if (i < ncoq or stream != 'url'):
            if in_lower_alphabet(u) and in_lower_alphabet(a):
                cases.append((cq.cpair(cq.cstr(u), cq.cstr(a), cq.cstr(nu), cq.cstr(na), cq.cbool(m)), case))
                rcases.append((cq.cpair(cq.cstr(u), cq.cstr(a), c_refobs(du), cq.cbool(da is not None), cq.copt(under, cq.cbool)), case))
    for c in corr(ctx, stream, 'check_url', 'str * str * str * str * bool', cases):
        ctx.violation('model and implementation disagree on normalize_git_remote_for_policy / remote_matches_allowlist', c, no_input=True)
    for c in corr(ctx, stream + '_ref', 'check_ref_url', 'str * str * option ref_obs * bool * option bool', rcases):
        ctx.violation('Coq reference decomposition and the harness oracle disagree (machinery defect)', c, no_input=True)

# ---------------------------------------------------------------------- whole configurations

GOOD_SHA = 'a' * 40

def gen_config(rng, cat):
    """a structured repository: returns dict with everything the oracle and the model need"""
    h, o = pick(rng, HOSTS), pick(rng, ORGS)
    allow = []
    if rng.random() < 0.7:
        for _ in range(rng.choice([1, 1, 2])):
            allow.append(pick(rng, ['%s/%s/' % (h, o), '%s/%s' % (h, o), 'https://%s/%s' % (h, o), h, ' ', '']))
    mods = []
    clean = rng.random() < 0.45          # aim at a repository that lints clean
    for i in range(rng.choice([0, 1, 2, 3])):
        git = None
        if rng.random() < 0.75:
            git = pick(rng, ['https://%s/%s/r%d.git' % (h, o, i), 'git@%s:%s/r%d.git' % (h, o, i), 'ssh://git@%s/%s/r%d' % (h, o, i)]) if clean else pick(rng, ['https://%s/%s/r%d.git' % (h, o, i), 'git@%s:%s/r%d.git' % (h, o, i), 'ssh://git@%s/%s/r%d' % (h, o, i),
                             'https://evil.com/%s/r' % o, 'ssh://evil.com/x@%s/%s/r' % (h, o), 'https://%s/%s/../other/r' % (h, o),
                             'https://%s@evil.com/%s/r' % (h, o), 'https://%s.evil.com/%s/r' % (h, o), 'https://%s/%sx/r' % (h, o),
                             'https://%s/%s/%%2e%%2e/other/r' % (h, o), 'https://%s:x@evil.test/%s/r.git' % (h, o)])
        mods.append({'id': pick(rng, ['instructions:m%d' % i, 'skill:s%d' % i]), 'enabled': rng.random() < 0.8, 'git': git})
    targets = rng.sample(['codex', 'claude_code', 'cursor'], rng.randrange(0, 3))
    req_t = rng.sample(['codex', 'claude_code', 'zed', ' codex ', ''], rng.choice([0, 0, 1, 2]))
    req_m = [pick(rng, [m['id'] for m in mods] + ['instructions:absent', ' ', '']) for _ in range(rng.choice([0, 0, 1, 2]))] if True else []
    require_lock = rng.random() < 0.5
    k = rng.random()
    if k < 0.15: lock = 'missing'
    elif k < 0.22: lock = 'invalid'
    else:
        lock = []
        for m in mods:
            if rng.random() < 0.15: continue
            if m['git'] is None or rng.random() < 0.1:
                lock.append({'id': m['id'], 'git': None})
            else:
                url = m['git'] if rng.random() < 0.75 else pick(rng, [m['git'].upper(), m['git'] + '.git', 'https://%s/%s/other' % (h, o), ' ' + m['git']])
                commit = GOOD_SHA if rng.random() < 0.8 else pick(rng, ['main', 'A' * 40, 'a' * 39, 'g' * 40, 'a' * 41, ''])
                lock.append({'id': m['id'], 'git': (url, commit)})
        if rng.random() < 0.15 and lock: lock.append(dict(rng.choice(lock)))
    pack = None
    if rng.random() < 0.25:
        pack = pick(rng, ['https://%s/%s/pack.git' % (h, o), 'https://evil.com/%s/pack' % o, 'ssh://evil.com/x@%s/%s/pack' % (h, o)])
    dist = rng.random() < 0.6
    if clean:       # remove most reasons for an issue (each with high probability, so near-clean worlds also occur)
        keep = lambda: rng.random() < 0.9
        if keep(): allow = [a for a in allow if ws_strip(a)]
        if keep(): req_t = [t for t in req_t if ws_strip(t) in targets]
        if keep(): req_m = [r for r in req_m if any(m['id'] == ws_strip(r) and m['enabled'] for m in mods)]
        if keep(): lock = [{'id': m['id'], 'git': (m['git'], GOOD_SHA) if m['git'] else None} for m in mods]
        if keep(): pack = None
        seen = set(); mods2 = []
        for m in mods:
            if m['id'] not in seen: seen.add(m['id']); mods2.append(m)
        mods = mods2
    return {'allow': allow, 'require_lock': require_lock, 'mods': mods, 'targets': targets, 'req_t': req_t if dist else None, 'req_m': req_m if dist else None,
            'lock': lock, 'pack': pack, 'supply': bool(allow) or require_lock or rng.random() < 0.3, 'clean': clean}

SKILL_FMS = [({'name': 'a', 'description': 'b'}, 0), ({'name': 'a'}, 1), ({'description': 'b'}, 1), ({}, 2), ({'name': ' ', 'description': 'b'}, 1),
             ({'name': 3, 'description': 'b'}, 1), ({'name': 'a', 'description': ['x']}, 1), (None, 1), ('unterminated', 1), ([1, 2], 1),
             ({'name': '\u00a0', 'description': '\t'}, 2), ({'Name': 'a', 'description': 'b'}, 1)]

def write_world(root, cfg, skills, cmdfiles):
    os.makedirs(root, exist_ok=True)
    org = {'version': 1}
    if cfg['supply']:
        org['supply_chain_policy'] = {'allowed_git_remotes': cfg['allow'], 'require_lockfile': cfg['require_lock']}
    if cfg['req_t'] is not None:
        org['distribution_policy'] = {'required_targets': cfg['req_t'], 'required_modules': cfg['req_m']}
    if cfg['pack']:
        org['policy_pack'] = {'source': 'git:' + cfg['pack'] + '#ref=v1'}
    open(os.path.join(root, 'agentpack.org.yaml'), 'w').write(json.dumps(org, indent=1))
    man = {'version': 1, 'profiles': {'default': {}}, 'targets': {t: {'mode': 'files', 'scope': 'project', 'options': {}} for t in cfg['targets']},
           'modules': [{'id': m['id'], 'type': 'instructions' if m['id'].startswith('instr') else 'skill', 'enabled': m['enabled'], 'tags': [], 'targets': [],
                        'source': ({'git': {'url': m['git'], 'ref': 'v1'}} if m['git'] is not None else {'local_path': {'path': 'modules/x'}})} for m in cfg['mods']]}
    open(os.path.join(root, 'agentpack.yaml'), 'w').write(json.dumps(man, indent=1))
    lp = os.path.join(root, 'agentpack.lock.json')
    if cfg['lock'] == 'missing':
        pass
    elif cfg['lock'] == 'invalid':
        open(lp, 'w').write('{"version": 1, "modules": [')
    else:
        mods = []
        for e in cfg['lock']:
            rs = {'git': {'url': e['git'][0], 'commit': e['git'][1], 'subdir': ''}} if e['git'] else {'local_path': {'path': 'modules/x'}}
            mods.append({'id': e['id'], 'type': 'instructions', 'resolved_source': rs, 'resolved_version': 'v', 'sha256': 'x', 'file_manifest': []})
        open(lp, 'w').write(json.dumps({'version': 1, 'generated_at': '2026-01-01T00:00:00Z', 'modules': mods}, indent=1))
    for i, (fm, _) in enumerate(skills):
        d = os.path.join(root, skill_dir(cfg, i)); os.makedirs(d, exist_ok=True)
        open(os.path.join(d, 'SKILL.md'), 'w').write(render_fm(fm) + '# skill\n')
    if cfg.get('skill_layout') == 'umbrella':      # a well-formed SKILL.md one level ABOVE the others
        os.makedirs(os.path.join(root, 'skills'), exist_ok=True)
        open(os.path.join(root, 'skills', 'SKILL.md'), 'w').write(render_fm(SKILL_FMS[0][0]) + '# umbrella\n')
    d = os.path.join(root, '.claude', 'commands'); os.makedirs(d)
    for i, md in enumerate(cmdfiles):
        open(os.path.join(d, 'c%d.md' % i), 'w').write(md)

def skill_dir(cfg, i):
    """where skill i lives: flat (skills/s<i>), nested (below another skill's directory: every SKILL.md is a skill,
    wherever it lies), umbrella (a well-formed skills/SKILL.md above all of them)"""
    lay = cfg.get('skill_layout', 'flat')
    if lay == 'nested' and i > 0:
        return 'skills/s0/extras/s%d' % i
    return 'skills/s%d' % i

def render_fm(fm):
    if fm is None: return ''
    if fm == 'unterminated': return '---\nname: a\n'
    return '---\n' + json.dumps(fm) + '\n---\n'

def oracle_config(cat, cfg, skills, cmdfiles):
    """the governed rules, evaluated by the reference on the structured world: list of broken rules"""
    broken = []
    for i, (fm, nbad) in enumerate(skills):
        if nbad: broken.append('skill s%d lacks name/description' % i)
    for i, md in enumerate(cmdfiles):
        if '!bash' in md or '!`bash`' in md:
            fm = parse_simple_fm(md)
            tools = fm.get('allowed-tools') if isinstance(fm, dict) else None
            ok = (isinstance(tools, str) and 'Bash(' in tools) or (isinstance(tools, list) and any(isinstance(x, str) and 'Bash(' in x for x in tools))
            if not ok: broken.append('command c%d uses bash without a Bash( allowed-tool' % i)
        if ref_violations_of_file(cat, md): broken.append('command c%d runs a mutating command without --json/--yes' % i)
    allow = [ws_strip(a) for a in cfg['allow'] if ws_strip(a)] if cfg['supply'] else []
    if allow:
        remotes = [(m['id'], m['git']) for m in cfg['mods'] if m['git'] is not None]
        if cfg['pack']: remotes.append(('policy_pack', cfg['pack']))
        for mid, url in remotes:
            du = ref_parse(url)
            if du is None: continue
            das = [ref_allow(a) for a in allow]
            if all(da is not None for da in das) and not any(ref_under(du, da) for da in das):
                broken.append('remote of %s (%s) is not under an allow-listed host/org' % (mid, url))
    if cfg['req_t'] is not None:
        for t in cfg['req_t']:
            if ws_strip(t) and ws_strip(t) not in cfg['targets']: broken.append('required target %s missing' % ws_strip(t))
        for r in cfg['req_m']:
            r = ws_strip(r)
            if not r: continue
            ms = [m for m in cfg['mods'] if m['id'] == r]
            if not ms or not ms[0]['enabled']: broken.append('required module %s missing or disabled' % r)
    if cfg['supply'] and cfg['require_lock']:
        eg = [m for m in cfg['mods'] if m['enabled'] and m['git'] is not None]
        if eg:
            if not isinstance(cfg['lock'], list):
                broken.append('lockfile %s while enabled git modules exist' % cfg['lock'])
            else:
                for m in eg:
                    es = [e for e in cfg['lock'] if e['id'] == m['id']]
                    if not es or es[-1]['git'] is None or not re.fullmatch(r'[0-9a-fA-F]{40}', es[-1]['git'][1]):
                        broken.append('enabled git module %s is not pinned by the lockfile' % m['id'])
    return broken

def parse_simple_fm(md):
    ls = md.split('\n')
    if not ls or ls[0].rstrip('\r') != '---': return None
    body = []
    for l in ls[1:]:
        if l.rstrip('\r') == '---':
            out = {}
            for b in body:
                m = re.match(r'^("?[\w-]+"?):\s*(.*)$', b.rstrip('\r'))
                if m:
                    try: out[json.loads(m.group(1)) if m.group(1).startswith('"') else m.group(1)] = json.loads(m.group(2))
                    except Exception: out[m.group(1)] = m.group(2)
            return out
        body.append(l)
    return 'unterminated'

def c_fm(fm):
    if fm is None or fm == 'missing': return 'FmMissing'
    if fm == 'unterminated': return 'FmInvalid'
    if not isinstance(fm, dict): return 'FmNotMapping'
    def val(v):
        if isinstance(v, str): return '(YStr %s)' % cq.cstr(v)
        if isinstance(v, list): return '(YSeq %s)' % cq.clist([cq.copt(x if isinstance(x, str) else None, cq.cstr) for x in v])
        return 'YOther'
    return '(FmMap %s)' % cq.clist([cq.cpair(cq.cstr(k), val(v)) for k, v in fm.items()])

def run_configs(ctx, cat, n):
    rng = ctx.rng
    sb = Sandbox('c20cfg')
    ccases, scases, tcases = [], [], []
    try:
        for i in range(n):
            cfg = gen_config(rng, cat)
            skills = [(SKILL_FMS[0] if cfg['clean'] and rng.random() < 0.9 else pick(rng, SKILL_FMS)) for _ in range(rng.choice([0, 1, 2]))]
            cfg['skill_layout'] = pick(rng, ['flat', 'flat', 'nested', 'umbrella'])
            cmds = []
            for _ in range(rng.choice([0, 1, 2])):
                md, fm = gen_cmdfile(rng, cat)
                for _ in range(12):
                    if not (cfg['clean'] and rng.random() < 0.9): break
                    tools = fm.get('allowed-tools') if isinstance(fm, dict) else None
                    good = (isinstance(tools, str) and 'Bash(' in tools) or (isinstance(tools, list) and any(isinstance(x, str) and 'Bash(' in x for x in tools))
                    if good and not ref_violations_of_file(cat, md): break
                    md, fm = gen_cmdfile(rng, cat)
                cmds.append((md, fm))
            root = os.path.join(sb.root, 'w%d' % i)
            write_world(root, cfg, skills, [md for md, _ in cmds])
            rc, doc, out, err = sb.cli_json(['--repo', root, 'policy', 'lint'])
            case = {'stream': 'config', 'index': i, 'config': cfg, 'skills': [s_[0] for s_ in skills], 'commands': [md for md, _ in cmds], 'rc': rc, 'stdout': out[:3000]}
            if doc is None or (not doc.get('ok') and (not doc.get('errors') or doc['errors'][0].get('code') != 'E_POLICY_VIOLATIONS')):
                ctx.violation('policy lint --json failed otherwise than with E_POLICY_VIOLATIONS on a well-formed repository', case, no_input=True)
                continue
            issues = doc['data']['issues'] if doc.get('ok') else doc['errors'][0]['details']['issues']
            broken = oracle_config(cat, cfg, skills, [md for md, _ in cmds])
            ctx.count('config', key=json.dumps([cfg, [s_[1] for s_ in skills]], sort_keys=True, default=str), nontrivial=bool(issues) or bool(broken),
                      tags=['ok:%s' % doc.get('ok'), 'broken:%d' % min(len(broken), 3)] + sorted({'rule:' + x['rule'] for x in issues}))
            if doc.get('ok') and rc == 0 and broken:
                case['broken'] = broken
                ctx.violation('policy lint is clean although a governed rule does not hold: ' + broken[0], case)
            if bool(doc.get('ok')) != (rc == 0) or bool(doc.get('ok')) != (len(issues) == 0):
                ctx.violation('policy lint: ok / exit code / issue list are inconsistent', case)
            if i < 1: ctx.sample({'stream': 'config', 'config': cfg, 'issues': [(x['rule'], (x.get('details') or {}).get('module_id')) for x in issues], 'oracle_broken': broken})
            # model comparison: org-policy rules as a multiset of (rule, module id)
            rules = {'policy_config', 'distribution_required_targets', 'distribution_required_modules', 'supply_chain_allowed_git_remotes',
                     'policy_pack_allowed_git_remotes', 'supply_chain_lockfile_missing', 'supply_chain_lockfile_invalid', 'supply_chain_lockfile_missing_module',
                     'supply_chain_lockfile_source_mismatch', 'supply_chain_lockfile_url_mismatch', 'supply_chain_lockfile_unpinned_commit'}
            obs = [(x['rule'], (x.get('details') or {}).get('module_id') or '') for x in issues if x['rule'] in rules]
            texts = cfg['allow'] + [m['git'] or '' for m in cfg['mods']] + ([e['git'][0] for e in cfg['lock'] if e['git']] if isinstance(cfg['lock'], list) else [])
            if all(in_lower_alphabet(t) for t in texts):
                lock = 'LockMissing' if cfg['lock'] == 'missing' else 'LockInvalid' if cfg['lock'] == 'invalid' else \
                    '(LockOk %s)' % cq.clist(['(mklock %s %s)' % (cq.cstr(e['id']), cq.copt(e['git'], lambda g: cq.cpair(cq.cstr(g[0]), cq.cstr(g[1])))) for e in cfg['lock']])
                sup = cq.cpair(cstrs(cfg['allow'] if cfg['supply'] else []), cq.cbool(cfg['require_lock'] and cfg['supply']), cq.copt(cfg['pack'], cq.cstr), lock)
                dist = cq.cpair(cstrs(cfg['req_t'] or []), cstrs(cfg['req_m'] or []), cstrs(cfg['targets']))
                mods = cq.clist(['(mkmod %s %s %s)' % (cq.cstr(m['id']), cq.cbool(m['enabled']), cq.copt(m['git'], cq.cstr)) for m in cfg['mods']])
                ccases.append((cq.cpair(sup, dist, mods, cq.clist([cq.cpair(cq.cstr(r), cq.cstr(mid)) for r, mid in obs])), dict(case, observed=obs)))
            for j, (fm, nbad) in enumerate(skills):
                got = sum(1 for x in issues if x['rule'] == 'skill_frontmatter' and x['path_posix'] == skill_dir(cfg, j) + '/SKILL.md')
                scases.append((cq.cpair(c_fm(fm), cq.cN(got)), dict(case, skill=j, skill_issues=got)))
            for j, (md, fm) in enumerate(cmds):
                got = any(x['rule'] == 'claude_command_allowed_tools' and x['path_posix'] == '.claude/commands/c%d.md' % j for x in issues)
                tcases.append((cq.cpair(cq.cstr(md), c_fm(fm), cq.cbool(got)), dict(case, command=j, allowed_tools_issue=got)))
                sub = dict(case, command=j, markdown=md)
                judge_cmdfile(ctx, cat, sub, md, [x for x in issues if x['path_posix'] == '.claude/commands/c%d.md' % j])
    finally:
        sb.close()
    T = '(list str * bool * option str * lock_state) * (list str * list str * list str) * list cfg_module * list (str * str)'
    for c in corr(ctx, 'config', 'check_cfg', T, ccases):
        ctx.violation('model and implementation disagree on the org-policy issues (rule, module) of a repository', c, no_input=True)
    for c in corr(ctx, 'config_skill', 'check_skill', 'frontmatter * N', scases):
        ctx.violation('model and implementation disagree on the skill front-matter rule', c, no_input=True)
    for c in corr(ctx, 'config_tools', 'check_tools', 'str * frontmatter * bool', tcases):
        ctx.violation('model and implementation disagree on the allowed-tools rule', c, no_input=True)

# ---------------------------------------------------------------------- tables / corpus / replay

FM_OK = '---\ndescription: "x"\nallowed-tools:\n  - Bash("agentpack *")\n---\n\n!bash\n'
CORPUS_FILES = [   # (body, must be reported?)  — the first six are the F9 witnesses, now fixed
    ('agentpack import --apply', True), ('agentpack policy lock', True), ('agentpack update; agentpack lock', True),
    ('agentpack update&&agentpack lock --json --yes', True), ('agentpack overlay --json edit skill:x', True),
    ('AGENTPACK_HOME=/home/u/agentpack agentpack lock', True), ('"agentpack" lock', True),
    ('agentpack lock --json --yes;agentpack fetch', True), ('agentpack plan --json|agentpack deploy --apply', True),
    ('agentpack policy --repo x lock --yes', True), ('agentpack --profile lock status --json', False),
    ('agentpack deploy --apply --json --yes', False), ('agentpack import', False), ('agentpack policy lint --json', False),
    ('sudo -E env X=1 /usr/local/bin/agentpack evolve --yes propose --json', False), ('echo ok & agentpack sync', True),
    # a '#' inside a word is literal in a shell: what follows it on the line still runs
    ('agentpack --json --yes add skill:review git:https://github.com/acme/skills#ref=v1.2.0 && agentpack deploy --apply', True),
    ('agentpack status --profile team#2 --json; agentpack update', True), ('agentpack deploy --profile a#b --apply', True),
]
CORPUS_URLS = [   # (url, allow) — must NOT match
    ('ssh://evil.com/x@github.com/org/r', 'github.com/org'), ('https://github.com/org/../other/r', 'github.com/org'),
    ('https://github.com/org/%2e%2e/other/r', 'github.com/org/'), ('https://github.com/org/%2E%2e/other/r', 'github.com/org'),
    ('git@github.com:org:x/r', 'github.com/org'), ('ssh://github.com:22/org/r', 'github.com/22'), ('git@github.com/org:r', 'github.com/org'),
    ('https://github.com/org/..?x', 'github.com/org'), ('https://github.com@evil.com/org/r', 'github.com'),
    ('https://github.com:x@evil.test/org/r.git', 'github.com'), ('https://github.com.evil.com/org/r', 'github.com'),
    ('https://github.com/orgx/r', 'github.com/org'), ('ssh://evil.com?@github.com/org/r', 'github.com/org'),
    # must match
    ('git@github.com:org/r.git', 'github.com/org/'), ('ssh://git@github.com/org/r', 'github.com/org'), ('https://GitHub.com/Org/R.git', 'github.com/org'),
]

def run_tables(ctx, avh, cat, helpdoc):
    hm = avh.call({'op': 'mutating_ids'})['out']
    case = {'stream': 'tables', 'help_mutating': cat.mutating, 'hook_mutating': hm, 'help_value_flags': cat.value_flags, 'groups': cat.groups, 'variants': cat.variants}
    ctx.count('tables', key='sets', tags=['mutating:%d' % len(cat.mutating)])
    if sorted(hm) != sorted(cat.mutating):
        ctx.violation('help --json data.mutating_commands differs from MUTATING_COMMAND_IDS used by lint and the --yes guard', case)
    for c in helpdoc['data']['commands']:
        if c['mutating'] != (c['id'] in cat.mutating):
            ctx.violation("help --json marks '%s' mutating=%s but the mutating set says otherwise" % (c['id'], c['mutating']), case)
    term = cq.cpair(cstrs(cat.mutating), cstrs(hm), cstrs(cat.groups), cq.clist([cq.cpair(cq.cstr(w), cq.cstr(f)) for w, f in cat.variants]),
                    cstrs(cat.value_flags), cstrs(cat.bool_flags))
    for c in corr(ctx, 'tables', 'check_tables', 'list str * list str * list str * list (str * str) * list str * list str', [(term, case)]):
        ctx.violation('the tables regenerated from the source (mutating ids, command groups/variants, global flags) differ from what the binary reports', c, no_input=True)

def replay(ctx, avh, cat):
    obj = json.load(open(ctx.replay))
    st = obj.get('stream', '')
    ctx.log('replaying %s case' % st)
    if 'markdown' in obj:
        run_cmdfiles(ctx, avh, cat, 0, 0, corpus=[(obj['markdown'], None)])
    elif 'url' in obj:
        run_urls(ctx, avh, 0, 0, pairs=[(obj['url'], obj['allow'])])
    elif 'argv' in obj:
        cid = avh.call({'op': 'command_id', 'argv': obj['argv']})['out']; rid = cat.ref_id(obj['argv'])
        ctx.count('argv', key='replay')
        if rid in cat.mutating and cid != rid:
            ctx.violation("lint maps a mutating invocation of '%s' to '%s'" % (rid, cid), obj)
    else:
        ctx.notes.append('replay file names no re-runnable input (broken proof obligation or stream): ' + str(obj.get('what')))
        ctx.violation(obj.get('what', 'recorded violation without input'), obj, no_input=True)

def run(ctx):
    quick = ctx.tier == 'quick'
    ctx.rule = ('cmdfile: markdown built from front matter + prose/code fences/inline code (not run) + `!bash` blocks whose lines are 1-3 simple commands '
                '(env assignments, sudo/env/time wrappers, 13 spellings of the agentpack word, every command id of help --json with --json/--yes/--dry-run and '
                'value flags before / between / after the command words, redirections) joined by ; && || | & glued or not; non-trivial = the reference reading finds a '
                'mutating invocation; distinct = (ids, #lines, glued, #issues). url: remote spellings (https/http/ssh/scp/bare/other schemes x user-info x lookalike hosts x '
                'ports x dot segments, percent-encoding, query/fragment, case, .git, blanks, one random special character) x allow entries (13 regular, 18 odd forms); '
                'non-trivial = matched or under; distinct = (url, allow). argv: raw argvs; clap: the same through the real parser. config: structured repositories '
                'through `policy lint --json`.')
    ctx.trusted = ['Coq 8.16.1 kernel + vm_compute',
                   'hand-written models coq/Model/PolicyCmd.v, PolicyUrl.v, PolicyRules.v (YAML/JSON parsing not modelled: structures by construction; '
                   'to_lowercase modelled per character for ASCII, Latin-1, Greek, Cyrillic, U+0130, Kelvin/Angstrom/Ohm signs, no final-sigma rule)',
                   'the reference readings (Coq part 2 of the model files = Python oracle in harness/py/props/c20.py, compared case by case): operator characters ; | & '
                   'always separate (no quoting/redirection/substitution), first agentpack word of a simple command, clap global flags from help --json; '
                   'URL: RFC 3986 authority (ssh: up to the first /), user-info up to the last @, git scp rule',
                   'correspondence harness (Python generators, avh hooks, CLI driver)', 'tools/gen_tables.py (mutating ids, guard sites, catalogue, lint/CLI global flags, operator characters)']
    ctx.assumptions = ['a command file is run by the shell the way the reference reading says (unquoted words, operator characters always separate)',
                       'git/curl/ssh decompose a remote the way the reference decomposition says',
                       'serde_yaml/serde_json parse results are as constructed by the generator']
    ctx.proof_phase(extra_targets=['Corr/Check_C20.vo'])
    with Avh() as avh:
        sb = Sandbox('c20help')
        try:
            rc, helpdoc, out, err = sb.cli_json(['help'])
        finally:
            sb.close()
        if not helpdoc or not helpdoc.get('ok'):
            raise InfraError('help --json failed: ' + out[:500])
        cat = Catalogue(helpdoc)
        if ctx.replay:
            replay(ctx, avh, cat); return
        run_tables(ctx, avh, cat, helpdoc)
        # corpus first: witnesses of fixed defects and edge cases
        corpus = [(FM_OK + body + '\n', None) for body, _ in CORPUS_FILES]
        extra_urls = []
        cdir = os.path.join(CORPUS, 'C20')
        if os.path.isdir(cdir):                      # minimised past failures, replayed first on every run
            for fn in sorted(os.listdir(cdir)):
                try:
                    obj = json.load(open(os.path.join(cdir, fn)))
                except Exception:
                    continue
                if 'markdown' in obj: corpus.append((obj['markdown'], None))
                elif 'url' in obj and 'allow' in obj: extra_urls.append((obj['url'], obj['allow']))
        run_cmdfiles(ctx, avh, cat, 0, 0, corpus=corpus)
        run_urls(ctx, avh, 0, 0, pairs=CORPUS_URLS + extra_urls)
        for (u, a), must in zip(CORPUS_URLS, [False] * 13 + [True] * 3):
            nu = avh.call({'op': 'url_norm', 'url': u})['out']; na = avh.call({'op': 'url_norm', 'url': a})['out']
            if avh.call({'op': 'url_match', 'remote': nu, 'allow': na})['out'] != must and must:
                ctx.notes.append('corpus: %r no longer matches %r (over-strict, not a violation)' % (u, a))
        run_cmdfiles(ctx, avh, cat, 10000 if quick else 100000, 900 if quick else 6000)
        run_argv(ctx, avh, cat, 2500 if quick else 30000, 250 if quick else 2500)
        run_urls(ctx, avh, 10000 if quick else 100000, 1800 if quick else 15000)
    run_configs(ctx, cat, 60 if quick else 800)
