"""C11 — MCP deploy_apply writes only with a valid, fresh, matching, unused token."""
import os, json, concurrent.futures
from vlib.common import *
from vlib import coqrun as cq
from vlib.impl import Avh, Sandbox, Mcp, snap_diff
from vlib import world

HEADER = 'From AP Require Import Corr.Check_C11.\nOpen Scope N_scope.\n'
TTL = 600000
CODES = {'E_CONFIRM_REQUIRED', 'E_CONFIRM_TOKEN_REQUIRED', 'E_CONFIRM_TOKEN_EXPIRED', 'E_CONFIRM_TOKEN_MISMATCH'}

def cbinding(b):
    return '(mkB %s %s %s %s)' % tuple(cq.copt(x, cq.cstr) for x in b)

# ------------------------------------------------------------------ store-level stream (hook)

def gen_store_seq(rng):
    toks = ['t0', 't1', 't2', '']
    binds = [(None, None, None, None), ('r', None, None, None), ('r', 'p', 'codex', 'm'), (None, None, 'codex', None)]
    hashes = ['h0', 'h1']
    now = rng.choice([0, 0, 5, 10 ** 6])
    ops = []
    for _ in range(rng.randrange(1, 16)):
        now += rng.choice([0, 0, 1, 1000, TTL - 1, TTL, TTL + 1, 2 * TTL - 1, 2 * TTL, 2 * TTL + 1, 300000])
        k = rng.random()
        if k < 0.4:
            ops.append({'k': 'insert', 'token': rng.choice(toks), 'binding': list(rng.choice(binds)),
                        'plan_hash': rng.choice(hashes), 'now_ms': now})
        elif k < 0.85:
            ops.append({'k': 'validate', 'token': rng.choice(toks), 'binding': list(rng.choice(binds)), 'now_ms': now})
        else:
            ops.append({'k': 'consume', 'token': rng.choice(toks)})
    return ops

def store_term(ops, outs):
    cops = []
    for o in ops:
        if o['k'] == 'insert':
            cops.append('SInsert %s %s %s %s' % (cq.cstr(o['token']), cbinding(o['binding']), cq.cstr(o['plan_hash']), cq.cN(o['now_ms'])))
        elif o['k'] == 'validate':
            cops.append('SValidate %s %s %s' % (cq.cstr(o['token']), cbinding(o['binding']), cq.cN(o['now_ms'])))
        else:
            cops.append('SConsume %s' % cq.cstr(o['token']))
    cobs = []
    for r in outs:
        if 'unit' in r['r']: k, p = 0, ''
        elif 'ok' in r['r']: k, p = 1, r['r']['ok']
        else: k, p = 2, r['r']['err']
        cobs.append(cq.cpair(cq.cN(k), cq.cstr(p), cq.clist([cq.cstr(x) for x in r['keys']])))
    return cq.cpair(cq.clist(cops), cq.clist(cobs))

def oracle_store(ops, outs):
    """token safety evaluated directly on the implementation trace (independent of the model)"""
    live = {}   # token -> (binding, hash, issue_time)
    for o, r in zip(ops, outs):
        if o['k'] == 'insert':
            live[o['token']] = (o['binding'], o['plan_hash'], o['now_ms'])
        elif o['k'] == 'consume':
            live.pop(o['token'], None)
        else:
            ent = live.get(o['token'])
            good = ent is not None and ent[0] == o['binding'] and o['now_ms'] < ent[2] + TTL
            if 'ok' in r['r']:
                if not good:
                    return 'validate accepted a token that is not live/fresh/matching'
                if r['r']['ok'] != ent[1]:
                    return 'validate returned a different plan hash than the one issued'
            else:
                if good:
                    return 'validate refused a live, fresh, matching token'
                if r['r'].get('err') not in ('E_CONFIRM_TOKEN_MISMATCH', 'E_CONFIRM_TOKEN_EXPIRED'):
                    return 'undocumented refusal code %r' % (r['r'],)
                if ent is None and r['r']['err'] != 'E_CONFIRM_TOKEN_MISMATCH' :
                    return 'unknown token must be refused as mismatch'
    return None

def run_store(ctx, n):
    seqs = [gen_store_seq(ctx.rng) for _ in range(n)]
    cases = []
    with Avh() as avh:
        for i, ops in enumerate(seqs):
            res = avh.call({'op': 'token_ops', 'ops': ops})
            outs = res['out']
            case = {'stream': 'store', 'ops': ops, 'impl': outs}
            if res.get('ttl_ms') != TTL:
                ctx.violation('token lifetime is not ten minutes (ttl_ms=%r)' % res.get('ttl_ms'), case)
            bad = oracle_store(ops, outs)
            if bad:
                ctx.violation(bad, case)
            kinds = tuple(sorted({o['k'] for o in ops}))
            ctx.count('store', key=json.dumps(ops, sort_keys=True), nontrivial=len(ops) >= 2 and 'validate' in kinds, tags=list(kinds))
            cases.append((store_term(ops, outs), case))
            if i == 0:
                ctx.sample(case)
    for c in ctx.corr('store', HEADER, 'check_store', 'list sop * list (N * str * list str)', cases):
        ctx.violation('model and implementation disagree on the token store', c, no_input=True)

# ------------------------------------------------------------------ tool-level stream (live server)

DTS = [0, 60, 300, 590, 610, 1190, 1210]

class ToolWorld:
    def __init__(self, ctx, sb):
        self.ctx = ctx; self.sb = sb
        self.alt_repo = os.path.join(sb.root, 'altrepo')
        self.w = world.codex_instructions_world(sb, 'v1\n')
        world.codex_instructions_world(sb, 'alt v1\n', repo_dir=self.alt_repo)
        self.clock_file = os.path.join(sb.root, 'clock')
        self.skew = 0
        open(self.clock_file, 'w').write('0')
        self.bindings = [{}, {'target': 'codex'}, {'profile': 'other'}, {'repo': self.alt_repo}, {'machine': 'm2'}]
        self.server = None
        self.start()
    def start(self):
        if self.server: self.server.close()
        self.server = Mcp(self.sb, {'AGENTPACK_VERIF_CLOCK_FILE': self.clock_file})
    def btuple(self, b):
        return (b.get('repo'), b.get('profile'), b.get('target'), b.get('machine'))
    def plan_state(self, b):
        """planning outcome for binding b in the current world, observed through the CLI"""
        args = ['deploy']
        if 'repo' in b: args += ['--repo', b['repo']]
        if 'profile' in b: args += ['--profile', b['profile']]
        if 'target' in b: args += ['--target', b['target']]
        if 'machine' in b: args += ['--machine', b['machine']]
        rc, doc, out, err = self.sb.cli_json(args)
        if not doc:
            raise InfraError('deploy --json produced no envelope: ' + out[:300] + err[:300])
        if not doc.get('ok'):
            return ('err', doc['errors'][0]['code'])
        d = doc['data']
        ident = sha256_hex(json.dumps(d, sort_keys=True).encode())[:16]
        adopt = any(c.get('update_kind') == 'adopt_update' for c in d['changes'])
        changes = bool(d['changes']) or not os.path.exists(self.w['manifest'])
        return ('ok', ident, adopt, changes)
    def setplan_term(self):
        items = []
        for b in self.bindings:
            ps = self.plan_state(b)
            if ps[0] == 'err':
                t = 'PlanErr %s' % cq.cstr(ps[1])
            else:
                t = 'PlanOk %s %s %s' % (cq.cstr(ps[1]), cq.cbool(ps[2]), cq.cbool(ps[3]))
            items.append(cq.cpair(cbinding(self.btuple(b)), '(%s)' % t))
        return 'SetPlan (plan_of %s (PlanErr []))' % cq.clist(items), [self.plan_state(b) for b in self.bindings]
    def close(self):
        if self.server: self.server.close()

def script_expiry_after_failed_apply(rng):
    """a token survives failed applies (adopt refused, world unchanged) but never its lifetime: the user
    makes the output file unmanaged-different, deploy issues T, applies without adopt fail at several
    times, the clock passes T's expiry, an apply WITH adopt must answer E_CONFIRM_TOKEN_EXPIRED"""
    sc = [{'k': 'mutate', 'm': 5}, {'k': 'mutate', 'm': 1}, {'k': 'deploy'}, {'k': 'apply', 'adopt': False}]
    total = 0
    for dt in rng.choice([[300, 310], [590, 60], [300, 200, 110], [60, 590], [610]]):
        sc.append({'k': 'tick', 'dt': dt}); total += dt
        sc.append({'k': 'apply', 'adopt': total >= 600 or rng.random() < 0.2})
    return sc

def script_drift_between_review_and_apply(rng):
    """the reviewed plan and the plan at apply time differ only in what is on disk: deploy+apply v1, the module
    changes, deploy issues T for the update, the user edits the deployed file, apply with T must answer
    E_CONFIRM_TOKEN_MISMATCH; a fresh review then applies"""
    return [{'k': 'deploy'}, {'k': 'apply', 'adopt': True}, {'k': 'mutate', 'm': 0}, {'k': 'deploy'},
            {'k': 'mutate', 'm': rng.choice([1, 1, 2])}, {'k': 'apply', 'adopt': rng.random() < 0.5},
            {'k': 'deploy'}, {'k': 'apply', 'adopt': True}]

def script_machine_overlay_drift(rng):
    """the reviewed plan of a call with an explicit `machine` depends on that machine's overlays: deploy {machine: m2}
    issues T, the m2 overlay of the module is written (or removed), deploy_apply {machine: m2} with T must answer
    E_CONFIRM_TOKEN_MISMATCH — the plan is recomputed for the SAME arguments; a fresh review then applies"""
    pre = [{'k': 'mutate', 'm': 6}] if rng.random() < 0.4 else []
    return pre + [{'k': 'deploy', 'b': 4}, {'k': 'mutate', 'm': 6}, {'k': 'apply', 'adopt': True, 'b': 4},
                  {'k': 'deploy', 'b': 4}, {'k': 'apply', 'adopt': True, 'b': 4}]

def run_tool_scenario(ctx, idx, depth, script=None):
    rng = ctx.rng
    sb = Sandbox('c11')
    sb.git_init_project()
    tw = ToolWorld(ctx, sb)
    ops = []; obs = []; trace = []
    issued = []      # (token, binding dict)
    try:
        t, ps = tw.setplan_term(); ops.append(t); obs.append((5, '', '')); trace.append({'op': 'observe-plan', 'plans': ps})
        cur_ps = ps; issue_ident = {}
        issue_skew = {}
        for step in range(len(script) if script else depth):
            forced = script[step] if script else None
            k = rng.random() if not forced else {'deploy': 0.0, 'apply': 0.3, 'mutate': 0.7, 'tick': 0.9, 'restart': 0.99}[forced['k']]
            if k < 0.27:
                b = rng.choice(tw.bindings) if not forced else tw.bindings[forced.get('b', 0)]
                msg, env = tw.server.call('deploy', b)
                if env is None:
                    ctx.violation('deploy tool returned no envelope', {'stream': 'tool', 'trace': trace}); return None
                if env.get('ok'):
                    tok = env['data'].get('confirm_token'); issued.append((tok, b)); issue_skew[tok] = tw.skew
                    issue_ident[tok] = cur_ps[tw.bindings.index(b)]
                    ops.append('Issue %s %s' % (cbinding(tw.btuple(b)), cq.cstr(tok))); obs.append((0, tok, ''))
                    trace.append({'op': 'deploy', 'binding': b, 'issued': tok[:8] + '…', 'plan_hash': env['data'].get('confirm_plan_hash')})
                else:
                    code = env['errors'][0]['code']
                    if env.get('data') not in ({}, None):
                        ctx.violation('MCP deploy failed (ok=false) but data is not empty: %s' % sorted(env['data']), {'stream': 'tool', 'trace': trace, 'envelope': env})
                    ops.append('Issue %s %s' % (cbinding(tw.btuple(b)), cq.cstr('unused'))); obs.append((1, code, ''))
                    trace.append({'op': 'deploy', 'binding': b, 'refused': code})
            elif k < 0.67:
                b = rng.choice(tw.bindings)
                choice = rng.random()
                if issued and choice < 0.6:
                    cands = [t for t, bb in issued if bb == b] or [t for t, _ in issued]
                    tok = cands[-1] if rng.random() < 0.7 else rng.choice(cands)
                elif issued and choice < 0.75:
                    tok = rng.choice(issued)[0]
                elif choice < 0.85:
                    tok = 'deadbeef' * 8
                elif choice < 0.92:
                    tok = ''
                else:
                    tok = None
                yes = rng.random() < 0.85; dry = rng.random() < 0.12; adopt = rng.random() < 0.4
                if forced:
                    b = tw.bindings[forced.get('b', 0)]; yes = True; dry = False; adopt = forced['adopt']
                    tok = issued[-1][0] if issued else 'deadbeef' * 8
                args = dict(b); args['yes'] = yes
                if tok is not None: args['confirm_token'] = tok
                if dry or rng.random() < 0.2: args['dry_run'] = dry
                if adopt or rng.random() < 0.2: args['adopt'] = adopt
                before = sb.snapshot(sb.home)
                msg, env = tw.server.call('deploy_apply', args)
                after = sb.snapshot(sb.home)
                delta = snap_diff(before, after)
                if env is None:
                    ctx.violation('deploy_apply returned no envelope', {'stream': 'tool', 'trace': trace}); return None
                if env.get('ok'):
                    d = env['data']
                    if d.get('applied'): o = (4, '', '')
                    elif d.get('reason') == 'no_changes': o = (3, '', '')
                    else: o = (2, '', '')
                else:
                    o = (1, env['errors'][0]['code'], '')
                trace.append({'op': 'deploy_apply', 'args': {k2: (v[:8] + '…' if k2 == 'confirm_token' and v else v) for k2, v in args.items()},
                              'outcome': o[:2], 'fs_delta': sorted(os.path.relpath(p, sb.root) for p in delta)})
                # implementation-side oracle: any write requires a qualifying call
                wrote = bool(delta)
                if wrote and o[0] != 4:
                    ctx.violation('deploy_apply changed target files although it did not report applied=true', {'stream': 'tool', 'trace': trace})
                if o[0] == 4 and not (yes and not dry and tok and any(t == tok and bb == b for t, bb in issued)):
                    ctx.violation('deploy_apply applied without yes / with dry_run / without a token issued for these arguments', {'stream': 'tool', 'trace': trace})
                if o[0] == 4 and tok in issue_ident and issue_ident[tok] != cur_ps[tw.bindings.index(b)]:
                    ctx.violation('deploy_apply applied although the plan recomputed at apply time differs from the plan reviewed when the token was issued',
                                  {'stream': 'tool', 'trace': trace, 'reviewed': issue_ident[tok], 'at_apply': cur_ps[tw.bindings.index(b)]})
                if o[0] == 4 and tok in issue_skew and (tw.skew - issue_skew[tok]) * 1000 >= TTL:
                    ctx.violation('deploy_apply applied with a token older than its ten-minute lifetime (%d s)' % (tw.skew - issue_skew[tok]), {'stream': 'tool', 'trace': trace})
                if o[0] == 1 and tok is not None and yes and not dry and o[1] not in CODES and o[1] != 'E_ADOPT_CONFIRM_REQUIRED':
                    pass  # planning errors etc. are compared against the model below
                ops.append('Apply %s %s %s %s %s' % (cq.copt(tok, cq.cstr), cbinding(tw.btuple(b)), cq.cbool(yes), cq.cbool(dry), cq.cbool(adopt)))
                obs.append(o)
                if o[0] in (3, 4):
                    issued = [(t, bb) for t, bb in issued if t != tok]
                    if o[0] == 4:
                        t2, ps = tw.setplan_term(); ops.append(t2); obs.append((5, '', '')); trace.append({'op': 'observe-plan', 'plans': ps}); cur_ps = ps
            elif k < 0.82:
                m = rng.randrange(8) if not forced else forced['m']
                if m >= 6:
                    # machine-scoped overlay: changes the plan of the {'machine': 'm2'} binding only
                    ov = os.path.join(sb.repo, 'overlays/machines/m2/instructions:base/AGENTS.md')
                    if os.path.exists(ov) and rng.random() < 0.4:
                        os.remove(ov); what = 'remove machine overlay (m2)'
                    else:
                        world.write(ov, 'm2 overlay %d\n' % rng.randrange(99)); what = 'write machine overlay (m2)'
                elif m == 0:
                    world.write(tw.w['module_file'], 'v%d\n' % rng.randrange(2, 99)); what = 'edit module'
                elif m == 1:
                    world.write(tw.w['out'], 'user text %d\n' % rng.randrange(99)); what = 'user writes output file'
                elif m == 2:
                    if os.path.exists(tw.w['out']): os.remove(tw.w['out'])
                    what = 'user deletes output file'
                elif m == 3:
                    world.write(os.path.join(sb.repo, 'agentpack.yaml'), 'version: [broken'); what = 'break config'
                elif m == 4:
                    world.codex_instructions_world(sb, open(tw.w['module_file']).read()); what = 'restore config'
                else:
                    if os.path.exists(tw.w['manifest']): os.remove(tw.w['manifest'])
                    what = 'delete target manifest'
                t2, ps = tw.setplan_term(); ops.append(t2); obs.append((5, '', '')); trace.append({'op': 'mutate', 'what': what, 'plans': ps}); cur_ps = ps
            elif k < 0.94:
                dt = rng.choice(DTS) if not forced else forced['dt']; tw.skew += dt
                open(tw.clock_file, 'w').write(str(tw.skew))
                ops.append('Tick %s' % cq.cN(dt * 1000)); obs.append((5, '', '')); trace.append({'op': 'tick', 'seconds': dt})
            else:
                tw.start(); issued = []
                ops.append('Restart'); obs.append((5, '', '')); trace.append({'op': 'restart'})
        if tw.server.bad_lines:
            ctx.violation('MCP server wrote a non-protocol line on stdout', {'stream': 'tool', 'lines': tw.server.bad_lines, 'trace': trace})
        term = cq.cpair(cq.clist(ops), cq.clist([cq.cpair(cq.cN(a), cq.cstr(b), cq.cstr(c)) for a, b, c in obs]))
        kinds = [t['op'] for t in trace]
        outcomes = tuple(sorted({str(t.get('outcome')) for t in trace if t['op'] == 'deploy_apply'}))
        ctx.count('tool', key=(tuple(kinds), outcomes), nontrivial=any(t['op'] == 'deploy_apply' for t in trace),
                  tags=['outcome:%s' % (t['outcome'][1] or {2: 'dry_run', 3: 'no_changes', 4: 'applied'}[t['outcome'][0]]) for t in trace if t['op'] == 'deploy_apply'])
        return term, {'stream': 'tool', 'trace': trace}
    finally:
        tw.close(); sb.close()

def big_plan_scenarios(ctx, n):
    """the reviewed plan is the WHOLE plan: a skill with 40-90 files is reviewed (deploy -> token), then one source file
    changes — among them the one whose plan entry sorts last, same op counts — and deploy_apply with the old token
    must answer E_CONFIRM_TOKEN_MISMATCH whatever the size of the plan; a fresh review then applies"""
    rng = ctx.rng
    for i in range(n):
        sb = Sandbox('c11b'); sb.git_init_project()
        try:
            codex_home = os.path.join(sb.home, 'codex_home'); os.makedirs(codex_home)
            nfiles = rng.choice([40, 51, 61, 90])
            names = ['ref/f%03d.md' % k for k in range(nfiles)]
            world.write(os.path.join(sb.repo, 'modules/skills/big/SKILL.md'), '---\nname: big\ndescription: d\n---\nbody\n')
            for nm in names: world.write(os.path.join(sb.repo, 'modules/skills/big', nm), 'v1 %s\n' % nm)
            world.write_config(sb.repo, {'version': 1, 'profiles': {'default': {'include_tags': ['base']}},
                                         'targets': {'codex': {'mode': 'files', 'scope': 'user', 'options': {'codex_home': codex_home, 'write_agents_global': False,
                                                     'write_agents_repo_root': False, 'write_user_skills': True, 'write_repo_skills': False, 'write_user_prompts': False}}},
                                         'modules': [{'id': 'skill:big', 'type': 'skill', 'tags': ['base'], 'source': {'local_path': {'path': 'modules/skills/big'}}}]})
            srv = Mcp(sb, {})
            try:
                m0, e0 = srv.call('deploy', {})
                tok = (e0 or {}).get('data', {}).get('confirm_token') if e0 and e0.get('ok') else None
                if not tok:
                    ctx.notes.append('big_plan %d: deploy issued no token' % i); continue
                victim = rng.choice([names[-1], names[-1], names[nfiles // 2], names[0]])
                world.write(os.path.join(sb.repo, 'modules/skills/big', victim), 'v2 %s (changed after the review)\n' % victim)
                before = sb.snapshot(sb.home)
                m1, e1 = srv.call('deploy_apply', {'yes': True, 'confirm_token': tok})
                delta = snap_diff(before, sb.snapshot(sb.home))
                code = (e1 or {}).get('errors', [{}])[0].get('code') if e1 and not e1.get('ok') else None
                case = {'stream': 'big_plan', 'files': nfiles, 'changed_after_review': victim, 'apply_ok': bool(e1 and e1.get('ok')), 'apply_error': code,
                        'fs_delta': sorted(os.path.relpath(q, sb.root) for q in delta)[:8]}
                ctx.count('big_plan', key=(nfiles, victim == names[-1]), nontrivial=True, tags=['files:%d' % nfiles, 'victim:' + ('last' if victim == names[-1] else 'other')])
                if (e1 and e1.get('ok') and e1['data'].get('applied')) or delta:
                    ctx.violation('deploy_apply applied (or wrote) with a token issued for a plan of %d changes although a source file changed after the review' % (nfiles + 1), case)
                elif code != 'E_CONFIRM_TOKEN_MISMATCH':
                    ctx.violation('stale token on a %d-change plan answered with %r instead of E_CONFIRM_TOKEN_MISMATCH' % (nfiles + 1, code), case)
                m2, e2 = srv.call('deploy', {})
                tok2 = (e2 or {}).get('data', {}).get('confirm_token') if e2 and e2.get('ok') else None
                m3, e3 = srv.call('deploy_apply', {'yes': True, 'confirm_token': tok2}) if tok2 else (None, None)
                if not (e3 and e3.get('ok') and e3['data'].get('applied')):
                    ctx.violation('a fresh review of the %d-change plan could not be applied' % (nfiles + 1), dict(case, second_apply=(e3 or {}).get('errors')))
            finally:
                srv.close()
        finally:
            sb.close()

def run_concurrent_pairs(ctx, rounds):
    """two concurrent deploy_apply calls with one token must not both apply"""
    for r in range(rounds):
        sb = Sandbox('c11c'); sb.git_init_project()
        try:
            w = world.codex_instructions_world(sb, 'v1\n')
            srv = Mcp(sb)
            try:
                msg, env = srv.call('deploy', {})
                tok = env['data']['confirm_token']
                ids = []
                for _ in range(2):
                    rid = srv._next(); ids.append(rid)
                    srv._send({'jsonrpc': '2.0', 'id': rid, 'method': 'tools/call',
                               'params': {'name': 'deploy_apply', 'arguments': {'yes': True, 'confirm_token': tok}}})
                res = {}
                while len(res) < 2:
                    m = srv._read()
                    if m.get('id') in ids: res[m['id']] = m
                applied = 0
                for m in res.values():
                    e = m['result'].get('structuredContent') or {}
                    if e.get('ok') and e['data'].get('applied'): applied += 1
                snaps = [f for f in os.listdir(os.path.join(sb.aphome, 'state', 'snapshots')) if f.endswith('.json')]
                ctx.count('concurrent', key=(r, applied), tags=['applied:%d' % applied])
                if applied > 1 or len(snaps) > 1:
                    ctx.violation('one confirm token produced two applied deploys under concurrent calls (applied=%d, snapshots=%d)' % (applied, len(snaps)),
                                  {'stream': 'concurrent', 'round': r})
            finally:
                srv.close()
        finally:
            sb.close()

def run(ctx):
    quick = ctx.tier == 'quick'
    ctx.rule = ('store: random op sequences (insert/validate/consume, 4 tokens x 4 bindings x 2 hashes, clock steps around TTL and 2*TTL) against the '
                'hook-exposed store; tool: sequences over {deploy, deploy_apply(token choice, binding, yes, dry_run, adopt), world mutation, clock skew, restart} '
                'against a live `agentpack mcp serve` with the clock-skew hook, plan identity observed via CLI deploy --json. non-trivial = contains a '
                'validate resp. deploy_apply; distinct = distinct op sequence / (op kinds, outcome set)')
    ctx.trusted = ['Coq 8.16.1 kernel + vm_compute', 'hand-written model coq/Model/Token.v', 'tools/gen_tables.py (CONFIRM_TOKEN_TTL)',
                   'cfg(agentpack_verif) hooks: mcp::verif_token (explicit clocks), verif_hooks::skew', 'Python MCP client / generators',
                   'premises: SHA-256 injective on plan data; random tokens distinct']
    ctx.assumptions = ['equal confirm_plan_hash <=> equal reviewed plan data (SHA-256 collision freedom)',
                       'tokens generated by getrandom are distinct (model overwrites on collision like the HashMap)',
                       'residue: the window between hash re-check and the apply-time planning, and two concurrent applies validating before either consumes, are schedule effects outside the sequential model (probed by the concurrent stream)']
    ctx.proof_phase(extra_targets=['Corr/Check_C11.vo'])
    run_store(ctx, 1500 if quick else 40000)
    cases = []
    n = 40 if quick else 400
    depth = 7 if quick else 12
    for i in range(n):
        r = run_tool_scenario(ctx, i, depth)
        if r:
            cases.append(r)
            if i == 0: ctx.sample(r[1])
    for i in range(6 if quick else 60):
        r = run_tool_scenario(ctx, 10000 + i, 0, script=script_expiry_after_failed_apply(ctx.rng))
        if r: cases.append(r)
    for i in range(4 if quick else 40):
        r = run_tool_scenario(ctx, 20000 + i, 0, script=script_drift_between_review_and_apply(ctx.rng))
        if r: cases.append(r)
    for i in range(4 if quick else 40):
        r = run_tool_scenario(ctx, 30000 + i, 0, script=script_machine_overlay_drift(ctx.rng))
        if r: cases.append(r)
    for c in ctx.corr('tool', HEADER, 'check_tool', 'list op * list (N * str * str)', cases, shard_chars=30000):
        ctx.violation('model and implementation disagree on the deploy/deploy_apply state machine', c, no_input=True)
    big_plan_scenarios(ctx, 3 if quick else 24)
    run_concurrent_pairs(ctx, 3 if quick else 40)
