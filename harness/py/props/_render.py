"""Shared machinery of C12 (render_matrix) and C03 (hostile_ids): structured configuration generator,
world writer, observation of the real binary (plan / doctor / deploy / manifests / whole-sandbox
delta), a reference renderer written from docs/reference/targets.md (oracle, independent of the Coq
model) and the Coq term builder for Corr/Check_C12.v."""
import os, re, json, hashlib, shutil
from vlib.common import *
from vlib import coqrun as cq
from vlib.impl import Sandbox, snap_diff
from vlib import world

TARGETS = ['codex', 'claude_code', 'cursor', 'vscode', 'jetbrains', 'zed']
PROJECT_ONLY = ('cursor', 'vscode', 'jetbrains', 'zed')
SB = '@S@'                      # placeholder of the sandbox root inside generated strings
CODES = {'E_DESIRED_STATE_CONFLICT': 1, 'E_CONFIG_INVALID': 2, 'E_UNEXPECTED': 3, 'E_TARGET_UNSUPPORTED': 4,
         'E_CONFIG_UNSUPPORTED_VERSION': 5}

SKILL_OK = '---\nname: x\ndescription: d\n---\nbody\n'
SKILL_OK2 = '---\nname: "y"\ndescription: other\n---\nsecond body\n'
SKILL_BAD = ['no front matter\n', '---\nname: x\n---\nno description\n', '---\nname: x\ndescription: d\nunterminated\n',
             '---\n- a\n- b\n---\nnot a mapping\n', '---\nname: ""\ndescription: d\n---\nempty name\n']
CMD_OK = '---\ndescription: do it\n---\n# /cmd\nrun\n'
CMD_OK_BASH = '---\ndescription: do it\nallowed-tools:\n  - Bash(git status)\n---\n!bash git status\n'
CMD_BAD = ['# no front matter\n', '---\ndescription: ""\n---\nempty\n', '---\ndescription: x\n---\n!bash rm -rf\n', '---\nfoo: bar\n---\nx\n']

# ---------------------------------------------------------------- docs tables

def doc_options():
    """{target: {option: (default, 'user'|'project')}} parsed from docs/reference/targets.md"""
    doc = open(os.path.join(REPO, 'docs/reference/targets.md'), encoding='utf-8').read()
    heads = {'codex': r'## 1\) codex', 'claude_code': r'## 2\) claude_code', 'cursor': r'## 3\) cursor',
             'vscode': r'## 4\) vscode', 'jetbrains': r'## 5\) jetbrains', 'zed': r'## 8\) zed'}
    out = {}
    for t, h in heads.items():
        m = re.search(h + r'\n(.*?)(?=\n## |\Z)', doc, re.S)
        if not m:
            raise InfraError('docs/reference/targets.md: section of ' + t)
        out[t] = {n: (d == 'true', sc) for n, d, sc in
                  re.findall(r'^- `(\w+)`: default (true|false) \(requires (user|project) scope\)', m.group(1), re.M)}
        if not out[t]:
            raise InfraError('docs/reference/targets.md: no options documented for ' + t)
    return out

# ---------------------------------------------------------------- generator

TEXTS = [b'alpha\n', b'beta', b'gamma\n\nmore\n', b'alpha\n', b'<!-- /agentpack -->\nx\n', b'd\xc3\xa9j\xc3\xa0 vu\n', b'']
TAGS = ['a', 'b', 'c']

def gen_tree(rng, mtype, hostile=False):
    """returns (files [(relpath, bytes)], fm_ok)"""
    r = rng.random()
    if mtype == 'instructions':
        files = [('AGENTS.md', rng.choice(TEXTS))]
        if r < 0.04: files = [('README.md', b'x\n')]                    # missing AGENTS.md
        elif r < 0.07: files = [('AGENTS.md', b'bad \xff\xfe utf8\n')]   # read_to_string fails
        elif r < 0.3: files.append((rng.choice(['notes/extra.md', 'z.txt', '.git/config', '.agentpack/overlay.json']), b'extra\n'))
        return files, True
    if mtype == 'skill':
        fm_ok = True
        if r < 0.03: files = [('README.md', b'x\n')]
        elif r < 0.09:
            files = [('SKILL.md', rng.choice(SKILL_BAD).encode())]; fm_ok = False
        elif r < 0.11: files = [('SKILL.md', b'---\nname: \xff\n---\n')]; fm_ok = False
        else: files = [('SKILL.md', rng.choice([SKILL_OK, SKILL_OK, SKILL_OK2]).encode())]
        for _ in range(rng.choice([0, 0, 1, 2, 3])):
            p = rng.choice(['a.txt', 'ref/b.md', 'ref/deep/c.bin', 'scripts/run.sh', '.git/HEAD', 'x/.agentpack/m.json', 'AGENTS.md', 'unïcode.md'])
            if p not in [f[0] for f in files]:
                files.append((p, rng.choice(TEXTS + [b'\x00\x01\xfe'])))
        return files, fm_ok
    if mtype == 'prompt':
        name = rng.choice(['hello.md', 'hello.md', 'review.prompt.md', 'a.b.md', 'sub/nested.md', 'x.md', 'x.md', 'hello.md',
                           rng.choice(['UP.MD', '.md', 'note.txt', 'hello.md'])])
        files = [(name, rng.choice(TEXTS))]
        if r < 0.04: files.append(('second.md', b'two\n'))
        elif r < 0.06: files = []
        elif r < 0.16: files.append(('.git/info', b'ignored\n'))
        return files, True
    # command
    name = rng.choice(['ap-plan.md', 'ap-plan.md', 'go.md', 'deep/cmd.md', 'go.md', rng.choice(['cmd.txt', 'go.md'])])
    if r < 0.07:
        return [(name, rng.choice(CMD_BAD).encode())], False
    if r < 0.09:
        return [(name, b'---\ndescription: \xff\n---\n')], False
    files = [(name, rng.choice([CMD_OK, CMD_OK, CMD_OK_BASH]).encode())]
    if r < 0.13: files.append(('other.md', CMD_OK.encode()))
    return files, True

def gen_options(rng, t, docopts):
    opts = {}
    for name in docopts[t]:
        k = rng.random()
        if k < 0.45: continue
        elif k < 0.72: opts[name] = True
        elif k < 0.93: opts[name] = False
        else: opts[name] = rng.choice(['true', 'FALSE', ' yes ', 'No', '1', '0', 'on', '', 'Yes ', 1, 0, None, 'truЕ'])
    if t == 'codex':
        k = rng.random()
        if k < 0.35: pass
        elif k < 0.6: opts['codex_home'] = SB + '/home/ch'
        elif k < 0.7: opts['codex_home'] = '~/alt'
        elif k < 0.76: opts['codex_home'] = rng.choice(['  ', '', ' \t'])
        elif k < 0.82: opts['codex_home'] = SB + '/project'                   # same directory as the project root
        elif k < 0.86: opts['codex_home'] = rng.choice([SB + '/project//', SB + '/project/.', SB + '/home/./ch/', SB + '/home//ch'])
        elif k < 0.9: opts['codex_home'] = rng.choice(['relch', './relch', 'rel/../ch'])
        elif k < 0.94: opts['codex_home'] = SB + '/home/x/../ch'
        elif k < 0.97: opts['codex_home'] = rng.choice([True, 7])
        else: opts['codex_home'] = SB + '/project/.codex'                     # user skills root == repo skills root
    return opts

def gen_case(rng, docopts, hostile_ids=None):
    nt = rng.choice([1, 1, 2, 2, 3, 6])
    tnames = rng.sample(TARGETS, nt)
    targets = {}
    for t in tnames:
        if t in PROJECT_ONLY:
            scope = rng.choice(['project', 'project', 'both', 'both', 'user'] if rng.random() < 0.08 else ['project', 'both'])
        else:
            scope = rng.choice(['user', 'project', 'both', 'both'])
        targets[t] = {'scope': scope, 'options': gen_options(rng, t, docopts)}
    names = ['one', 'two', 'dup', 'team/x', 'x', 'Z', 'über', 'with space', 'alpha:tool', 'beta:tool', 'a:b:c', ':lead', 'trail:', './one', 'one//', 'one/.', 'two/./', './/two']
    CONSUMES = {'codex': ['instructions', 'skill', 'prompt'], 'claude_code': ['command', 'skill'], 'cursor': ['instructions'],
                'vscode': ['instructions', 'prompt'], 'jetbrains': ['instructions'], 'zed': ['instructions']}
    wanted = [ty for t in tnames for ty in CONSUMES[t]]
    nm = rng.choice([1, 2, 3, 3, 4, 5, 6])
    modules = []; used = set()
    def fresh(mid, i):
        if mid in used and rng.random() < 0.93:
            mid = mid + str(i)
        used.add(mid)
        return mid
    for i in range(nm):
        mtype = rng.choice(wanted) if rng.random() < 0.85 else rng.choice(['instructions', 'skill', 'prompt', 'command'])
        if hostile_ids is not None and rng.random() < 0.7:
            mid = rng.choice(hostile_ids)(rng, mtype)
        else:
            k = rng.random()
            nme = rng.choice(names)
            if k < 0.7: mid = '%s:%s' % (mtype, nme)
            elif k < 0.85: mid = '%s:%s' % (rng.choice(['x', 'alt', 'skill', 'A']), nme)
            elif k < 0.93: mid = nme                       # no ':' at all
            else: mid = '%s/%s' % (mtype, nme)
        mid = fresh(mid, i)
        files, fm_ok = gen_tree(rng, mtype)
        modules.append({'id': mid, 'type': mtype, 'enabled': rng.random() < 0.9,
                        'tags': rng.sample(TAGS, rng.choice([1, 1, 1, 2, 0])),
                        'targets': [] if rng.random() < 0.65 else rng.sample(tnames + [rng.choice(TARGETS)], rng.choice([1, 1, 2])),
                        'files': files, 'fm_ok': fm_ok})
    # twins: a second module that maps to the same output path(s) -- same bytes (merge) or different (conflict)
    if rng.random() < 0.35:
        cand = [m for m in modules if m['type'] in ('skill', 'prompt', 'command') and m['files']]
        if cand:
            o = rng.choice(cand)
            name_part = o['id'].split(':', 1)[1] if ':' in o['id'] else sanitize(o['id'])
            if o['type'] == 'skill' and rng.random() < 0.35 and name_part and not name_part.startswith('/'):
                # the SAME directory under another spelling (./x, x//, x/.): one output path, not two
                name_part = rng.choice(['./' + name_part, name_part + '//', name_part + '/.', './/' + name_part])
            tid = fresh(rng.choice(['alt', 'zz', 'A']) + ':' + name_part, 99) if o['type'] == 'skill' else fresh(o['type'] + ':twin', 98)
            files = list(o['files'])
            if rng.random() < 0.55:
                j = rng.randrange(len(files))
                if not (o['type'] == 'skill' and files[j][0] == 'SKILL.md') and o['type'] != 'command':
                    files[j] = (files[j][0], files[j][1] + b'changed\n')
                elif o['type'] == 'skill':
                    files[j] = (files[j][0], SKILL_OK2.encode() if files[j][1] != SKILL_OK2.encode() else SKILL_OK.encode())
                else:
                    files[j] = (files[j][0], CMD_OK_BASH.encode() if files[j][1] != CMD_OK_BASH.encode() else CMD_OK.encode())
            if o['type'] == 'skill' and rng.random() < 0.3:
                files.append(('only-in-twin.txt', b'x\n'))
            fm = o['fm_ok']
            if o['type'] == 'skill' and any(r == 'SKILL.md' and b in (SKILL_OK.encode(), SKILL_OK2.encode()) for r, b in files): fm = True
            if o['type'] == 'command' and len(files) == 1 and files[0][1] in (CMD_OK.encode(), CMD_OK_BASH.encode()): fm = True
            modules.insert(rng.randrange(len(modules) + 1),
                           {'id': tid, 'type': o['type'], 'enabled': True, 'tags': list(o['tags']), 'targets': list(o['targets']),
                            'files': files, 'fm_ok': fm})
    if rng.random() < 0.03:
        modules[-1]['targets'] = ['nonesuch']
    ids = [m['id'] for m in modules]
    def prof():
        return {'include_tags': (sorted({t for m in modules for t in m['tags']}) if rng.random() < 0.5 else rng.sample(TAGS, rng.choice([1, 2, 2, 3, 0]))),
                'include_modules': rng.sample(ids, rng.choice([0, 0, 1, min(2, len(ids))])) + (['ghost:id'] if rng.random() < 0.1 else []),
                'exclude_modules': rng.sample(ids, rng.choice([0, 0, 0, 0, 1]))}
    profiles = {'default': prof()}
    if rng.random() < 0.3: profiles['work'] = prof()
    if rng.random() < 0.02: profiles = {'work': prof()}             # missing default
    k = rng.random()
    profile = 'nope' if k > 0.97 else ('work' if ('work' in profiles and k < 0.5) else 'default')
    k = rng.random()
    filt = 'all' if k < 0.8 else (rng.choice(tnames) if k < 0.95 else rng.choice(TARGETS + ['bogus', 'export_dir']))
    case = {'version': 1 if rng.random() < 0.985 else 2, 'targets': targets, 'profiles': profiles, 'modules': modules,
            'profile': profile, 'filter': filt,
            'codex_env': None if rng.random() < 0.85 else rng.choice([SB + '/home/envch', '~/envch', ' ', 'relenv'])}
    return case

# ---------------------------------------------------------------- world

def subst(x, root):
    return x.replace(SB, root) if isinstance(x, str) else x

def manifest_of(case, order, sbroot):
    mods = []
    for i in order:
        m = case['modules'][i]
        d = {'id': subst(m['id'], sbroot), 'type': m['type'], 'tags': m['tags'], 'source': {'local_path': {'path': 'modules/m%d' % i}}}
        if m['targets']: d['targets'] = m['targets']
        if not m['enabled']: d['enabled'] = False
        mods.append(d)
    return {'version': case['version'],
            'profiles': {n: {k: [subst(x, sbroot) for x in v] for k, v in p.items()} for n, p in case['profiles'].items()},
            'targets': {t: {'mode': 'files', 'scope': c['scope'], 'options': {k: subst(v, sbroot) for k, v in c['options'].items()}}
                        for t, c in case['targets'].items()},
            'modules': mods}

def write_world(sb, case, order, file_perm_seed):
    import random
    r = random.Random(file_perm_seed)
    moddir = os.path.join(sb.repo, 'modules')
    shutil.rmtree(moddir, ignore_errors=True)
    for i, m in enumerate(case['modules']):
        d = os.path.join(moddir, 'm%d' % i)
        os.makedirs(d)
        files = list(m['files'])
        r.shuffle(files)
        for rel, data in files:
            world.write(os.path.join(d, subst(rel, sb.root)), data)
    world.write_config(sb.repo, manifest_of(case, order, sb.root))

def cli_args(case):
    a = []
    if case['profile'] != 'default': a += ['--profile', case['profile']]
    if case['filter'] != 'all': a += ['--target', case['filter']]
    return a

def extra_env(case, sb):
    return {'CODEX_HOME': subst(case['codex_env'], sb.root)} if case['codex_env'] is not None else None

def canon_plan(doc, sb):
    """('err', code) | ('ok', sorted [(target, path with SB placeholder, after_sha)], problems)"""
    if doc is None:
        return ('bad', 'no json')
    if not doc.get('ok'):
        errs = doc.get('errors') or [{}]
        return ('err', errs[0].get('code', '?'))
    ch = doc['data']['changes']
    prob = [c for c in ch if c['op'] != 'create' or c.get('before_sha256') is not None]
    return ('ok', sorted((c['target'], c['path'].replace(sb.root, SB), c['after_sha256']) for c in ch), prob)

def abs_norm(path, sb):
    p = path.replace(SB, sb.root)
    return os.path.normpath(os.path.join(sb.project, p))

def observe(case, perms, deploy=True, snapshot=False):
    """Run the real binary on the case.  perms: list of (module order, file seed); the first is also deployed.
    Returns dict: plans (canon per perm), roots, files {(target, path)->(bytes, ids)}, manifests, delta."""
    sb = Sandbox('rnd')
    res = {'plans': []}
    try:
        sb.git_init_project()
        env = extra_env(case, sb)
        args = cli_args(case)
        for order, fseed in perms:
            write_world(sb, case, order, fseed)
            rc, doc, out, err = sb.cli_json(['plan'] + args, extra_env=env)
            res['plans'].append(canon_plan(doc, sb))
            res.setdefault('raw', []).append(out[:1500] if doc is None else None)
        write_world(sb, case, perms[0][0], perms[0][1])
        p0 = res['plans'][0]
        res['sbroot'] = sb.root
        if p0[0] == 'ok':
            rc, doc, out, err = sb.cli_json(['doctor'] + args, extra_env=env)
            if doc and doc.get('ok'):
                res['roots'] = [(r['target'], r['root'].replace(sb.root, SB), bool(r['scan_extras'])) for r in doc['data']['roots']]
            else:
                res['roots'] = None; res['doctor_err'] = out[:800]
        if deploy:
            before = sb.snapshot() if snapshot else None
            rc, doc, out, err = sb.cli_json(['deploy', '--apply', '--yes'] + args, extra_env=env)
            res['deploy'] = ('ok' if doc and doc.get('ok') else 'err', None if doc is None else (doc.get('errors') or [{}])[0].get('code') if not doc.get('ok') else None)
            if snapshot:
                after = sb.snapshot()
                res['delta'] = {p.replace(sb.root, SB): (type(v[0]).__name__, type(v[1]).__name__) for p, v in snap_diff(before, after).items()}
                res['canary_ok'] = all(not p.startswith(sb.canary) for p in snap_diff(before, after))
            if p0[0] == 'ok':
                mans = {}
                for dp, dns, fns in os.walk(sb.root):
                    for fn in fns:
                        mm = re.fullmatch(r'\.agentpack\.manifest\.(.+)\.json', fn)
                        if mm and not dp.startswith(sb.aphome):
                            try:
                                md = json.load(open(os.path.join(dp, fn)))
                            except Exception:
                                continue
                            mans[(md.get('tool'), dp.replace(sb.root, SB))] = [(f['path'], f.get('module_ids', []), f.get('sha256')) for f in md.get('managed_files', [])]
                res['manifests'] = mans
                listed = {}
                for (tool, root), ents in mans.items():
                    for path, ids, sha in ents:
                        listed.setdefault((tool, os.path.normpath(os.path.join(root.replace(SB, sb.root), path))), []).append((root, path, ids, sha))
                files = {}
                for t, path, sha in p0[1]:
                    ap = abs_norm(path, sb)
                    try:
                        data = open(ap, 'rb').read()
                    except OSError:
                        data = None
                    files[(t, path)] = {'bytes': data, 'sha_plan': sha, 'listed': listed.get((t, ap), [])}
                res['files'] = files
        return res
    finally:
        sb.close()

# ---------------------------------------------------------------- reference renderer (from the docs)

def sanitize(x):
    return ''.join(c if (c.isascii() and c.isalnum()) or c in '-_' else '_' for c in x)

def module_valid(m):
    files = [(r, b) for r, b in m['files'] if not any(c in ('.git', '.agentpack') for c in r.split('/'))]
    names = [r for r, _ in files]
    def utf8(b):
        try: b.decode('utf-8'); return True
        except UnicodeDecodeError: return False
    if any('\\' in r for r in names): return False
    if m['type'] == 'instructions':
        return 'AGENTS.md' in names and utf8(dict(files)['AGENTS.md'])
    if m['type'] == 'skill':
        return 'SKILL.md' in names and m['fm_ok']
    if len(files) != 1: return False
    base = names[0].split('/')[-1]
    if not (base.endswith('.md') and len(base) > 3): return False
    return m['fm_ok'] if m['type'] == 'command' else True

def ref_render(case, docopts):
    """Independent reading of docs/reference/targets.md (+ SPEC 4.5 merge/conflict rule).
    Returns None (not covered), ('fail',), ('conflict',) or ('ok', {(target, abs-ish path): (bytes, sorted ids)}, roots)."""
    if case['version'] != 1 or 'default' not in case['profiles']: return None
    if case['profile'] not in case['profiles']: return ('fail',)
    if case['filter'] != 'all' and (case['filter'] not in TARGETS or case['filter'] not in case['targets']): return ('fail',)
    for t, c in case['targets'].items():
        if t in PROJECT_ONLY and c['scope'] == 'user': return ('fail',)
        for k, v in c['options'].items():
            if k == 'codex_home':
                if not isinstance(v, str): return None
            elif not isinstance(v, bool): return None       # string spellings are not documented: left to the model
    ids = [m['id'] for m in case['modules']]
    if len(set(ids)) != len(ids): return ('fail',)
    for m in case['modules']:
        if any(t not in TARGETS for t in m['targets']): return ('fail',)
        if m['type'] == 'skill' and ':' in m['id']:
            nm = m['id'].split(':', 1)[1]
            if nm.startswith('/') or '\\' in nm or '..' in nm.split('/'): return ('fail',)
    prof = case['profiles'][case['profile']]
    sel = [m for m in case['modules'] if m['enabled'] and m['id'] not in prof['exclude_modules']
           and (set(m['tags']) & set(prof['include_tags']) or m['id'] in prof['include_modules'])]
    sel.sort(key=lambda m: m['id'].encode('utf-8'))
    out = {}; state = {'conflict': False, 'invalid': False}
    def put(t, path, data, ids_):
        # desired files are keyed by (target, PathBuf): paths compare by COMPONENTS (a/./b, a//b, a/b/. are one file)
        lead = '/' if path.startswith('/') else ''
        path = lead + '/'.join(c for c in path.split('/') if c not in ('', '.'))
        k = (t, path)
        if k in out:
            if out[k][0] != data: state['conflict'] = True
            else: out[k] = (data, sorted(set(out[k][1]) | set(ids_), key=lambda x: x.encode()))
        else:
            out[k] = (data, list(ids_))
    def tree(m):
        return [(r, b) for r, b in m['files'] if not any(c in ('.git', '.agentpack') for c in r.split('/'))]
    def aggregate(parts):
        if len(parts) == 1: return parts[0][1]
        secs = []
        for i_, txt in parts:
            secs.append(b'<!-- agentpack:module=' + i_.encode() + b' -->\n' + txt + (b'' if txt.endswith(b'\n') else b'\n') + b'<!-- /agentpack -->')
        return b'\n\n---\n\n'.join(secs)
    roots = []
    for t in sorted(case['targets']):
        if case['filter'] not in ('all', t): continue
        c = case['targets'][t]
        user = c['scope'] in ('user', 'both'); project = c['scope'] in ('project', 'both')
        def on(name):
            d, req = docopts[t][name]
            return bool(c['options'].get(name, d)) and (project if req == 'project' else user)
        mods = [m for m in sel if not m['targets'] or t in m['targets']]
        by = lambda ty: [m for m in mods if m['type'] == ty]
        if any(not module_valid(m) for m in mods): state['invalid'] = True
        P = SB + '/project'; H = SB + '/home'
        def J(*xs): return '/'.join(xs)
        def instr_parts(): return [(m['id'], dict(tree(m)).get('AGENTS.md', b'')) for m in by('instructions')]
        def skill_name(m): return m['id'].split(':', 1)[1] if ':' in m['id'] else sanitize(m['id'])
        if t == 'codex':
            ch = c['options'].get('codex_home')
            if not (isinstance(ch, str) and ch.strip()):
                ch = case['codex_env'] if (case['codex_env'] or '').strip() else '~/.codex'
            if ch.startswith('~/'): ch = J(H, ch[2:])
            if on('write_agents_global'): roots.append((t, ch))
            if on('write_user_prompts'): roots.append((t, J(ch, 'prompts')))
            if on('write_user_skills'): roots.append((t, J(ch, 'skills')))
            if on('write_agents_repo_root'): roots.append((t, P))
            if on('write_repo_skills'): roots.append((t, J(P, '.codex/skills')))
            parts = instr_parts()
            if parts:
                if on('write_agents_global'): put(t, J(ch, 'AGENTS.md'), aggregate(parts), [p[0] for p in parts])
                if on('write_agents_repo_root'): put(t, J(P, 'AGENTS.md'), aggregate(parts), [p[0] for p in parts])
            for m in by('prompt'):
                if on('write_user_prompts') and tree(m): put(t, J(ch, 'prompts', tree(m)[0][0].split('/')[-1]), tree(m)[0][1], [m['id']])
            for m in by('skill'):
                for rel, data in tree(m):
                    if on('write_user_skills'): put(t, J(ch, 'skills', skill_name(m), rel), data, [m['id']])
                    if on('write_repo_skills'): put(t, J(P, '.codex/skills', skill_name(m), rel), data, [m['id']])
        elif t == 'claude_code':
            if on('write_user_commands'): roots.append((t, J(H, '.claude/commands')))
            if on('write_repo_commands'): roots.append((t, J(P, '.claude/commands')))
            if on('write_user_skills'): roots.append((t, J(H, '.claude/skills')))
            if on('write_repo_skills'): roots.append((t, J(P, '.claude/skills')))
            for m in by('command'):
                if not tree(m): continue
                nm = tree(m)[0][0].split('/')[-1]
                if on('write_user_commands'): put(t, J(H, '.claude/commands', nm), tree(m)[0][1], [m['id']])
                if on('write_repo_commands'): put(t, J(P, '.claude/commands', nm), tree(m)[0][1], [m['id']])
            for m in by('skill'):
                for rel, data in tree(m):
                    if on('write_user_skills'): put(t, J(H, '.claude/skills', skill_name(m), rel), data, [m['id']])
                    if on('write_repo_skills'): put(t, J(P, '.claude/skills', skill_name(m), rel), data, [m['id']])
        elif t == 'cursor':
            if on('write_rules'):
                roots.append((t, J(P, '.cursor/rules')))
                for m in by('instructions'):
                    body = dict(tree(m)).get('AGENTS.md', b'')
                    head = '---\ndescription: %s\nglobs: []\nalwaysApply: true\n---\n\n' % json.dumps('agentpack: ' + m['id'], ensure_ascii=False)
                    data = head.encode('utf-8') + body
                    if not data.endswith(b'\n'): data += b'\n'
                    key = (sanitize(m['id']) or 'module')[:64] + '--' + hashlib.sha256(m['id'].encode()).hexdigest()[:10]
                    put(t, J(P, '.cursor/rules', key + '.mdc'), data, [m['id']])
        elif t == 'vscode':
            if on('write_instructions'): roots.append((t, J(P, '.github')))
            if on('write_prompts'): roots.append((t, J(P, '.github/prompts')))
            parts = instr_parts()
            if parts and on('write_instructions'): put(t, J(P, '.github/copilot-instructions.md'), aggregate(parts), [p[0] for p in parts])
            for m in by('prompt'):
                if not (on('write_prompts') and tree(m)): continue
                nm = tree(m)[0][0].split('/')[-1]
                if not nm.endswith('.prompt.md'):
                    nm = (nm[:-3] if nm.endswith('.md') else nm) + '.prompt.md'
                put(t, J(P, '.github/prompts', nm), tree(m)[0][1], [m['id']])
        elif t == 'jetbrains':
            if on('write_guidelines'):
                roots.append((t, J(P, '.junie')))
                parts = instr_parts()
                if parts: put(t, J(P, '.junie/guidelines.md'), aggregate(parts), [p[0] for p in parts])
            else:
                pass
        elif t == 'zed':
            if on('write_rules'):
                roots.append((t, P))
                parts = instr_parts()
                if parts: put(t, J(P, '.rules'), aggregate(parts), [p[0] for p in parts])
    if state['invalid']: return None          # which modules are reached (and which error wins) is the model's business
    if state['conflict']: return ('conflict',)
    return ('ok', out, roots)

# ---------------------------------------------------------------- Coq terms

_ROOT = ['/S']       # sandbox root used when building Coq terms (set per case by coq_case / set_root)

def set_root(root):
    _ROOT[0] = root

def cs(x):
    return cq.cstr(x.replace(SB, _ROOT[0]))

def coq_oval(v):
    if isinstance(v, bool): return '(OBool %s)' % cq.cbool(v)
    if isinstance(v, str): return '(OStr %s)' % cs(v)
    return 'OOther'

def coq_cfg(case):
    profs = cq.clist(['(P %s %s %s %s)' % (cs(n), cq.clist([cs(x) for x in p['include_tags']]),
                                         cq.clist([cs(x) for x in p['include_modules']]),
                                         cq.clist([cs(x) for x in p['exclude_modules']])) for n, p in case['profiles'].items()])
    scope = {'user': 'SUser', 'project': 'SProject', 'both': 'SBoth'}
    tgts = cq.clist(['(T %s %s %s)' % (cs(t), scope[c['scope']],
                                      cq.clist([cq.cpair(cs(k), coq_oval(v)) for k, v in c['options'].items()]))
                     for t, c in case['targets'].items()])
    ty = {'instructions': 'TInstructions', 'skill': 'TSkill', 'prompt': 'TPrompt', 'command': 'TCommand'}
    mods = []
    for m in case['modules']:
        files = []
        for rel, data in m['files']:
            try: data.decode('utf-8'); u = True
            except UnicodeDecodeError: u = False
            files.append('(F %s %s %s)' % (cq.clist([cs(c) for c in rel.split('/')]), cq.cbytes(data), cq.cbool(u)))
        mods.append('(M %s %s %s %s %s %s %s %s)' % (cs(m['id']), ty[m['type']], cq.cbool(m['enabled']),
                    cq.clist([cs(x) for x in m['tags']]), cq.clist([cs(x) for x in m['targets']]), cq.clist(files),
                    cq.cbool(m['fm_ok']), cs(hashlib.sha256(m['id'].replace(SB, _ROOT[0]).encode('utf-8')).hexdigest()[:10])))
    return '(mkCfg %d %s %s %s)' % (case['version'], profs, tgts, cq.clist(mods))

def coq_env(case):
    return '(mkEnv %s %s %s)' % (cs(SB + '/home'), cs(SB + '/project'), cq.copt(case['codex_env'], cs))

def coq_obs(res):
    p0 = res['plans'][0]
    if p0[0] == 'err':
        return '(ObsErr %d)' % CODES.get(p0[1], 99)
    files = []
    for (t, path), f in sorted(res['files'].items()):
        ids = f['listed'][0][2] if f['listed'] else []
        files.append(cq.cpair(cs(t), cs(path), cq.cbytes(f['bytes'] or b''), cq.clist([cs(i) for i in ids])))
    roots = [cq.cpair(cs(t), cs(r), cq.cbool(sc)) for t, r, sc in (res['roots'] or [])]
    return '(ObsOk %s %s)' % (cq.clist(files), cq.clist(roots))

def coq_case(case, res):
    set_root(res['sbroot'])
    return cq.cpair(coq_cfg(case), coq_env(case), cs(case['profile']), cs(case['filter']), coq_obs(res))

def coq_manifests(res):
    out = []
    for (tool, root), ents in sorted((res.get('manifests') or {}).items()):
        # Path::strip_prefix keeps the raw remainder ("a//b", "a/./b"): compare component-wise (the raw entries are judged by the oracle)
        canon = ['/'.join(c for c in e[0].split('/') if c not in ('', '.')) for e in ents]
        out.append(cq.cpair(cs(tool or ''), cs(root), cq.clist([cs(p) for p in sorted(canon, key=lambda x: x.encode())])))
    return cq.clist(out)

def case_json(case):
    c = json.loads(json.dumps(case, default=lambda b: {'hex': b.hex()} if isinstance(b, (bytes, bytearray)) else str(b)))
    return c

def case_from_json(c):
    for m in c['modules']:
        m['files'] = [(r, bytes.fromhex(b['hex'])) for r, b in m['files']]
    return c
