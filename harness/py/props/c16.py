"""C16 — status reports exactly the real drift, no more and no less."""
import os, json, hashlib
from vlib.common import *
from vlib import coqrun as cq
from vlib import deploysim as ds, world
from vlib.impl import Sandbox

HEADER = 'From AP Require Import Corr.Check_C16.\nOpen Scope N_scope.\n'
KIND = {'modified': 0, 'missing': 1, 'extra': 2}

def ground_truth(files, R, D, ids):
    """independent differ written from the property text; returns sorted list of (target, root, path, kind)"""
    out = []
    def usable(r):
        pref = r['root'] + '/' + ds.mf_name(r['target']); leg = r['root'] + '/' + ds.LEGACY
        b = files[pref] if pref in files else files.get(leg)
        if b is None: return None
        m = ds.classify_manifest(b, ids)
        if m[0] != 'P' or m[2] != r['target']: return None
        man = set()
        for p, _ in m[3]:
            comps = [c for c in p.split('/') if c not in ('', '.')]
            if p.startswith('/') or '..' in comps: continue
            man.add(ds.norm_rel(r['root'] + '/' + '/'.join(comps)))
        return man
    us = [usable(r) for r in R]
    dmap = {(d['target'], d['path']): d for d in D}
    def cmp_desired(d, root):
        if d['path'] in files:
            if files[d['path']] != d['bytes']: out.append((d['target'], root, d['path'], 'modified'))
        else:
            out.append((d['target'], root, d['path'], 'missing'))
    if all(u is None for u in us):
        for d in D:
            cmp_desired(d, ds.best_root_py(R, d))
        return sorted(out, key=str), True
    fallback = False
    for r, man in zip(R, us):
        if man is None:
            mine = [d for d in D if ds.best_root_py(R, d) == r['root'] and d['target'] == r['target'] and best_idx(R, d) == R.index(r)]
            if mine: fallback = True
            for d in mine: cmp_desired(d, r['root'])
            continue
        for p in sorted(man):
            d = dmap.get((r['target'], p))
            if d is not None:
                if p in files:
                    if files[p] != d['bytes']: out.append((r['target'], r['root'], p, 'modified'))
                else: out.append((r['target'], r['root'], p, 'missing'))
            elif p in files:
                out.append((r['target'], r['root'], p, 'extra'))
        if r['scan_extras']:
            for p in sorted(files):
                if not p.startswith(r['root'] + '/'): continue
                relc = p[len(r['root']) + 1:].split('/')
                if any(c in ('.agentpack', '.git') for c in relc): continue
                if ds.is_manifest_name(os.path.basename(p)) or p in man: continue
                out.append((r['target'], r['root'], p, 'extra'))
    return sorted(out, key=str), fallback

def best_idx(R, d):
    best = None
    for i, r in enumerate(R):
        if r['target'] == d['target'] and (d['path'].startswith(r['root'] + '/')):
            if best is None or len(r['root'].split('/')) >= len(R[best]['root'].split('/')):
                best = i
    return best

def perturb(rng, cw, sb):
    tags = []
    base = sb.root
    tree = ds.world_tree(sb)
    deployed = sorted(p for p in tree if not ds.is_manifest_name(os.path.basename(p)))
    for p in deployed:
        k = rng.random()
        if k < 0.2: world.write(base + p, b'edited\n'); tags.append('edit')
        elif k < 0.35: os.remove(base + p); tags.append('delete')
    for p in rng.sample(['/home/codex_home/prompts/extra1.md', '/home/codex_home/prompts/deep/dir/extra2.md', '/home/codex_home/skills/own/SKILL.md',
                         '/home/codex_home/skills/s0/added.txt', '/home/codex_home/top-level.txt', '/home/.claude/commands/mine.md',
                         '/home/codex_home/prompts/.git/config', '/home/codex_home/skills/.agentpack/meta.json', '/home/codex_home/prompts/sub/.git/x',
                         # names that merely START like the metadata directories are ordinary files
                         '/home/codex_home/prompts/.gitkeep', '/home/codex_home/skills/own/.gitignore', '/home/codex_home/prompts/.github/review.md',
                         '/home/.claude/commands/.gitattributes', '/home/codex_home/skills/.agentpack.bak/x.md', '/home/codex_home/prompts/.agentpackrc'],
                        rng.randrange(0, 7)):
        world.write(base + p, b'extra\n'); tags.append('add')
    for r in cw.roots(None):
        k = rng.random()
        pref = r['root'] + '/' + ds.mf_name(r['target']); leg = r['root'] + '/' + ds.LEGACY
        if k < 0.12 and os.path.exists(pref): os.remove(pref); tags.append('man:delete')
        elif k < 0.2: world.write(pref, b'{ broken'); tags.append('man:garbage')
        elif k < 0.26 and os.path.exists(pref): os.rename(pref, leg); tags.append('man:legacy')
        elif k < 0.32: world.write(pref, ds.manifest_bytes('zed', [('x.md', b'x')])); tags.append('man:foreign')
        elif k < 0.42 and os.path.exists(pref):
            try:
                v = json.load(open(pref)); cur = [(e['path'], e['sha256']) for e in v['managed_files']]
            except (ValueError, KeyError, TypeError):
                continue   # an earlier perturbation (or a user edit before the deploy) already made this manifest unreadable
            world.write(pref, ds.manifest_bytes(r['target'], cur + [('gone.md', b'g'), ('../escape.md', b'e'), ('/abs.md', b'a'), ('extra1.md', b'extra\n')]))
            tags.append('man:stale+hostile')
    if rng.random() < 0.4:
        tags.append('cfg:' + cw.edit_config()); cw.write()
    if rng.random() < 0.3:
        # a file the configuration now asks for is already there, put there by the user, recorded nowhere
        cw.add_prompt(); cw.write(); tags.append('cfg:add_prompt')
        d = [d for d in cw.desired(None) if d['path'].endswith('/' + sorted(cw.modules[-1]['files'])[0])]
        if d and rng.random() < 0.8:
            world.write(d[0]['path'], rng.choice([d[0]['bytes'], b'user wrote this first\n'])); tags.append('add:desired_unmanaged')
    return tags

def run_status_stream(ctx, n):
    rng = ctx.rng
    cases = []; only_cases = []
    for i in range(n):
        sb = Sandbox('c16'); sb.git_init_project()
        try:
            cw = ds.CfgWorld(sb, rng)
            if rng.random() < 0.3:
                ds.setup_shared_root(cw, rng)        # two targets with outputs in one directory (per-root figures are per (target, root))
            cw.write()
            base = sb.root
            for _ in range(rng.randrange(0, 2)):
                ds.user_edit(rng, cw)
            pre = []
            if rng.random() < 0.9:
                sb.cli_json(['deploy', '--apply', '--yes', '--adopt'])
                # a deployed state may be the result of several deploys: configuration edits followed by further
                # deploys leave e.g. manifests that list nothing, roots that lost their last file, emptied targets
                for _ in range(rng.choice([0, 0, 1, 2])):
                    pre.append('cfg+deploy:' + cw.edit_config()); cw.write()
                    sb.cli_json(['deploy', '--apply', '--yes', '--adopt'])
            tags = pre + perturb(rng, cw, sb)
            flt = rng.choice([None, None, 'codex'] + (['claude_code'] if cw.claude else []) + (['zed'] if cw.zed else []) + (['vscode'] if getattr(cw, 'vscode', False) else []))
            only = rng.choice([None, None, ['extra'], ['modified', 'missing'], ['missing']])
            args = ['status'] + (['--target', flt] if flt else []) + (['--only', ','.join(only)] if only else [])
            rc, doc, out, err = sb.cli_json(args)
            rc0, doc0, _, _ = sb.cli_json(['status'] + (['--target', flt] if flt else [])) if only else (rc, doc, out, err)
            files = ds.world_tree(sb)
            D = ds.relD(cw.desired(flt), base); R = ds.relR(cw.roots(flt), base)
            ids = ds.Ids()
            rec = {'stream': 'status', 'index': i, 'tags': tags, 'target': flt, 'only': only,
                   'config': {'opts': cw.opts, 'claude': cw.claude, 'modules': [{k: (v if k != 'files' else {a: b.hex() for a, b in v.items()}) for k, v in m.items()} for m in cw.modules]},
                   'files': {p: b.hex() for p, b in files.items()}}
            if not (doc0 and doc0.get('ok')):
                ctx.violation('status failed instead of reporting drift (must fall back with a warning)', dict(rec, stdout=out[:500])); continue
            data = doc0['data']
            rel = lambda p: ds.norm_rel(p[len(base):]) if p and p.startswith(base) else p
            got = sorted(((it['target'], rel(it.get('root')), rel(it['path']), it['kind']) for it in data['drift']), key=str)
            want, fb = ground_truth(files, R, D, ids)
            rec['reported'] = got; rec['ground_truth'] = want
            if got != want:
                miss = [x for x in want if x not in got]; more = [x for x in got if x not in want]
                ctx.violation('status drift differs from the ground-truth diff (not reported: %s; wrongly reported: %s)' % (miss[:2], more[:2]), rec)
            # hashes
            for it in data['drift']:
                p = rel(it['path'])
                act = 'sha256:' + hashlib.sha256(files[p]).hexdigest() if p in files else None
                if it.get('actual') != act:
                    ctx.violation('status shows a wrong actual hash for %s' % p, rec)
                d = next((d for d in D if d['path'] == p and d['target'] == it['target']), None)
                exp = 'sha256:' + hashlib.sha256(d['bytes']).hexdigest() if (d is not None and it['kind'] != 'extra') else None
                if it.get('expected') != exp:
                    ctx.violation('status shows a wrong expected hash for %s' % p, rec)
            # summaries
            cnt = lambda items: {k: sum(1 for x in items if x['kind'] == k) for k in ('modified', 'missing', 'extra')}
            if data['summary'] != cnt(data['drift']):
                ctx.violation('status summary is not the count of the listed items', rec)
            for sr in data.get('summary_by_root', []):
                sub = [x for x in data['drift'] if x['target'] == sr['target'] and x.get('root') == sr['root']]
                if sr['summary'] != cnt(sub):
                    ctx.violation('status summary_by_root is not the count of the listed items of that root', rec)
            groups = sorted((sr['target'], sr['root']) for sr in data.get('summary_by_root', []))
            if groups != sorted({(x['target'], x.get('root')) for x in data['drift']}) or len(groups) != len(set(groups)):
                ctx.violation('summary_by_root does not have exactly one entry per (target, root) with listed items', rec)
            if sum(sum(sr['summary'].values()) for sr in data.get('summary_by_root', [])) != len(data['drift']):
                ctx.violation('per-root summaries do not add up to the number of items', rec)
            if only:
                if not (doc and doc.get('ok')):
                    ctx.violation('status --only failed', rec)
                else:
                    sub = [x for x in data['drift'] if x['kind'] in only]
                    if doc['data']['drift'] != sub or doc['data']['summary'] != cnt(sub) or doc['data'].get('summary_total') != data['summary']:
                        ctx.violation('status --only %s is not exactly the matching subset (or summary_total differs)' % only, rec)
                    # the per-root summaries of the filtered report count the items it lists (not the unfiltered ones)
                    fd = doc['data']
                    for sr in fd.get('summary_by_root', []):
                        subr = [x for x in fd['drift'] if x['target'] == sr['target'] and x.get('root') == sr['root']]
                        if sr['summary'] != cnt(subr):
                            ctx.violation('status --only %s: summary_by_root is not the count of the listed items of that root' % only, rec)
                    fgroups = sorted((sr['target'], sr['root']) for sr in fd.get('summary_by_root', []))
                    if fgroups != sorted({(x['target'], x.get('root')) for x in fd['drift']}):
                        ctx.violation('status --only %s: summary_by_root does not have exactly one entry per (target, root) with listed items' % only, rec)
            warn = ' '.join(doc0.get('warnings', []))
            nd = ('no target manifests found' in warn) or ('no usable target manifest for' in warn)
            if fb != nd:
                ctx.violation('fallback warning %s but ground truth says fallback=%s' % (nd, fb), rec)
            items = []
            for it in data['drift']:
                p = rel(it['path'])
                d = next((d for d in D if d['path'] == p and d['target'] == it['target']), None)
                e = ids.of_bytes(d['bytes']) if (it.get('expected') and d) else None
                a = ds.fobj_of(p, files[p], ids) if p in files and it.get('actual') else None
                items.append(cq.cpair(cq.cstr(it['target']), cq.copt(rel(it.get('root')), cq.cstr), cq.cstr(p), cq.cN(KIND[it['kind']]),
                                      cq.copt(e, cq.cN), cq.copt(a, ds.c_fobj)))
            s_ = data['summary']
            term = cq.cpair(ds.c_disk(files, ids), ds.c_roots(R), ds.c_desired(D, ids), cq.clist(items),
                            cq.cpair(cq.cN(s_['modified']), cq.cN(s_['missing']), cq.cN(s_['extra'])), cq.cbool(nd))
            cases.append((term, rec))
            if only and doc and doc.get('ok'):
                # the filtered report as a whole (items, summary, per-root summaries, summary_total) against status_cmd
                fd = doc['data']
                def c_item(it):
                    p_ = rel(it['path'])
                    d_ = next((d for d in D if d['path'] == p_ and d['target'] == it['target']), None)
                    e_ = ids.of_bytes(d_['bytes']) if (it.get('expected') and d_) else None
                    a_ = ds.fobj_of(p_, files[p_], ids) if p_ in files and it.get('actual') else None
                    return cq.cpair(cq.cstr(it['target']), cq.copt(rel(it.get('root')), cq.cstr), cq.cstr(p_), cq.cN(KIND[it['kind']]),
                                    cq.copt(e_, cq.cN), cq.copt(a_, ds.c_fobj))
                c3 = lambda s3: cq.cpair(cq.cN(s3['modified']), cq.cN(s3['missing']), cq.cN(s3['extra']))
                byroot = cq.clist([cq.cpair(cq.cstr(sr['target']), cq.copt(rel(sr['root']) if sr.get('root') not in (None, '<unknown>') else None, cq.cstr), c3(sr['summary']))
                                   for sr in fd.get('summary_by_root', [])])
                oterm = cq.cpair(ds.c_disk(files, ids), ds.c_roots(R), ds.c_desired(D, ids), cq.clist([cq.cN(KIND[k]) for k in only]),
                                 cq.clist([c_item(it) for it in fd['drift']]), c3(fd['summary']), byroot,
                                 cq.copt(fd.get('summary_total'), c3))
                only_cases.append((oterm, dict(rec, filtered=True)))
            kinds = tuple(sorted({x[3] for x in got}))
            ctx.count('status', key=(kinds, tuple(sorted(set(tags))), flt, tuple(only or ())), nontrivial=len(got) > 0,
                      tags=['kind:' + k for k in kinds] + ['t:' + t for t in set(tags)] + (['fallback'] if nd else []))
            if i < 2:
                ctx.sample({'stream': 'status', 'tags': tags, 'target': flt, 'reported': got[:6]})
        finally:
            sb.close()
    for c in ctx.corr('status', HEADER, 'check_status', 'status_case', cases, shard_chars=40000):
        ctx.violation('model and implementation disagree on status --json (items / summary / fallback)', c, no_input=True)
    for c in ctx.corr('status_only', HEADER, 'check_status_only', 'status_only_case', only_cases, shard_chars=40000):
        ctx.violation('model and implementation disagree on status --only --json (listed items / summary / per-root summaries / summary_total)', c, no_input=True)

def run(ctx):
    quick = ctx.tier == 'quick'
    ctx.rule = ('status: generated configuration, optional deploy, then perturbations (edit/delete any subset of deployed files, add files incl. nested dirs and '
                '.git/.agentpack dirs, delete/corrupt/rename/foreign/stale+hostile manifests, config edit without deploy) x --target x --only; compared with the model and '
                'with an independent ground-truth differ; non-trivial = at least one drift item; distinct = distinct (kinds, perturbation tags, target, only)')
    ctx.trusted = ['Coq 8.16.1 kernel + vm_compute', 'hand-written models coq/Model/Status.v, Deploy.v', 'harness manifest classifier and ground-truth differ',
                   'reference desired state (harness CfgWorld)', 'tools/gen_tables.py']
    ctx.assumptions = ['SHA-256 injective on the file contents at hand', 'no symlinks in target roots', 'the extras scan ranges over regular files (directories / special files not modelled)']
    ctx.proof_phase(extra_targets=['Corr/Check_C16.vo'])
    run_status_stream(ctx, 120 if quick else 1500)
