"""C15 — A file agentpack wrote stays tracked as managed until agentpack removes it."""
import os, random, json
from vlib import world
from vlib.common import *
from vlib import deploysim as ds
from vlib.impl import Sandbox
from props.c06 import _world, _deploy

def witnesses(ctx):
    # K15a: bootstrap after deploy in the shared codex skills root
    sb = Sandbox('c15w'); sb.git_init_project()
    try:
        cw = _world(sb, claude=False)
        cw.modules.append({'id': 'skill:mine', 'type': 'skill', 'dir': 'modules/skills/mine', 'files': {'SKILL.md': ds.skill_md('mine', 'one')}, 'targets': [], 'enabled': True})
        cw.write(); _deploy(sb)
        rc, doc, out, err = sb.cli_json(['bootstrap', '--scope', 'user', '--yes'])
        tree = ds.read_tree(sb.home)
        acc = ds.accepted_entries(tree, ds.relR(cw.roots(None), sb.home), ds.Ids())
        p = '/codex_home/skills/mine/SKILL.md'
        ctx.count('witness', key='K15a', tags=['witness:K15a'])
        if doc and doc.get('ok') and p in tree and ('codex', p) not in acc:
            # consequences named by the property: adopt demanded, reported extra
            cw.modules[-1]['files']['SKILL.md'] = ds.skill_md('mine', 'two'); cw.write()
            rc, pdoc, _, _ = sb.cli_json(['plan'])
            kinds = [c.get('update_kind') for c in (pdoc or {}).get('data', {}).get('changes', []) if c['path'].endswith('mine/SKILL.md')]
            if ctx.is_known('K15a'): ctx.known_finding('K15a', ds.KNOWN_TEXT['K15a'])
            else: ctx.violation('a deployed skill dropped out of the manifest after bootstrap', {'stream': 'witness', 'cls': 'K15a', 'update_kinds': kinds})
    finally:
        sb.close()
    # K15c: evolve restore of a desired file that was never deployed
    sb = Sandbox('c15w'); sb.git_init_project()
    try:
        cw = _world(sb, claude=False); cw.write(); _deploy(sb)
        cw.modules.append({'id': 'prompt:p1', 'type': 'prompt', 'dir': 'modules/prompts/p1', 'files': {'p1.md': b'one\n'}, 'targets': [], 'enabled': True})
        cw.write()
        rc, doc, out, err = sb.cli_json(['evolve', 'restore', '--yes'])
        tree = ds.read_tree(sb.home)
        acc = ds.accepted_entries(tree, ds.relR(cw.roots(None), sb.home), ds.Ids())
        p = '/codex_home/prompts/p1.md'
        ctx.count('witness', key='K15c', tags=['witness:K15c'])
        if doc and doc.get('ok') and p in tree and ('codex', p) not in acc:
            if ctx.is_known('K15c'): ctx.known_finding('K15c', ds.KNOWN_TEXT['K15c'])
            else: ctx.violation('evolve restore wrote a file that no manifest lists', {'stream': 'witness', 'cls': 'K15c'})
    finally:
        sb.close()

def failed_apply_stream(ctx, n):
    """a deploy hit by an I/O error at a random fault point (cfg(agentpack_verif) hook): a manifest the failed command
    rewrote must not list a file that is not on disk with the recorded bytes (records follow the writes, never
    precede them), and every file on disk that the failed command wrote is either listed or still covered by the
    earlier record"""
    import json, hashlib
    rng = ctx.rng
    for i in range(n):
        sb = Sandbox('c15x'); sb.git_init_project()
        try:
            cw = ds.CfgWorld(sb, rng); ds.setup_all_targets(cw, rng); cw.write()
            sb.cli_json(['deploy', '--apply', '--yes', '--adopt'])
            for _ in range(rng.randrange(1, 3)):
                cw.edit_config()
            if rng.random() < 0.7: cw.add_prompt()
            cw.write()
            before = ds.world_tree(sb)
            k = rng.randrange(1, 60); kind = rng.choice(['EIO', 'EACCES', 'ENOSPC', 'abort'])
            p = sb.cli(['deploy', '--apply', '--yes', '--adopt', '--json'], extra_env={'AGENTPACK_VERIF_FAULT': '%d:%s' % (k, kind)})
            after = ds.world_tree(sb)
            failed = p.returncode != 0
            ctx.count('failed_apply', key=(kind, failed, k // 10), nontrivial=failed and before != after, tags=['fault:' + kind, 'failed' if failed else 'completed'])
            if not failed:
                continue
            rec = {'stream': 'failed_apply', 'index': i, 'fault': '%d:%s' % (k, kind), 'exit': p.returncode,
                   'config': {'opts': cw.opts, 'modules': [m['id'] for m in cw.modules if m['enabled']]}}
            for r in ds.relR(cw.roots(None), sb.root):
                mp = r['root'] + '/' + ds.mf_name(r['target'])
                if mp in after and before.get(mp) != after[mp]:
                    try: ents = json.loads(after[mp])['managed_files']
                    except Exception: continue
                    for e in ents:
                        q = ds.norm_rel(r['root'] + '/' + e['path'])
                        if q not in after or hashlib.sha256(after[q]).hexdigest() != e['sha256']:
                            ctx.violation('a manifest rewritten by a deploy that then failed lists %s, which is not on disk with the recorded bytes (the record precedes the write)' % q,
                                          dict(rec, manifest=mp, entry=e)); break
        finally:
            sb.close()

def entry_points_stream(ctx, n):
    """the other commands that install files through the shared apply path: `init --bootstrap` on a fresh home,
    `bootstrap --scope ...`, then the same again (only some assets change: the user removed or edited one).  Every
    file a command reports as written — and every operator file still on disk from an earlier run — is listed by the
    manifest of the directory root it lies in"""
    import shutil
    from vlib.impl import Sandbox
    rng = ctx.rng
    for i in range(n):
        sb = Sandbox('c15e')
        try:
            fresh = rng.random() < 0.6
            steps = []
            if fresh:
                shutil.rmtree(sb.repo, ignore_errors=True)
                steps.append(['init', '--bootstrap'] if rng.random() < 0.7 else ['init'])
            else:
                sb.git_init_project()
                world.write_config(sb.repo, {'version': 1, 'profiles': {'default': {'include_tags': ['base']}}, 'targets': {'codex': {'mode': 'files', 'scope': 'both', 'options': {}},
                                                                                                                              'claude_code': {'mode': 'files', 'scope': 'both', 'options': {}}}, 'modules': []})
            for _ in range(rng.randrange(1, 3)):
                steps.append(['bootstrap', '--scope', rng.choice(['user', 'project', 'both'])])
            written = {}
            tags = []
            for argv in steps:
                if written and rng.random() < 0.5:
                    q = rng.choice(sorted(written))
                    if os.path.exists(q):
                        if rng.random() < 0.5: os.remove(q); tags.append('user:delete')
                        else: world.write(q, b'edited\n'); tags.append('user:edit')
                p = sb.cli(argv + ['--yes', '--json'], cwd=(sb.repo if fresh and os.path.isdir(sb.repo) else None))
                try: doc = json.loads(p.stdout.decode('utf-8', 'replace'))
                except Exception: doc = None
                rec = {'stream': 'entry_points', 'index': i, 'argv': argv, 'history': steps, 'tags': list(tags), 'stdout': p.stdout.decode('utf-8', 'replace')[:600]}
                if not doc or not doc.get('ok'):
                    ctx.notes.append('entry_points %d: %s not judged (%s)' % (i, ' '.join(argv), p.stdout.decode('utf-8', 'replace')[:120])); break
                data = doc['data'].get('bootstrap', doc['data']) if isinstance(doc['data'], dict) else {}
                for c in (data.get('changes') or []) if data.get('applied') else []:
                    if c['op'] in ('create', 'update'): written[c['path']] = c['target']
                    elif c['op'] == 'delete': written.pop(c['path'], None)
                ctx.count('entry_points', key=(tuple(argv), bool(data.get('applied')), tuple(tags)), nontrivial=bool(data.get('applied')), tags=['cmd:' + argv[0]] + tags)
                for q, t in sorted(written.items()):
                    if not os.path.exists(q): continue
                    listed = False
                    d = os.path.dirname(q)
                    while d.startswith(sb.root) and d != sb.root:
                        for mn in (ds.mf_name(t), ds.LEGACY):
                            mp = os.path.join(d, mn)
                            if os.path.exists(mp):
                                try:
                                    v = json.load(open(mp))
                                    if v.get('tool') == t and any(os.path.normpath(os.path.join(d, e['path'])) == q for e in v.get('managed_files', [])):
                                        listed = True
                                except Exception: pass
                        if listed: break
                        d = os.path.dirname(d)
                    if not listed:
                        cls = 'K15a'    # (bootstrap and deploy sharing a root is the known class; this stream has no deploy)
                        ctx.violation('a file %s wrote and has not deleted is not listed in a manifest of its root: %s' % (argv[0], q.replace(sb.root, '')), dict(rec, path=q.replace(sb.root, '')))
        finally:
            sb.close()

def run(ctx):
    quick = ctx.tier == 'quick'
    ctx.rule = ('ledger_hist: histories over {deploy(config edits incl. option flips that move/switch off roots, --target, --adopt, all entry points), bootstrap --scope user, '
                'rollback, evolve restore, user edits}; the harness keeps a ledger of files agentpack wrote / deleted and compares it with the accepted manifest entries '
                'after every command; non-trivial = non-empty plan / successful rollback; distinct = distinct step signature')
    ctx.trusted = ['Coq 8.16.1 kernel + vm_compute', 'hand-written model coq/Model/Deploy.v', 'harness manifest classifier and ledger', 'reference desired state (harness CfgWorld)',
                   'avh harness crate, MCP client', 'tools/gen_tables.py']
    ctx.assumptions = ['SHA-256 injective on the file contents at hand', 'no symlinks in target roots', 'wfD / wfM hypotheses (one target per path; no manifest file among desired / recorded paths)']
    ctx.proof_phase(extra_targets=['Corr/Check_Deploy.vo'])
    witnesses(ctx)
    # two targets sharing one root directory (codex project scope + zed in the project root), deploys with and without --target
    ds.run_hist_stream(ctx, 6 if quick else 80, 5, props={'C15'}, weights={'deploy': 1}, stream='shared_root_hist', setup=ds.setup_shared_root)
    failed_apply_stream(ctx, 24 if quick else 300)
    entry_points_stream(ctx, 10 if quick else 120)
    ds.run_hist_stream(ctx, 5 if quick else 60, 8, props={'C15'}, weights={'deploy': 1}, stream='bootstrap_rollback',
                       plan_script=ds.hist_bootstrap_then_rollback, setup=ds.setup_two_roots)
    # deploys that each touch one root only, then rollbacks: every file rollback (re)writes must be listed, every file it deletes unlisted
    ds.run_hist_stream(ctx, 6 if quick else 80, 8, props={'C15'}, weights={'deploy': 1}, stream='two_root_hist',
                       plan_script=ds.hist_two_roots, setup=ds.setup_two_roots)
    ds.run_hist_stream(ctx, 16 if quick else 250, 6 if quick else 9, props={'C15'},
                       weights={'deploy': 6, 'rollback': 2, 'bootstrap': 2, 'restore': 2}, stream='ledger_hist')
