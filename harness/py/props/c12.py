"""C12 — Rendering is deterministic, follows the documented mapping, refuses conflicts."""
import json, os, json, random, hashlib, concurrent.futures
from vlib.common import *
from vlib import coqrun as cq
from props import _render as R

HEADER = 'From AP Require Import Corr.Check_C12.\nOpen Scope N_scope.\n'

def perms_for(rng, case):
    n = len(case['modules'])
    out = [(list(range(n)), rng.randrange(1 << 30))]
    for _ in range(2):
        o = list(range(n)); rng.shuffle(o)
        out.append((o, rng.randrange(1 << 30)))
    return out

def oracle(case, res, docopts):
    """property predicate on the implementation's own output; returns list of problems"""
    bad = []
    plans = res['plans']
    p0 = plans[0]
    if p0[0] == 'bad':
        return ['plan --json printed no JSON envelope']
    # determinism / order independence
    for i, p in enumerate(plans[1:], 1):
        if p[0] == 'err' and p0[0] == 'err' and p[1] != p0[1] and 'E_DESIRED_STATE_CONFLICT' not in (p[1], p0[1]):
            continue    # a configuration that is invalid in two ways: WHICH refusal is reported first may follow the manifest order;
                        # the property speaks about the desired state (there is none) and about E_DESIRED_STATE_CONFLICT only
        if p[:2] != p0[:2]:
            bad.append('plan differs between module/file orders (perm 0 vs perm %d): %r vs %r' % (i, p0[:2], p[:2]))
    if p0[0] == 'ok':
        if p0[2]:
            bad.append('plan from empty roots contains a non-create change: %r' % (p0[2][:2],))
        keys = [(t, p) for t, p, _ in p0[1]]
        if res.get('deploy', ('ok',))[0] != 'ok':
            bad.append('plan succeeded but deploy --apply failed with %r' % (res['deploy'][1],))
        for (t, p), f in (res.get('files') or {}).items():
            if f['bytes'] is None:
                bad.append('planned output %s:%s was not deployed' % (t, p))
            elif hashlib.sha256(f['bytes']).hexdigest() != f['sha_plan']:
                bad.append('deployed bytes of %s:%s differ from the planned after_sha256' % (t, p))
    ref = R.ref_render(case, docopts)
    if ref is not None:
        if ref[0] == 'fail' and p0[0] != 'err':
            bad.append('documented rules reject this configuration but plan succeeded')
        if ref[0] == 'conflict':
            for i, p in enumerate(plans):
                if not (p[0] == 'err' and p[1] == 'E_DESIRED_STATE_CONFLICT'):
                    bad.append('two selected modules give different bytes for one target path but plan (perm %d) returned %r' % (i, p[:2]))
        if ref[0] == 'ok':
            if p0[0] != 'ok':
                bad.append('documented mapping yields a desired state but plan failed with %r' % (p0[1],))
            else:
                sbroot = '/@S@'
                class _S: pass
                def norm(path):
                    p = path.replace(R.SB, sbroot)
                    return os.path.normpath(os.path.join(sbroot + '/project', p))
                exp = {}
                for (t, path), (data, ids) in ref[1].items():
                    k = (t, norm(path))
                    exp[k] = (hashlib.sha256(data).hexdigest(), ids)
                got = {(t, norm(p)): sha for t, p, sha in p0[1]}
                for k in sorted(set(exp) | set(got)):
                    if k not in got: bad.append('documented output missing from the plan: %s:%s' % k)
                    elif k not in exp: bad.append('plan contains an output the documented mapping does not assign: %s:%s' % k)
                    elif exp[k][0] != got[k]: bad.append('bytes of %s:%s differ from the documented rendering' % k)
                if res.get('files') is not None:
                    for (t, p), f in res['files'].items():
                        k = (t, norm(p))
                        if k in exp and f['listed']:
                            if f['listed'][0][2] != exp[k][1]:
                                bad.append('module_ids of %s:%s are %r, documented provenance %r' % (t, p, f['listed'][0][2], exp[k][1]))
                if res.get('roots') is not None:
                    er = sorted({(t, norm(r)) for t, r in ref[2]})
                    gr = sorted({(t, norm(r)) for t, r, _ in res['roots']})
                    if er != gr:
                        bad.append('managed roots differ from the documented ones: %r vs %r' % (gr, er))
    return bad

def tags_of(case, res, ref):
    p0 = res['plans'][0]
    t = ['plan:' + (p0[0] if p0[0] != 'err' else p0[1])]
    t += ['target:' + x for x in case['targets']]
    t += ['scope:' + c['scope'] for c in case['targets'].values()]
    t.append('ref:' + ('none' if ref is None else ref[0]))
    if p0[0] == 'ok':
        t.append('outputs:%d' % min(len(p0[1]), 9))
        if any(len(f['listed'][0][2]) > 1 for f in (res.get('files') or {}).values() if f['listed']):
            t.append('merged-ids')
    if case['profile'] != 'default': t.append('profile-arg')
    if case['filter'] != 'all': t.append('target-arg')
    return t

def run_one(args):
    case, perms = args
    return R.observe(case, perms, deploy=True)

def run(ctx):
    quick = ctx.tier == 'quick'
    ctx.rule = ('render_matrix: random manifests over 1-6 of the six targets x scope x every boolean option (absent / bool / string and '
                'junk spellings) x codex_home forms x CODEX_HOME x profiles (include_tags / include_modules / exclude_modules, --profile) '
                'x --target x 1-6 modules (type x tags x targets x enabled, colliding names, ids without ":") x small trees (valid, '
                'invalid, ignored dirs, invalid UTF-8), each planned under 3 permutations of module order and file creation order, then '
                'doctor + deploy from empty roots. non-trivial = the plan has >=1 output or is a conflict; distinct = distinct '
                '(sorted plan outputs / error code, target set, option set).')
    ctx.trusted = ['Coq 8.16.1 kernel + vm_compute', 'hand-written model coq/Model/Render.v (YAML/front-matter verdicts supplied by construction; overlays and git sources not modelled)',
                   'tools/gen_tables.py (option names/defaults/scope, separators, cursor header, fs-key bound, markers)',
                   'Python harness (generator, sandbox, reference renderer written from docs/reference/targets.md)',
                   'SHA-256 collision-freeness (plan after_sha256 vs deployed bytes)']
    ctx.assumptions = ['module ids distinct (validate_manifest enforces it; hypothesis NoDup of C12_perm)',
                       'file names inside a module tree are distinct non-empty names without "/" (file-system invariant)',
                       'directory iteration order is arbitrary but each file is listed once']
    ctx.proof_phase(extra_targets=['Corr/Check_C12.vo'])
    docopts = R.doc_options()
    rng = ctx.rng
    if ctx.replay:
        rep = json.load(open(ctx.replay))
        case = R.case_from_json(rep['case'])
        res = R.observe(case, [tuple(p) for p in rep['perms']])
        bad = oracle(case, res, docopts)
        for b in bad:
            ctx.violation(b, {'stream': 'render_matrix', 'case': R.case_json(case), 'perms': rep['perms']})
        failing = ctx.corr('render_matrix', HEADER, 'check_render', 'case', [(R.coq_case(case, res), rep)])
        for c in failing:
            ctx.violation('model and implementation disagree on the rendered desired state', c, no_input=True)
        return
    n = 300 if quick else 4000
    jobs = []
    # directed first: one output directory under two spellings (components, not strings, identify a path) —
    # different bytes must conflict in every order, identical bytes merge with both ids
    for spelling in ('./foo', 'foo//', 'foo/.', './/foo'):
        for same in (False, True):
            sk1 = [('SKILL.md', R.SKILL_OK.encode())]
            sk2 = [('SKILL.md', (R.SKILL_OK if same else R.SKILL_OK2).encode())]
            mods = [{'id': 'skill:foo', 'type': 'skill', 'enabled': True, 'tags': ['a'], 'targets': [], 'files': sk1, 'fm_ok': True},
                    {'id': 'skill:' + spelling, 'type': 'skill', 'enabled': True, 'tags': ['a'], 'targets': [], 'files': sk2, 'fm_ok': True}]
            if rng.random() < 0.5: mods.reverse()
            case = {'version': 1, 'targets': {'codex': {'scope': 'user', 'options': {'write_user_skills': True}}},
                    'profiles': {'default': {'include_tags': ['a'], 'include_modules': [], 'exclude_modules': []}},
                    'modules': mods, 'profile': 'default', 'filter': 'all', 'codex_env': None}
            jobs.append((case, perms_for(rng, case)))
    for i in range(n):
        case = R.gen_case(rng, docopts)
        jobs.append((case, perms_for(rng, case)))
    with concurrent.futures.ThreadPoolExecutor(max_workers=NCPU) as ex:
        results = list(ex.map(run_one, jobs))
    cases = []
    for i, ((case, perms), res) in enumerate(zip(jobs, results)):
        rec = {'stream': 'render_matrix', 'index': i, 'case': R.case_json(case), 'perms': [list(p) for p in perms],
               'plans': [list(p[:2]) for p in res['plans']]}
        bad = oracle(case, res, docopts)
        ref = R.ref_render(case, docopts)
        p0 = res['plans'][0]
        nontriv = (p0[0] == 'ok' and len(p0[1]) > 0) or (p0[0] == 'err' and p0[1] == 'E_DESIRED_STATE_CONFLICT')
        key = hashlib.sha256(repr((p0[:2], sorted(case['targets']), sorted((t, sorted(map(str, c['options'].items()))) for t, c in case['targets'].items()))).encode()).hexdigest()[:16]
        ctx.count('render_matrix', key=key, nontrivial=nontriv, tags=tags_of(case, res, ref))
        if i < 3:
            ctx.sample({'stream': 'render_matrix', 'targets': {t: c for t, c in case['targets'].items()},
                        'modules': [(m['id'], m['type'], [f[0] for f in m['files']]) for m in case['modules']],
                        'plan': [list(x) for x in p0[1]][:6] if p0[0] == 'ok' else list(p0[:2])})
        if bad:
            rec['oracle'] = bad
            ctx.violation(bad[0], rec)
            continue
        if p0[0] == 'bad':
            continue
        if p0[0] == 'ok' and (res.get('roots') is None or res.get('files') is None):
            rec['doctor'] = res.get('doctor_err')
            ctx.violation('plan succeeded but doctor --json failed for the same configuration', rec)
            continue
        cases.append((R.coq_case(case, res), rec))
    total = sum(len(c[0]) for c in cases)
    ctx.log('render_matrix: %d cases, %d chars of Coq literals' % (len(cases), total))
    failing = ctx.corr('render_matrix', HEADER, 'check_render', 'case', cases, shard_chars=50000)
    # search for a concrete failing input near each disagreeing case: the same configuration with every option
    # spelled as a documented boolean (junk spellings dropped -> default) and codex_home given as a plain path, so
    # that the docs-derived reference renderer covers it and the oracle can judge the implementation directly
    found = 0
    for c in failing[:8]:
        variant = R.case_from_json(json.loads(json.dumps(c['case'])))
        for t, tc in variant['targets'].items():
            for k in list(tc['options']):
                v = tc['options'][k]
                if k == 'codex_home':
                    if not isinstance(v, str) or not v.strip(): del tc['options'][k]
                elif not isinstance(v, bool):
                    del tc['options'][k]
        if 'default' not in variant['profiles']:
            continue
        res = run_one((variant, perms_for(rng, variant)))
        ctx.count('attack', key=c.get('index'), tags=['attack'])
        bad = oracle(variant, res, docopts)
        if bad:
            found += 1
            ctx.violation(bad[0], {'stream': 'render_matrix', 'case': R.case_json(variant), 'derived_from': c.get('index'), 'oracle': bad[:5]})
    for c in failing:
        ctx.violation('model and implementation disagree on the rendered desired state (files / ids / roots / error code)', c, no_input=True)
