"""C10 — The --json envelope contract holds on every path, success or failure."""
import os, json, concurrent.futures, random
from vlib.common import *
from vlib import coqrun as cq
from vlib.impl import Sandbox, Mcp, snap_diff
from vlib import catalogue as C

HEADER = 'From AP Require Import Corr.Check_C10.\nOpen Scope N_scope.\n'
BACKSLASH_DIR = 'we\\ird dir'

MCP_READONLY_ARGS = {
    'plan': [{}, {'target': 'codex'}, {'profile': 'nope'}, {'target': 'bogus'}],
    'diff': [{}, {'target': 'claude_code'}],
    'preview': [{}, {'diff': True}, {'diff': True, 'target': 'codex'}],
    'status': [{}, {'only': ['missing']}, {'only': ['missing', 'modified'], 'target': 'codex'}],
    'doctor': [{}, {'target': 'codex'}],
    'deploy': [{}, {'target': 'codex'}, {'machine': 'm2'}],
    'explain': [{'kind': 'plan'}, {'kind': 'diff'}, {'kind': 'status'}, {'kind': 'plan', 'target': 'bogus'}],
}
MCP_MUTATING_ARGS = {
    'deploy_apply': [{}, {'dry_run': True}, {'yes': True}, {'yes': True, 'confirm_token': 'deadbeef'}, {'yes': True, 'dry_run': True}, {'target': 'bogus', 'yes': True, 'dry_run': True}],
    'rollback': [{'to': 'nope'}, {'to': 'nope', 'yes': True}, {'to': '@first'}, {'to': '@first', 'yes': True}],
    'evolve_propose': [{}, {'dry_run': True}, {'yes': True}, {'yes': True, 'scope': 'machine', 'branch': 'verif/p'}],
    'evolve_restore': [{}, {'dry_run': True}, {'yes': True}, {'yes': True, 'module_id': 'nope:x'}],
}

def mcp_expect_id(tool, args, gen):
    if tool == 'explain':
        return 'explain ' + args.get('kind', 'plan')
    return gen['mcp_mutating_tools'].get(tool, tool)

def env_case(doc, rc):
    """abstract form of an observed envelope for the model comparison; None if not even an envelope"""
    try:
        errs = []
        for e in doc['errors']:
            det = e.get('details')
            if isinstance(det, dict):
                rcv = det.get('reason_code'); nav = det.get('next_actions')
                errs.append((e['code'], (sorted(det.keys()), rcv if isinstance(rcv, str) else None,
                                         nav if isinstance(nav, list) and all(isinstance(x, str) for x in nav) else None)))
            else:
                errs.append((e['code'], None))
        return (doc['command'], list(doc['command_path']), int(rc), bool(doc['ok']), doc['command_id'], doc['data'] == {}, errs)
    except Exception:
        return None

def env_term(c):
    cmd, path, rc, okv, cid, de, errs = c
    def eterm(e):
        code, d = e
        if d is None:
            return cq.cpair(cq.cstr(code), 'None')
        keys, rcv, nav = d
        return cq.cpair(cq.cstr(code), '(Some %s)' % cq.cpair(cq.clist([cq.cstr(k) for k in keys]), cq.copt(rcv, cq.cstr),
                                                                 cq.copt(nav, lambda l: cq.clist([cq.cstr(x) for x in l]))))
    return cq.cpair(cq.cstr(cmd), cq.clist([cq.cstr(p) for p in path]), cq.cN(rc), cq.cbool(okv), cq.cstr(cid), cq.cbool(de),
                    cq.clist([eterm(e) for e in errs]))

class Out:
    def __init__(self):
        self.viol = []; self.counts = []; self.env = {}; self.posix = set(); self.samples = []; self.n = 0; self.usage = 0
        self.codes = {}
    def judge(self, stream, world, what, argv, rc, doc, out, expect_id, gen, extra=None):
        """C10 oracle on one CLI invocation"""
        self.n += 1
        probs = C.check_envelope(doc, rc, out, expect_id, gen=gen)
        case = {'stream': stream, 'world': world, 'argv': argv, 'exit': rc, 'expected_command_id': expect_id,
                'stdout_head': out[:600], 'problems': probs}
        if extra: case.update(extra)
        for p in probs[:3]:
            self.viol.append(('`agentpack %s`: %s' % (' '.join(argv), p), case))
        code = None
        if isinstance(doc, dict):
            ec = env_case(doc, rc)
            if ec is not None:
                key = json.dumps(ec, sort_keys=True)
                if key not in self.env:
                    self.env[key] = (ec, case)
            for a, b in C.posix_pairs(doc):
                self.posix.add((a, b))
            code = (C.first_error(doc) or {}).get('code')
        outcome = 'ok' if rc == 0 else (code or 'no-envelope')
        self.codes[outcome] = self.codes.get(outcome, 0) + 1
        self.counts.append((stream, (world, tuple(argv), outcome), rc != 0, ['world:' + world, 'outcome:' + outcome]))
        if rc != 0 and len(self.samples) < 1 and code not in (None, 'E_CONFIRM_REQUIRED'):
            self.samples.append(case)

def run_matrix_world(kind, seed, quick, suffix=None, last_op=None):
    rng = random.Random(seed)
    gen = C.gen_tables(); cat, _ = C.load_catalogue()
    w = C.build_world(kind, 'c10', root_suffix=suffix)
    o = Out()
    name = kind + ('+backslash' if suffix else '') + ('+' + last_op if last_op else '')
    try:
        if last_op:      # a history step first (e.g. a rollback: its own record then is a snapshot id that is no valid rollback target)
            C.perturb(w, rng, 1, last=last_op)
        R = C.Runner(w, cat)
        invs = []
        for cid in cat.leaf_ids():
            if not cat.supports_json(cid):
                continue
            invs += C.invocations_for(cat, cid, w, rng, alternates=2 if quick else 0, full=not quick)
        for inv in invs:
            exp = C.expected_command_id(inv)
            for yes in (False, True):
                r = R.run(inv, yes=yes)
                if C.is_usage_error(r['rc'], r['out'], r['err']):
                    o.usage += 1; break
                argv = inv.argv + ['--json'] + (['--yes'] if yes else []) + (['--dry-run'] if inv.dry else [])
                o.judge('matrix', name, None, argv, r['rc'], r['doc'], r['out'], exp, gen)
    finally:
        w.close()
    return o

def run_failure_world(kind, seed, quick):
    rng = random.Random(seed)
    gen = C.gen_tables(); cat, _ = C.load_catalogue()
    w = C.build_failure_world(kind, 'c10f')
    o = Out()
    try:
        base = w.snapshot()
        for cid in cat.leaf_ids():
            if not cat.supports_json(cid):
                continue
            invs = C.invocations_for(cat, cid, w, rng, alternates=1 if quick else 0, full=not quick)
            # primary values with every flag subset is too much for every failure class: all flags off,
            # each single flag, all flags on; dry-run off/on
            flags = cat.flags_of(cid)
            keep = []
            for inv in invs:
                if inv.variant != 'primary' or len(inv.flags) in (0, 1, len(flags)):
                    keep.append(inv)
            for inv in keep:
                exp = C.expected_command_id(inv)
                for yes in (False, True):
                    argv = list(getattr(w, 'extra_global', [])) + inv.argv + ['--json'] + (['--yes'] if yes else []) + (['--dry-run'] if inv.dry else [])
                    rc, doc, out, err = C.world_cli(w, argv, stdin=inv.stdin)
                    if C.is_usage_error(rc, out, err):
                        o.usage += 1; break
                    o.judge('failure', kind, None, argv, rc, doc, out, exp, gen, extra={'stderr_head': err[:300]})
                    after = w.snapshot()
                    if snap_diff(base, after) or base.raw_index != after.raw_index:
                        if getattr(w, 'unpriv', False):
                            w.reset(); C._chown_tree(w.sb.root)
                            base = w.snapshot()
                        else:
                            w.restore(base, after)
    finally:
        w.close()
    return o

def run_mcp_world(kind, seed, quick, failure=False):
    rng = random.Random(seed)
    gen = C.gen_tables(); cat, _ = C.load_catalogue()
    w = C.build_failure_world(kind, 'c10m') if failure else C.build_world(kind, 'c10m')
    o = Out()
    try:
        if getattr(w, 'unpriv', False):
            return o    # the MCP server is started by the harness user; permission worlds are CLI-only
        base = w.snapshot()
        snaps = w.info.get('snapshots') or ['1']
        calls = []
        for t, vs in MCP_READONLY_ARGS.items():
            calls += [(t, dict(v)) for v in vs]
        for t, vs in MCP_MUTATING_ARGS.items():
            calls += [(t, {k: (snaps[0] if v == '@first' else v) for k, v in d.items()}) for d in vs]
        # valid token sequence and protocol-level errors
        calls.append(('@deploy_then_apply', {}))
        calls.append(('plan', {'unknown_field': 1}))
        calls.append(('no_such_tool', {}))
        calls.append(('rollback', {}))
        env = {'EDITOR': ''}; env.update(getattr(w, 'extra_env', {}) or {})
        for tool, args in calls:
            srv = Mcp(w.sb, env)
            try:
                if tool == '@deploy_then_apply':
                    m0, e0 = srv.call('deploy', {})
                    probs = C.check_mcp_result(m0, gen, 'deploy')
                    tok = (e0 or {}).get('data', {}).get('confirm_token') if e0 and e0.get('ok') else None
                    tool2, args2 = 'deploy_apply', {'yes': True, 'confirm_token': tok or 'x'}
                    msg, envl = srv.call(tool2, args2)
                    probs += C.check_mcp_result(msg, gen, 'deploy --apply')
                    label = 'deploy+deploy_apply'
                else:
                    msg, envl = srv.call(tool, args)
                    label = tool
                    if 'error' in msg:
                        # JSON-RPC level refusal (unknown arguments / missing required): a protocol message
                        probs = [] if isinstance(msg['error'], dict) and 'code' in msg['error'] else ['malformed JSON-RPC error']
                    elif tool == 'no_such_tool':
                        res = msg.get('result') or {}
                        probs = [] if res.get('isError') is True else ['unknown tool not reported as error']
                    else:
                        probs = C.check_mcp_result(msg, gen, mcp_expect_id(tool, args, gen))
                bad = list(srv.bad_lines)
            finally:
                srv.close()
            o.n += 1
            case = {'stream': 'mcp', 'world': kind, 'tool': label, 'arguments': {k: ('<token>' if k == 'confirm_token' else v) for k, v in args.items()},
                    'result_head': json.dumps(msg)[:700], 'problems': probs}
            for p in probs[:3]:
                o.viol.append(('MCP %s in world %s: %s' % (label, kind, p), case))
            if bad:
                o.viol.append(('MCP server wrote non-protocol lines on stdout: %r' % bad[:2], case))
            if isinstance(envl, dict):
                ec = env_case(envl, 0 if envl.get('ok') else 1)
                if ec is not None:
                    key = json.dumps(ec, sort_keys=True)
                    o.env.setdefault(key, (ec, case))
                for a, b in C.posix_pairs(envl):
                    o.posix.add((a, b))
            code = (C.first_error(envl) or {}).get('code') if isinstance(envl, dict) else ('rpc-error' if 'error' in msg else 'none')
            outcome = 'ok' if isinstance(envl, dict) and envl.get('ok') else (code or 'none')
            o.counts.append(('mcp', (kind, label, json.dumps(args, sort_keys=True), outcome), outcome != 'ok', ['world:' + kind, 'tool:' + label, 'outcome:' + outcome]))
            after = w.snapshot()
            if snap_diff(base, after) or base.raw_index != after.raw_index:
                w.restore(base, after)
    finally:
        w.close()
    return o

def replay(ctx, gen):
    rep = json.load(open(ctx.replay))
    if rep.get('stream') not in ('matrix', 'failure') or 'argv' not in rep:
        ctx.notes.append('replay file is not a CLI case; running the full check instead')
        return False
    kind = rep['world'].replace('+backslash', '').replace('+rollback', '')
    w = C.build_failure_world(kind, 'c10r') if rep['stream'] == 'failure' else C.build_world(kind, 'c10r', root_suffix=(BACKSLASH_DIR if '+backslash' in rep['world'] else None))
    try:
        if '+rollback' in rep['world']:
            # same history step; the argv of the case may name the rollback record of the original run: substitute this run's
            C.perturb(w, random.Random(0), 1, last='rollback')
            snaps = w.info.get('snapshots') or []
            if '--to' in rep['argv'] and snaps:
                i = rep['argv'].index('--to')
                if i + 1 < len(rep['argv']) and rep['argv'][i + 1].isdigit():
                    rep['argv'][i + 1] = snaps[0]
        rc, doc, out, err = C.world_cli(w, rep['argv'], stdin=C.RECORD_EVENT.encode() if 'record' in rep['argv'] else None)
        for p in C.check_envelope(doc, rc, out, rep.get('expected_command_id'), gen=gen):
            ctx.violation('`agentpack %s`: %s' % (' '.join(rep['argv']), p), rep)
        ctx.count('replay', key=json.dumps(rep['argv']))
    finally:
        w.close()
    return True

def run(ctx):
    quick = ctx.tier == 'quick'
    ctx.rule = ('matrix: every leaf command of `help --json` that supports --json x every subset of its flags x --dry-run x {without, with --yes} '
                '(primary option values + random single deviations) in every world class %s and in a world whose paths contain a backslash; '
                'failure: %d failure-class worlds (invalid/unsupported/missing config and lockfile, unknown target, desired-state conflict, overlay '
                'baseline/conflict/patch/mixed errors, read-only target/repo/state dirs via chmod under an unprivileged uid, target path is a file, '
                'policy violations and org-config errors, detached HEAD, no remote, git missing from PATH, corrupt snapshot, garbage event log) x every '
                'leaf command x {no flag, each flag, all flags} x dry-run x yes; mcp: all tools x argument variants in normal and failure worlds, '
                'token sequence, protocol errors. Every stdout is validated by catalogue.check_envelope; distinct = (world, argv, outcome); '
                'non-trivial = failing invocation.' % (C.WORLD_KINDS, len(C.FAILURE_KINDS)))
    ctx.trusted = ['Coq 8.16.1 kernel + vm_compute', 'hand-written model coq/Model/Envelope.v',
                   'tools/gen_tables.py (E_* literals, registry headings and guidance lines of error-codes.md, SPEC.md guidance values, default-guidance table, JSON_SCHEMA_VERSION)',
                   'Python envelope validator vlib/catalogue.check_envelope, MCP client']
    ctx.assumptions = ['PARTIAL: that every handler prints exactly one JSON document and the payload fields (*_posix, inline guidance of codes outside the default table) are observations on the sampled invocations',
                       'clap usage errors (exit 2, conflicting flags) are not syntactically valid invocations and are skipped']
    ctx.proof_phase(extra_targets=['Corr/Check_C10.vo'])
    gen = C.gen_tables()
    cat, helpdoc = C.load_catalogue()
    for p in C.cross_check_catalogue(cat, gen):
        ctx.violation('catalogue mismatch: ' + p, {'stream': 'catalogue'})
    for p in C.check_envelope(helpdoc, 0, json.dumps(helpdoc), 'help', gen=gen):
        ctx.violation('help --json: ' + p, {'stream': 'catalogue'})
    if ctx.replay and replay(ctx, gen):
        return
    kinds = list(C.WORLD_KINDS)
    fkinds = list(C.FAILURE_KINDS)
    mk = [('fresh', False), ('deployed', False), ('pending', False), ('pending_dirty', False), ('empty', False), ('gitmodule', False),
          ('cfg_invalid_yaml', True), ('conflict', True), ('overlay_patch_fail', True), ('target_is_file', True), ('no_git_binary', True),
          ('snapshot_corrupt', True)]
    if not quick:
        mk += [(k, True) for k in fkinds if (k, True) not in mk]
    seeds = {k: ctx.rng.randrange(1 << 30) for k in kinds + fkinds + ['bs'] + ['m' + k for k, _ in mk]}
    outs = []
    with concurrent.futures.ProcessPoolExecutor(max_workers=min(8, NCPU)) as ex:
        futs = [ex.submit(run_matrix_world, k, seeds[k], quick) for k in kinds]
        futs.append(ex.submit(run_matrix_world, 'pending', seeds['bs'], quick, BACKSLASH_DIR))
        futs.append(ex.submit(run_matrix_world, 'pending', seeds['bs'] + 1, quick, None, 'rollback'))
        futs += [ex.submit(run_failure_world, k, seeds[k], quick) for k in fkinds]
        futs += [ex.submit(run_mcp_world, k, seeds['m' + k], quick, fl) for k, fl in mk]
        for f in futs:
            outs.append(f.result())
    envs = {}; posix = set(); codes = {}
    kept, dropped = C.cap_violations([v for o in outs for v in o.viol])
    for what, case in kept:
        ctx.violation(what, case)
    if dropped:
        ctx.notes.append('%d further violations of the same (command, kind) not written as replays' % dropped)
    for o in outs:
        for stream, key, nt, tags in o.counts:
            ctx.count(stream, key=key, nontrivial=nt, tags=tags)
        for s_ in o.samples:
            ctx.sample(s_)
        envs.update(o.env); posix |= o.posix
        for k, v in o.codes.items():
            codes[k] = codes.get(k, 0) + v
    ctx.log('outcomes: ' + ', '.join('%s=%d' % kv for kv in sorted(codes.items(), key=lambda kv: -kv[1])))
    ctx.notes.append('error codes provoked: ' + ', '.join(sorted(k for k in codes if k.startswith('E_'))))
    unseen = sorted(set(gen['registry_error_codes']) - set(codes))
    ctx.notes.append('registry codes not provoked by any stream: ' + ', '.join(unseen))
    cases = [(env_term(ec), case) for ec, case in envs.values()]
    for c in ctx.corr('envelope', HEADER, 'check_env', 'str * list str * N * bool * str * bool * list obs_err', cases)[:6]:
        ctx.violation('model and implementation disagree on the envelope (exit / ok / ids / default guidance fixed point)', c, no_input=True)
    pc = sorted(posix)
    pcases = [(cq.cpair(cq.cstr(a), cq.cstr(b)), {'stream': 'posix', 'value': a, 'posix': b}) for a, b in pc]
    for a, b in pc:
        ctx.count('posix', key=(a, b), nontrivial='\\' in a)
    for c in ctx.corr('posix', HEADER, 'check_posix', 'str * str', pcases)[:6]:
        ctx.violation('a *_posix field is not its companion with forward slashes: %r vs %r' % (c['value'], c['posix']), c)
